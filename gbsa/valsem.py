"""Value-level comparison of the interpreter with the SM83 reference semantics, for all operand values at once.

For one encoding: every path of interpreter::run_op (from gbsa.opspec, operand bytes / registers / bus read values
symbolic) is turned into (path condition K, final register terms, bus events).  K and every value are converted to
canonical ROBDD vectors (gbsa.bdd); the reference (gbsa.sm83sem) is evaluated over the same input bits; a component
differs iff  K AND (interpreter bit XOR reference bit)  is not the FALSE node for some bit.  A satisfying assignment of
that node is reported as the concrete counterexample.  Nothing is executed; nothing is searched.
"""
from . import opspec as osp, sm83sem
from .bdd import BDD, BV, TermBV, Unsupported
from .terms import C, S, O, fmt

REGS32 = ('af', 'bc', 'de', 'hl', 'sp')


class Split(Exception):
    def __init__(self, c):
        Exception.__init__(self, 'split')
        self.c = c


def sym_known(t):
    av = osp.reg_facts(t)
    if av is None:
        return (0, 0)
    k0 = av.m0
    # an upper bound below a power of two also fixes leading zeros
    hi = av.hi
    w = t[1]
    for i in range(w - 1, -1, -1):
        if hi >> i:
            break
        k0 |= 1 << i
    return (k0, av.m1)


def eval_bv(m, bv, asg):
    out = 0
    for i, n in enumerate(bv.b):
        while n > 1:
            v, lo, hi = m.node[n]
            sym, bit = m.names[v]
            n = hi if (asg.get(sym, 0) >> bit) & 1 else lo
        out |= n << i
    return out


def show_witness(w):
    nice = []
    for k in sorted(w):
        nm = k.replace('regs.', '').upper() if k.startswith('regs.') else k
        nice.append('%s=%#x' % (nm, w[k]))
    return ', '.join(nice)


class EncodingResult:
    def __init__(self):
        self.findings = []      # (component, message)
        self.undecided = None   # reason
        self.paths = 0
        self.cases = 0
        self.nodes = 0


def check_encoding(sp, enc, word_shapes):
    """-> EncodingResult for one defined encoding"""
    res = EncodingResult()
    try:
        op, ln, cy = sp.decoded(enc)
    except Exception as e:
        res.undecided = 'decode: %s' % e
        return res
    m = BDD()
    conv = TermBV(m, sym_known)
    paths = sp.interp(enc)
    cover = 0
    try:
        for r in paths:
            K = 1
            for kind, t, v in r.state.env.log:
                if not (isinstance(t, tuple) and t and t[0] in ('c', 's', 'o') and t[1]):
                    raise Unsupported('assumption on a non-integer term')
                e = conv(t).eq(v)
                K = m.AND(K, e if kind == 'eq' else m.NOT(e))
                if K == 0:
                    break
            if K == 0:
                continue
            cover = m.OR(cover, K)
            res.paths += 1
            if r.status != 'ok':
                w = m.witness(K)
                res.findings.append(('total', 'interpreter does not complete (%s: %s) for %s'
                                     % (r.status, str(r.detail)[:60], show_witness(w))))
                continue
            stack = [K]
            while stack:
                k = stack.pop()
                try:
                    compare_path(res, m, conv, enc, ln, r, k, word_shapes)
                    res.cases += 1
                except Split as s:
                    for part in (m.AND(k, s.c), m.AND(k, m.NOT(s.c))):
                        if part != 0:
                            stack.append(part)
        if cover != 1:
            w = m.witness(m.NOT(cover))
            res.undecided = 'interpreter paths do not cover input %s' % show_witness(w)
    except Unsupported as e:
        res.undecided = 'outside the bit-vector fragment: %s' % e.why
    ext = sorted(n for n in m.rank if n.startswith('ext:') or n.startswith('indirect_ret'))
    if ext and (res.findings or res.undecided is None):
        # the result of a function without a model is an unconstrained input here: a "difference" may be spurious
        res.undecided = 'depends on the result of unmodelled function(s) %s' % ', '.join(x.split('#')[0][4:] for x in ext)
        res.findings = []
    res.nodes = len(m.node)
    return res


def expand_bus(p, conv, word_shapes):
    """interpreter bus events -> byte events [(kind, addr BV16, value BV8)] in program order"""
    out = []
    for b in p['bus']:
        addr = conv(b['addr'])
        if len(addr) != 16:
            addr = addr.trunc(16) if len(addr) > 16 else addr.zext(16)
        if b['width'] == 8:
            val = conv(b['value'])
            out.append((b['kind'], addr, val.trunc(8)))
        else:
            val = conv(b['value'])
            for off, which in word_shapes(b['site_helper'])[2]:
                if which not in ('lo', 'hi'):
                    raise Unsupported('word helper byte order not understood')
                byte = val.bits(0, 8) if which == 'lo' else val.bits(8, 16)
                out.append((b['kind'], addr + off, byte))
    return out


def compare_path(res, m, conv, enc, ln, r, K, word_shapes):
    p = osp.summarise_interp(r)
    events = expand_bus(p, conv, word_shapes)
    reads = [e for e in events if e[0] == 'r']
    writes = [e for e in events if e[0] == 'w']
    entry = {f: conv(osp.entry_reg(f)) for f in REGS32 + ('ip',)}
    regs = {'A': entry['af'].bits(8, 16), 'F': entry['af'].bits(0, 8), 'B': entry['bc'].bits(8, 16),
            'C': entry['bc'].bits(0, 8), 'D': entry['de'].bits(8, 16), 'E': entry['de'].bits(0, 8),
            'H': entry['hl'].bits(8, 16), 'L': entry['hl'].bits(0, 8), 'SP': entry['sp'].bits(0, 16),
            'PC': entry['ip'].bits(0, 16)}
    rd = {'i': 0}
    problems = []

    def bad(component, D, what, a=None, b=None):
        """record a difference that exists for the inputs in D (a BDD node under K)"""
        w = m.witness(D)
        extra = ''
        if a is not None and b is not None:
            extra = ': interpreter %#x, SM83 %#x' % (eval_bv(m, a, w), eval_bv(m, b, w))
        problems.append((component, '%s%s for %s' % (what, extra, show_witness(w))))

    def read(addr):
        i = rd['i']
        rd['i'] += 1
        if i >= len(reads):
            problems.append(('bus', 'the SM83 reads a byte that the interpreter path does not read (read #%d)' % (i + 1)))
            return BV.sym(m, 'missing-read#%d' % i, 8)
        D = m.AND(K, addr.diff(reads[i][1]))
        if D != 0:
            bad('bus', D, 'bus read #%d address differs' % (i + 1), reads[i][1], addr)
        return reads[i][2]

    def decide(c):
        if m.AND(K, c) == 0:
            return False
        if m.AND(K, m.NOT(c)) == 0:
            return True
        raise Split(c)
    if enc[0] is None:
        d8 = conv(osp.B1)
        d16 = conv(osp.B1).concat_high(conv(osp.B2))
    else:
        d8 = BV.const(m, 8, 0)
        d16 = BV.const(m, 16, 0)
    M = sm83sem.Machine(m, regs, d8, d16, read, decide, ln)
    sm83sem.execute(enc, M)
    # registers
    fin = {'AF': M.pair('AF'), 'BC': M.pair('BC'), 'DE': M.pair('DE'), 'HL': M.pair('HL'), 'SP': M.r['SP']}
    for f in REGS32:
        got = conv(p['regs'][f])
        want = fin[f.upper()].zext(len(got))
        D = m.AND(K, got.diff(want))
        if D != 0:
            comp = f.upper()
            if f == 'af':
                lo = m.AND(K, got.bits(0, 8).diff(want.bits(0, 8)))
                hi = m.AND(K, got.bits(8, len(got)).diff(want.bits(8, len(got))))
                comp = 'F' if (lo != 0 and hi == 0) else ('A' if lo == 0 else 'AF')
                if lo != 0 and hi == 0:
                    D = lo
            bad(comp, D, 'register %s differs' % comp, got, want)
    got = conv(p['regs']['ip']).trunc(16)
    D = m.AND(K, got.diff(M.r['PC']))
    if D != 0:
        bad('PC', D, 'PC differs (mod 2^16)', got, M.r['PC'])
    # bus
    if rd['i'] < len(reads):
        problems.append(('bus', 'the interpreter path reads %d bytes, the SM83 reads %d' % (len(reads), rd['i'])))
    if len(writes) != len(M.writes):
        problems.append(('bus', 'the interpreter path writes %d bytes, the SM83 writes %d' % (len(writes), len(M.writes))))
    else:
        for i, ((_, ia, iv), (ra, rv)) in enumerate(zip(writes, M.writes)):
            D = m.AND(K, ia.diff(ra))
            if D != 0:
                bad('bus', D, 'bus write #%d address differs' % (i + 1), ia, ra)
            D = m.AND(K, iv.diff(rv))
            if D != 0:
                bad('bus', D, 'bus write #%d value differs' % (i + 1), iv, rv)
    seen = set(c for c, _ in res.findings)
    for comp, msg in problems:
        if comp not in seen:
            seen.add(comp)
            res.findings.append((comp, msg))


STACK_OPS = ('PUSH rp', 'POP rp', 'CALL a16', 'CALL cc,a16', 'RET', 'RET cc', 'RETI', 'RST')
_RESULTS = {}


def all_results(ctx, cfg='default'):
    """EncodingResult for every defined encoding (memoised per process)"""
    from . import sm83
    from .rules import c01
    if cfg in _RESULTS:
        return _RESULTS[cfg]
    facts = ctx.facts(cfg)
    sp = ctx.opspec(cfg)
    cache = {}

    def shapes(h):
        if h not in cache:
            cache[h] = c01.helper_shape(facts, h)
        return cache[h]
    out = {}
    for enc in osp.all_encodings():
        if sm83.TABLE[enc]['mn'] == 'INVALID':
            continue
        out[enc] = check_encoding(sp, enc, shapes)
    _RESULTS[cfg] = out
    return out


def apply_rule(ctx, chk, rid, want, file='src/interpreter/mod.rs'):
    """want(mnemonic, component) -> bool selects the components a rule is responsible for"""
    from . import sm83
    res = all_results(ctx)
    nodes = 0
    for enc, r in sorted(res.items(), key=lambda kv: (kv[0][0] or 0, kv[0][1])):
        name = osp.enc_name(enc)
        mn = sm83.TABLE[enc]['mn']
        nodes += r.nodes
        if r.undecided:
            chk.error('%s %s (%s): value-level comparison undecided: %s' % (rid, name, mn, r.undecided))
            continue
        mine = [(c, msg) for c, msg in r.findings if want(mn, c)]
        if mine:
            for c, msg in mine:
                chk.fail(rid, '%s:%s' % (name, c), '%s: %s' % (mn, msg), file, None)
            chk.rules[rid]['instances'] -= len(mine) - 1
        else:
            chk.ok(rid, name, sample={'opcode': name, 'mnemonic': mn, 'paths': r.paths, 'cases': r.cases,
                                      'bdd_nodes': r.nodes} if enc[1] % 37 == 0 else None)
    chk.extra.setdefault('value_level', {})[rid] = {'encodings': len(res), 'bdd_nodes_total': nodes}


def suppress_subsumed(ctx, chk, rules):
    """Structural rules in `rules` report "could not establish X" for an encoding.  When the value-level comparison has
    *proved* that encoding equal to the reference in every component, such a report is a limitation of the structural
    matcher (an unrecognised but equivalent idiom), not a defect: it is turned into an informational note."""
    res = all_results(ctx)
    clean = set(osp.enc_name(e) for e, r in res.items() if not r.undecided and not r.findings)
    keep = []
    for v in chk.violations:
        name = v['key'].split(':')[0]
        if v['rule'] in rules and name in clean:
            chk.rules[v['rule']]['failures'] -= 1
            chk.info('%s %s: structural matcher could not establish the clause (%s) but the value-level comparison '
                     'proves this encoding equal to the reference; not reported' % (v['rule'], v['key'], v['what'][:120]))
        else:
            keep.append(v)
    chk.violations[:] = keep
