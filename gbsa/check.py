"""Entry point: python3 -m gbsa.check <property id> [--thorough] [--replay file]"""
import importlib, json, os, sys, traceback

from . import facts as factsmod
from .report import Check, AnalysisError


class Ctx:
    def __init__(self, tier, repo=None, replay=None):
        self.tier = tier
        self.repo = repo
        self.replay = replay
        self._facts = {}
        self._prog = {}
        self._spec = {}

    def facts(self, cfg):
        if cfg not in self._facts:
            self._facts[cfg] = factsmod.load(cfg, self.repo, cold=(self.tier == 'thorough' and
                                                                   os.environ.get('GBSA_COLD', '1') == '1'))
        return self._facts[cfg]

    def program(self, cfg):
        from .program import Program
        if cfg not in self._prog:
            self._prog[cfg] = Program(self.facts(cfg))
        return self._prog[cfg]

    def opspec(self, cfg):
        from .opspec import OpSpec
        if cfg not in self._spec:
            self._spec[cfg] = OpSpec(self.facts(cfg))
        return self._spec[cfg]


def main(argv):
    if not argv:
        print('usage: check <Cxx|selftest> [--thorough] [--replay file]')
        return 2
    pid = argv[0]
    tier = 'thorough' if '--thorough' in argv else os.environ.get('VERIF_TIER', 'quick')
    if tier not in ('quick', 'thorough'):
        tier = 'quick'
    replay = None
    if '--replay' in argv:
        replay = json.load(open(argv[argv.index('--replay') + 1]))
    repo = os.environ.get('GBSA_REPO')
    if pid == 'selftest':
        from . import selftest
        return selftest.main(argv[1:])
    try:
        mod = importlib.import_module('gbsa.rules.' + pid.lower())
    except ImportError as e:
        print('ANALYSIS-ERROR property=%s no rule module (%s)' % (pid, e))
        return 2
    ctx = Ctx(tier, repo, replay)
    chk = Check(pid, tier)
    st_rc = 0
    if tier == 'thorough' and not repo and os.environ.get('GBSA_SELFTEST', '1') == '1':
        # thorough tier: facts are regenerated from scratch (cold) and the checker itself is validated in both
        # directions on scratch copies of the current tree (seeded changes and reverted fixes must be reported with a
        # VIOLATION line for this property, behaviour-preserving rewrites must pass) before the verdict is given
        from . import selftest
        st_rc = selftest.main([pid])
        chk.extra['checker_selftest'] = {k: v for k, v in (selftest.LAST or {}).items() if k != 'results'}
        chk.extra['checker_selftest']['cases_detail'] = [
            '%s %s -> %s' % (r['kind'], r['name'], r['status']) for r in (selftest.LAST or {}).get('results', [])]
    # a change to the code under analysis can make a rule's path enumeration explode (a device loop that used to be behind
    # an opaque wrapper): bound memory and time, and give "no verdict" (exit 2) instead of hanging or exhausting the host
    try:
        import resource
        import signal
        lim = int(os.environ.get('GBSA_MEM_LIMIT_GB', '12')) << 30
        resource.setrlimit(resource.RLIMIT_AS, (lim, resource.getrlimit(resource.RLIMIT_AS)[1]))      # soft limit only

        def _alarm(signum, frame):
            raise AnalysisError('analysis exceeded its time limit of %s s (path explosion?)' % os.environ.get('GBSA_TIMEOUT', '1500'))
        signal.signal(signal.SIGALRM, _alarm)
        signal.alarm(int(os.environ.get('GBSA_TIMEOUT', '1500')))
    except (ImportError, ValueError, OSError):
        pass
    try:
        rc = mod.run(ctx, chk)
        if rc == 0 and st_rc:
            print('ANALYSIS-ERROR property=%s checker self-test failed (see above); verdict withheld' % pid)
            return 2
        return rc
    except (factsmod.AnalysisError, AnalysisError) as e:
        print('ANALYSIS-ERROR property=%s %s' % (pid, str(e)[:3000]))
        return 2
    except MemoryError:
        print('ANALYSIS-ERROR property=%s analysis exceeded its memory limit (path explosion?)' % pid)
        return 2
    except Exception:
        traceback.print_exc()
        print('ANALYSIS-ERROR property=%s internal error in checker' % pid)
        return 2


if __name__ == '__main__':
    sys.exit(main(sys.argv[1:]))
