"""Checker self-test (both directions), run on scratch copies of /repo's current working tree:

  seeded   /verif/seeded/<name>/patch.diff (meta.json: caught_by) - a behaviour-breaking change: every check named in
           caught_by must exit 1 and print a VIOLATION line for one of the named rules;
  reverted every "fixed" entry of known_findings.json: reverting the fix commit must make the property's check exit 1;
  benign   /verif/seeded/benign/*.diff - behaviour-preserving rewrites: the listed checks must exit 0.

usage: python3 -m gbsa.check selftest [Cxx ...]      (no ids = all properties)
Exit 0 when every expectation is met, 2 otherwise (a failed self-test says the *checker* is wrong: ANALYSIS-ERROR).
Scratch copies live under /tmp only while one case runs.
"""
import json, os, re, shutil, subprocess, sys, tempfile, time

VERIF = os.path.dirname(os.path.dirname(os.path.abspath(__file__)))
REPO = '/repo'


def scratch(apply_fn):
    d = tempfile.mkdtemp(prefix='gbsa-selftest.', dir='/tmp')
    repo = os.path.join(d, 'repo')
    os.makedirs(repo)
    files = subprocess.run(['git', '-C', REPO, 'ls-files', '-z'], capture_output=True).stdout.split(b'\0')
    for f in files:
        if not f:
            continue
        f = f.decode()
        src = os.path.join(REPO, f)
        if not os.path.exists(src):
            continue
        dst = os.path.join(repo, f)
        os.makedirs(os.path.dirname(dst), exist_ok=True)
        shutil.copy2(src, dst)
    shutil.copytree(os.path.join(REPO, '.git'), os.path.join(repo, '.git'))
    ok, why = apply_fn(repo)
    return d, repo, ok, why


def run_check(repo, pid, tag='scratch'):
    env = dict(os.environ, GBSA_REPO=repo, VERIF_TIER='quick', GBSA_EVIDENCE_DIR=os.path.join(os.path.dirname(repo), 'ev'),
               GBSA_REPLAY_DIR=os.path.join(os.path.dirname(repo), 'replay'), GBSA_TAG=tag)
    p = subprocess.run([sys.executable, '-m', 'gbsa.check', pid], cwd=VERIF, env=env, capture_output=True, text=True)
    return p.returncode, p.stdout + p.stderr


def apply_patch(path):
    def f(repo):
        p = subprocess.run(['git', '-C', repo, 'apply', path], capture_output=True, text=True)
        if p.returncode != 0:
            # later commits may have touched neighbouring lines: retry with one line of context
            p = subprocess.run(['git', '-C', repo, 'apply', '-C1', '--recount', path], capture_output=True, text=True)
        return p.returncode == 0, p.stderr.strip()
    return f


def revert_commit(commit):
    def f(repo):
        p = subprocess.run(['git', '-C', repo, '-c', 'user.email=x@x', '-c', 'user.name=x', 'revert', '--no-edit', '-n',
                            commit], capture_output=True, text=True)
        if p.returncode == 0:
            return True, ''
        why = (p.stderr.strip() or p.stdout.strip())[:200]
        subprocess.run(['git', '-C', repo, 'revert', '--abort'], capture_output=True)
        subprocess.run(['git', '-C', repo, 'checkout', '--', '.'], capture_output=True)
        # fall back to applying the commit's diff in reverse with one line of context
        d = subprocess.run(['git', '-C', repo, 'show', '--format=', commit], capture_output=True, text=True).stdout
        q = subprocess.run(['git', '-C', repo, 'apply', '-R', '-C1', '--recount', '-'], input=d, capture_output=True, text=True)
        return q.returncode == 0, why + ' / ' + q.stderr.strip()[:200]
    return f


def cases(props):
    out = []
    sd = os.path.join(VERIF, 'seeded')
    for name in sorted(os.listdir(sd)):
        mp = os.path.join(sd, name, 'meta.json')
        if not os.path.exists(mp):
            continue
        meta = json.load(open(mp))
        rules = meta.get('caught_by') or []
        by = {}
        for r in rules:
            by.setdefault(r.split('.')[0], []).append(r)
        for pid, rl in sorted(by.items()):
            if props and pid not in props:
                continue
            out.append({'kind': 'seeded', 'name': name, 'pid': pid, 'rules': rl, 'expect': 1,
                        'apply': apply_patch(os.path.join(sd, name, 'patch.diff'))})
    known = json.load(open(os.path.join(VERIF, 'known_findings.json')))
    for f in known.get('fixed', []):
        if props and f['property'] not in props:
            continue
        if not re.match(r'^[0-9a-f]{7,40}$', f.get('commit', '')):
            continue
        out.append({'kind': 'reverted', 'name': f['commit'], 'pid': f['property'], 'rules': [f['rule']], 'expect': 1,
                    'apply': revert_commit(f['commit'])})
    bd = os.path.join(sd, 'benign')
    if os.path.isdir(bd):
        for fn in sorted(os.listdir(bd)):
            if not fn.endswith('.diff'):
                continue
            mp = os.path.join(bd, fn[:-5] + '.json')
            bm_ = json.load(open(mp)) if os.path.exists(mp) else {}
            checks = bm_.get('checks', [])
            for pid in checks:
                if props and pid not in props:
                    continue
                # expect 0 (holds) - or 2 for the documented shapes the check declines to judge (never 1)
                out.append({'kind': 'benign', 'name': fn, 'pid': pid, 'rules': [],
                            'expect': bm_.get('expect_by_check', {}).get(pid, bm_.get('expect', 0)),
                            'apply': apply_patch(os.path.join(bd, fn))})
    return out


def main(argv, quiet=False):
    props = [a for a in argv if re.match(r'^C\d\d$', a)]
    cs = cases(props)
    kinds = [a for a in argv if a in ('seeded', 'reverted', 'benign')]
    if kinds:
        cs = [c for c in cs if c['kind'] in kinds]
    names = [a[5:] for a in argv if a.startswith('name=')]
    if names:
        cs = [c for c in cs if any(n in c['name'] for n in names)]
    # group cases by the scratch tree they need
    groups = {}
    for c in cs:
        groups.setdefault((c['kind'], c['name']), []).append(c)
    bad = 0
    t0 = time.time()
    results = []
    # the cases are independent (one scratch copy each): run several at a time, each worker with its own fact-cache
    # namespace so that the exports do not wait for each other
    import concurrent.futures, queue, threading
    jobs = max(1, min(int(os.environ.get('GBSA_SELFTEST_JOBS', '6')), len(groups) or 1))
    tags = queue.Queue()
    for i in range(jobs):
        tags.put('scratch' if i == 0 else 'scratch%d' % i)
    lock = threading.Lock()

    def one(item):
        (kind, name), lst = item
        tag = tags.get()
        lines, res, nbad = [], [], 0
        d = None
        try:
            d, repo, ok, why = scratch(lst[0]['apply'])
            if not ok:
                # a fix whose revert no longer applies cleanly (later commits touched the same lines) is skipped, loudly
                lines.append('[selftest] %-8s %-44s SKIPPED: does not apply to the current tree (%s)' % (kind, name, why[:80]))
                res.append({'kind': kind, 'name': name, 'status': 'skipped', 'why': why[:200]})
                return lines, res, nbad
            for c in lst:
                rc, out = run_check(repo, c['pid'], tag)
                hit = True
                if c['expect'] == 1 and c['rules']:
                    hit = any(re.search(r'rule=%s\b' % re.escape(r), out) for r in c['rules'])
                good = (rc == c['expect']) and hit and (('VIOLATION property=%s' % c['pid']) in out) == (c['expect'] == 1)
                status = 'ok' if good else 'FAILED'
                if not good:
                    nbad += 1
                lines.append('[selftest] %-8s %-44s %s expect exit %d%s -> exit %d %s'
                             % (kind, name[:44], c['pid'], c['expect'],
                                (' rule ' + '/'.join(c['rules'])) if c['rules'] else '', rc, status))
                if not good:
                    for ln in out.splitlines():
                        if 'rule=' in ln or 'ANALYSIS-ERROR' in ln or 'Traceback' in ln:
                            lines.append('            ' + ln[:240])
                res.append({'kind': kind, 'name': name, 'property': c['pid'], 'expect': c['expect'], 'exit': rc,
                            'status': status})
            return lines, res, nbad
        finally:
            if d:
                shutil.rmtree(d, ignore_errors=True)
            tags.put(tag)
    with concurrent.futures.ThreadPoolExecutor(max_workers=jobs) as ex:
        for lines, res, nbad in ex.map(one, sorted(groups.items())):
            with lock:
                for ln in lines:
                    print(ln)
                sys.stdout.flush()
                results.extend(res)
                bad += nbad
    print('[selftest] %d cases, %d failed, %.0fs' % (len(results), bad, time.time() - t0))
    os.makedirs(os.path.join(VERIF, '.cache'), exist_ok=True)
    with open(os.path.join(VERIF, '.cache', 'selftest-%s.json' % ('-'.join(props) or 'all')), 'w') as fh:
        json.dump(results, fh, indent=1)
    global LAST
    LAST = {'cases': len(results), 'failed': bad, 'skipped': len([r for r in results if r['status'] == 'skipped']),
            'results': results}
    if bad:
        print('ANALYSIS-ERROR checker self-test failed for %d case(s)' % bad)
        return 2
    return 0


LAST = None
