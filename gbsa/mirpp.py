"""Compact pretty-printer for exported MIR (debug aid and report text)."""
import json, sys


def place(p):
    s = '_%d' % p['local']
    for e in p['proj']:
        k = e['k']
        if k == 'deref':
            s = '(*%s)' % s
        elif k == 'field':
            s = '%s.%s' % (s, e['name'])
        elif k == 'index':
            s = '%s[_%d]' % (s, e['local'])
        elif k == 'cindex':
            s = '%s[%s%d]' % (s, '-' if e['from_end'] else '', e['offset'])
        elif k == 'downcast':
            s = '(%s as %s)' % (s, e['variant'])
        elif k == 'subslice':
            s = '%s[%d..%s%d]' % (s, e['from'], '-' if e['from_end'] else '', e['to'])
        else:
            s = '%s?%s' % (s, e.get('repr', k))
    return s


def operand(o):
    k = o['k']
    if k in ('copy', 'move'):
        return ('move ' if k == 'move' else '') + place(o['place'])
    if k == 'const':
        return 'const %s_%s' % (hex(o['val']) if o['val'] > 9 else o['val'], o['ty'])
    if k == 'fn':
        return 'fn ' + o['path']
    if k == 'constx':
        if 'bytes' in o:
            return 'constx %s bytes=%r' % (o['ty'], bytes(o['bytes'])[:40])
        return 'constx %s %s' % (o['ty'], o['repr'][:60])
    return '?' + o.get('repr', '')


def rvalue(r):
    k = r['k']
    if k == 'use':
        return operand(r['op'])
    if k == 'binop':
        return '%s(%s, %s)' % (r['op'], operand(r['a']), operand(r['b']))
    if k == 'unop':
        return '%s(%s)' % (r['op'], operand(r['a']))
    if k == 'cast':
        extra = ' fn=' + r['fn'] if r.get('fn') else ''
        return '%s as %s [%s%s]' % (operand(r['op']), r['to'], r['kind'], extra)
    if k == 'aggregate':
        kd = r['kind']
        if kd['k'] == 'adt':
            head = '%s::%s' % (kd['name'], kd['variant'])
        else:
            head = kd['k']
        return '%s(%s)' % (head, ', '.join(operand(o) for o in r['ops']))
    if k == 'ref':
        return '&%s%s' % ('mut ' if r['mut'] else '', place(r['place']))
    if k == 'rawptr':
        return '&raw %s' % place(r['place'])
    if k == 'discriminant':
        return 'discriminant(%s)' % place(r['place'])
    if k == 'repeat':
        return '[%s; %d]' % (operand(r['op']), r['count'])
    return '?' + r.get('repr', k)


def stmt(s):
    if s['k'] == 'assign':
        return '%s = %s' % (place(s['place']), rvalue(s['rv']))
    if s['k'] == 'setdiscr':
        return 'discriminant(%s) = %d' % (place(s['place']), s['vi'])
    return '?' + s.get('repr', '')


def term(t):
    k = t['k']
    if k == 'goto':
        return 'goto bb%d' % t['target']
    if k == 'switch':
        return 'switch %s [%s, else bb%d]' % (operand(t['discr']),
                                              ', '.join('%d:bb%d' % (v, b) for v, b in t['targets']), t['otherwise'])
    if k == 'call':
        nm = t['resolved'] or t['callee'] or operand(t['func'])
        extra = ''
        if t['ckind'] == 'virtual':
            extra = ' dyn{%s}' % ','.join(t['impls'])
        return '%s = %s(%s)%s -> bb%d' % (place(t['dest']), nm, ', '.join(operand(a) for a in t['args']), extra, t['target'])
    if k == 'assert':
        return 'assert(%s == %s, %s) -> bb%d' % (operand(t['cond']), t['expected'], t['akind'], t['target'])
    if k == 'drop':
        return 'drop(%s) -> bb%d' % (place(t['place']), t['target'])
    return k


def function(name, f, out=sys.stdout):
    out.write('fn %s  [%s] %s:%d\n' % (name, f['abi'], f['file'], f['line']))
    for i, l in enumerate(f['locals']):
        out.write('  let _%d: %s%s\n' % (i, l['ty'], ('  // ' + l['name']) if l['name'] else ''))
    for i, b in enumerate(f['blocks']):
        out.write('  bb%d%s:\n' % (i, ' (cleanup)' if b['cleanup'] else ''))
        for s in b['stmts']:
            out.write('    %s   // %d\n' % (stmt(s), s['line']))
        out.write('    %s   // %d\n' % (term(b['term']), b['term']['line']))


if __name__ == '__main__':
    facts = json.load(open(sys.argv[1]))
    for n in sys.argv[2:]:
        for name, f in facts['functions'].items():
            if name == n or name.endswith(n):
                function(name, f)
