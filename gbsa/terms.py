"""Term language and abstract values (intervals x known-bits) for gbsa.absint.

Terms are hash-consable tuples:
  ('c', bits, val)                 integer/bool constant (bits=1 for bool)
  ('s', bits, name, meta)          symbolic input; bits=0 for non-integer values
  ('o', bits, op, a, b, ...)       operation on terms
Non-integer values used by the interpreter:
  ('ref', root, path)              pointer to an abstract location
  ('slice', root, path, off, len)  fat pointer to a slice view (off/len are terms)
  ('fn', path)                     function item / pointer
  ('agg', kind, fields)            aggregate; kind = ('tuple',)|('array',)|('adt',name,vi,variant)
  ('snap', base, overrides)        partially known aggregate (base may be None)
  ('str', text)                    string literal
  ('unit',)
Abstract values: AV(bits, lo, hi, m0, m1): unsigned interval [lo,hi] and
known-bit masks (m0: bits known 0, m1: bits known 1).
"""

import re

_INT_RE = re.compile(r'^(u|i)(8|16|32|64|128|size)$')


def int_type(ty):
    """(bits, signed) for integer-like type strings, else None."""
    if ty == 'bool':
        return (1, False)
    if ty == 'char':
        return (32, False)
    m = _INT_RE.match(ty)
    if not m:
        return None
    b = m.group(2)
    bits = 64 if b == 'size' else int(b)
    return (bits, m.group(1) == 'i')


def mask(bits):
    return (1 << bits) - 1


def C(bits, val):
    return ('c', bits, val & mask(bits))


TRUE = ('c', 1, 1)
FALSE = ('c', 1, 0)
UNIT = ('unit',)


def S(bits, name, meta=None):
    return ('s', bits, name, meta)


def is_const(t):
    return t[0] == 'c'


def is_int(t):
    return t[0] in ('c', 's', 'o') and t[1] > 0


def bits_of(t):
    return t[1] if t[0] in ('c', 's', 'o') else 0


def to_signed(v, bits):
    return v - (1 << bits) if v >> (bits - 1) else v


# ---------------------------------------------------------------------------
# term construction with local simplification


def O(bits, op, *args):
    """Build an operation term, folding constants and a few identities."""
    m = mask(bits) if bits else 0
    if all(a[0] == 'c' for a in args):
        v = _fold(bits, op, args)
        if v is not None:
            return C(bits, v)
    a = args[0]
    b = args[1] if len(args) > 1 else None
    if op in ('and', 'or', 'xor', 'add', 'mul') and a[0] == 'c' and b is not None and b[0] != 'c':
        a, b = b, a  # constants to the right
        args = (a, b)
    if op in ('urem', 'udiv') and b is not None and b[0] == 'c' and b[2] and b[2] & (b[2] - 1) == 0:
        # division by a power of two: the same value as a mask / shift (one canonical spelling)
        k = b[2].bit_length() - 1
        if op == 'urem':
            return O(bits, 'and', a, C(bits, b[2] - 1))
        return a if k == 0 else O(bits, 'shr', a, C(bits, k))
    if op == 'and':
        if b[0] == 'c':
            if b[2] == 0:
                return C(bits, 0)
            if b[2] == m:
                return a
            if a[0] == 'o' and a[2] == 'and' and a[4][0] == 'c':
                return O(bits, 'and', a[3], C(bits, a[4][2] & b[2]))
            if a[0] == 'o' and a[2] == 'zext':
                inner = a[3]
                ib = inner[1]
                if b[2] & mask(ib) == mask(ib):
                    return a
        if a == b:
            return a
    elif op == 'or':
        if b[0] == 'c':
            if b[2] == 0:
                return a
            if b[2] == m:
                return C(bits, m)
            if a[0] == 'o' and a[2] == 'or' and a[4][0] == 'c':
                return O(bits, 'or', a[3], C(bits, a[4][2] | b[2]))
        if a == b:
            return a
    elif op == 'xor':
        if b[0] == 'c' and b[2] == 0:
            return a
        if a == b:
            return C(bits, 0)
    elif op in ('add', 'sub'):
        if b[0] == 'c' and b[2] == 0:
            return a
        if op == 'sub' and a == b:
            return C(bits, 0)
        # (x + c1) + c2, (x + c1) - c2 ...
        if b[0] == 'c' and a[0] == 'o' and a[2] in ('add', 'sub') and a[4][0] == 'c':
            c1 = a[4][2] if a[2] == 'add' else -a[4][2]
            c2 = b[2] if op == 'add' else -b[2]
            tot = c1 + c2
            if tot & m == 0:
                return a[3]
            if tot < 0:
                return ('o', bits, 'sub', a[3], C(bits, -tot))
            return ('o', bits, 'add', a[3], C(bits, tot))
    elif op in ('shl', 'shr', 'sar'):
        if b[0] == 'c' and b[2] == 0:
            return a
    elif op == 'mul':
        if b[0] == 'c':
            if b[2] == 1:
                return a
            if b[2] == 0:
                return C(bits, 0)
    elif op in ('zext', 'sext'):
        if a[1] == bits:
            return a
        if op == 'zext' and a[0] == 'o' and a[2] == 'zext':
            return O(bits, 'zext', a[3])
    elif op == 'trunc':
        if a[1] == bits:
            return a
        if a[0] == 'o' and a[2] in ('zext', 'sext'):
            inner = a[3]
            if inner[1] == bits:
                return inner
            if inner[1] > bits:
                return O(bits, 'trunc', inner)
            return O(bits, a[2], inner)
        if a[0] == 'o' and a[2] == 'trunc':
            return O(bits, 'trunc', a[3])
        if a[0] == 'o' and a[2] == 'and' and a[4][0] == 'c' and (a[4][2] & m) == m:
            return O(bits, 'trunc', a[3])
        # truncation commutes with modular / bitwise operations: push it inward (normal form)
        if a[0] == 'o' and a[2] in ('add', 'sub', 'mul', 'and', 'or', 'xor') and len(a) == 5:
            return O(bits, a[2], O(bits, 'trunc', a[3]), O(bits, 'trunc', a[4]))
        if a[0] == 'o' and a[2] == 'not':
            return O(bits, 'not', O(bits, 'trunc', a[3]))
        if a[0] == 'o' and a[2] == 'shl' and a[4][0] == 'c' and a[4][2] < bits:
            return O(bits, 'shl', O(bits, 'trunc', a[3]), C(bits, a[4][2]))
    elif op == 'not':
        if a[0] == 'o' and a[2] == 'not':
            return a[3]
        if bits == 1 and a[0] == 'o':
            inv = {'eq': 'ne', 'ne': 'eq', 'ult': 'uge', 'uge': 'ult', 'ugt': 'ule', 'ule': 'ugt',
                   'slt': 'sge', 'sge': 'slt', 'sgt': 'sle', 'sle': 'sgt'}
            if a[2] in inv:
                return ('o', 1, inv[a[2]]) + a[3:]
    elif op in ('eq', 'ne'):
        if a == b:
            return TRUE if op == 'eq' else FALSE
        if a[0] == 'c' and b[0] != 'c':
            args = (b, a)
    return ('o', bits, op) + tuple(args)


def _fold(bits, op, args):
    m = mask(bits) if bits else 0
    a = args[0][2]
    ab = args[0][1]
    b = args[1][2] if len(args) > 1 else None
    if op == 'add':
        return (a + b) & m
    if op == 'sub':
        return (a - b) & m
    if op == 'mul':
        return (a * b) & m
    if op == 'and':
        return a & b
    if op == 'or':
        return a | b
    if op == 'xor':
        return a ^ b
    if op == 'not':
        return (~a) & m
    if op == 'neg':
        return (-a) & m
    if op == 'shl':
        return (a << (b % bits)) & m
    if op == 'shr':
        return a >> (b % bits)
    if op == 'sar':
        return (to_signed(a, bits) >> (b % bits)) & m
    if op == 'udiv':
        return a // b if b else None
    if op == 'urem':
        return a % b if b else None
    if op == 'zext':
        return a
    if op == 'sext':
        return to_signed(a, ab) & m
    if op == 'trunc':
        return a & m
    if op == 'eq':
        return int(a == b)
    if op == 'ne':
        return int(a != b)
    if op == 'ult':
        return int(a < b)
    if op == 'ule':
        return int(a <= b)
    if op == 'ugt':
        return int(a > b)
    if op == 'uge':
        return int(a >= b)
    if op in ('slt', 'sle', 'sgt', 'sge'):
        sa, sb = to_signed(a, ab), to_signed(b, ab)
        return int({'slt': sa < sb, 'sle': sa <= sb, 'sgt': sa > sb, 'sge': sa >= sb}[op])
    if op == 'add_ovf':
        return int(a + b > mask(ab))
    if op == 'sub_ovf':
        return int(a < b)
    if op == 'mul_ovf':
        return int(a * b > mask(ab))
    if op in ('sadd_ovf', 'ssub_ovf', 'smul_ovf'):
        sa, sb = to_signed(a, ab), to_signed(b, ab)
        r = {'sadd_ovf': sa + sb, 'ssub_ovf': sa - sb, 'smul_ovf': sa * sb}[op]
        return int(not (-(1 << (ab - 1)) <= r < (1 << (ab - 1))))
    if op == 'umin':
        return min(a, b)
    if op == 'umax':
        return max(a, b)
    return None


# ---------------------------------------------------------------------------
# abstract values


class AV:
    __slots__ = ('bits', 'lo', 'hi', 'm0', 'm1')

    def __init__(self, bits, lo=0, hi=None, m0=0, m1=0):
        self.bits = bits
        self.lo = lo
        self.hi = mask(bits) if hi is None else hi
        self.m0 = m0
        self.m1 = m1

    @staticmethod
    def const(bits, v):
        m = mask(bits)
        return AV(bits, v, v, (~v) & m, v)

    @staticmethod
    def top(bits):
        return AV(bits)

    def reduce(self):
        """Mutual refinement of interval and known bits. Returns None when empty."""
        m = mask(self.bits)
        if self.m0 & self.m1:
            return None
        lo = max(self.lo, self.m1)
        hi = min(self.hi, (~self.m0) & m)
        if lo > hi:
            return None
        # common leading bits of lo and hi are known
        diff = lo ^ hi
        if diff == 0:
            known = m
        else:
            known = m & ~((1 << diff.bit_length()) - 1)
        m1 = self.m1 | (lo & known)
        m0 = self.m0 | ((~lo) & known & m)
        if m0 & m1:
            return None
        # tighten lo upward / hi downward to the nearest values satisfying the masks
        lo2 = _min_ge(lo, m0, m1, self.bits)
        hi2 = _max_le(hi, m0, m1, self.bits)
        if lo2 is None or hi2 is None or lo2 > hi2:
            return None
        if lo2 != lo or hi2 != hi:
            return AV(self.bits, lo2, hi2, m0, m1).reduce()
        return AV(self.bits, lo2, hi2, m0, m1)

    def meet(self, other):
        a = AV(self.bits, max(self.lo, other.lo), min(self.hi, other.hi), self.m0 | other.m0, self.m1 | other.m1)
        return a.reduce()

    def join(self, other):
        return AV(self.bits, min(self.lo, other.lo), max(self.hi, other.hi), self.m0 & other.m0, self.m1 & other.m1)

    def is_const(self):
        return self.lo == self.hi

    def contains(self, v):
        return self.lo <= v <= self.hi and not (v & self.m0) and (v & self.m1) == self.m1

    def __repr__(self):
        return 'AV(u%d,[%#x,%#x],m0=%#x,m1=%#x)' % (self.bits, self.lo, self.hi, self.m0, self.m1)

    def key(self):
        return (self.bits, self.lo, self.hi, self.m0, self.m1)


def _min_ge(lo, m0, m1, bits):
    """smallest v >= lo with v & m0 == 0 and v & m1 == m1 (None if none below 2^bits)"""
    if not (lo & m0) and (lo & m1) == m1:
        return lo
    for i in range(bits):
        if not (lo >> i) & 1 and not (m0 >> i) & 1:
            pre = (lo >> (i + 1)) << (i + 1)
            him1 = m1 & ~mask(i + 1)
            if not (pre & m0) and (pre & him1) == him1:
                return pre | (1 << i) | (m1 & mask(i))
    return None


def _max_le(hi, m0, m1, bits):
    """largest v <= hi with v & m0 == 0 and v & m1 == m1"""
    if not (hi & m0) and (hi & m1) == m1:
        return hi
    for i in range(bits):
        if (hi >> i) & 1 and not (m1 >> i) & 1:
            pre = (hi >> (i + 1)) << (i + 1)
            him1 = m1 & ~mask(i + 1)
            if not (pre & m0) and (pre & him1) == him1:
                return pre | (mask(i) & ~m0)
    return None


def _trailing_known(av):
    """number of low bits that are fully known"""
    k = av.m0 | av.m1
    n = 0
    while n < av.bits and (k >> n) & 1:
        n += 1
    return n


def _low_zero(av):
    """number of low bits known to be zero"""
    n = 0
    while n < av.bits and (av.m0 >> n) & 1:
        n += 1
    return n


def av_binop(bits, op, A, B):
    m = mask(bits)
    if op in ('add', 'sub'):
        # low bits pass through unchanged when the other operand's low bits are zero
        r = av_binop_core(bits, op, A, B)
        kb = _low_zero(B)
        if kb:
            r.m0 |= A.m0 & mask(kb)
            r.m1 |= A.m1 & mask(kb)
        if op == 'add':
            ka = _low_zero(A)
            if ka:
                r.m0 |= B.m0 & mask(ka)
                r.m1 |= B.m1 & mask(ka)
        return r
    return av_binop_core(bits, op, A, B)


def av_binop_core(bits, op, A, B):
    m = mask(bits)
    if op == 'add':
        r = AV(bits)
        if A.hi + B.hi <= m:
            r.lo, r.hi = A.lo + B.lo, A.hi + B.hi
        n = min(_trailing_known(A), _trailing_known(B))
        if n:
            low = ((A.m1 & mask(n)) + (B.m1 & mask(n))) & mask(n)
            r.m1 |= low
            r.m0 |= (~low) & mask(n)
        return r
    if op == 'sub':
        r = AV(bits)
        if A.lo >= B.hi:
            r.lo, r.hi = A.lo - B.hi, A.hi - B.lo
        n = min(_trailing_known(A), _trailing_known(B))
        if n:
            low = ((A.m1 & mask(n)) - (B.m1 & mask(n))) & mask(n)
            r.m1 |= low
            r.m0 |= (~low) & mask(n)
        return r
    if op == 'mul':
        r = AV(bits)
        if A.hi * B.hi <= m:
            r.lo, r.hi = A.lo * B.lo, A.hi * B.hi
        # trailing zeros add up
        tz = 0
        for X in (A, B):
            n = 0
            while n < bits and (X.m0 >> n) & 1:
                n += 1
            tz += n
        tz = min(tz, bits)
        r.m0 |= mask(tz)
        return r
    if op == 'and':
        r = AV(bits, 0, min(A.hi, B.hi), (A.m0 | B.m0) & m, A.m1 & B.m1)
        # x & (2^k - 1) when x stays inside one 2^k-aligned block: the interval carries over
        for X, Y in ((A, B), (B, A)):
            if Y.is_const():
                c = Y.lo
                if c and (c & (c + 1)) == 0 and (X.lo & ~c) == (X.hi & ~c):
                    r.lo, r.hi = X.lo & c, X.hi & c
        return r
    if op == 'or':
        return AV(bits, max(A.lo, B.lo), m, A.m0 & B.m0, (A.m1 | B.m1) & m)
    if op == 'xor':
        k0 = (A.m0 & B.m0) | (A.m1 & B.m1)
        k1 = (A.m0 & B.m1) | (A.m1 & B.m0)
        return AV(bits, 0, m, k0 & m, k1 & m)
    if op in ('shl', 'shr', 'sar'):
        if B.is_const():
            s = B.lo % bits
            if op == 'shl':
                r = AV(bits, 0, m, ((A.m0 << s) | mask(s)) & m, (A.m1 << s) & m)
                if (A.hi << s) <= m:
                    r.lo, r.hi = A.lo << s, A.hi << s
                return r
            if op == 'shr':
                hi_known0 = m & ~(m >> s)
                return AV(bits, A.lo >> s, A.hi >> s, ((A.m0 >> s) | hi_known0) & m, A.m1 >> s)
            # sar: only when sign bit known 0
            if (A.m0 >> (bits - 1)) & 1:
                hi_known0 = m & ~(m >> s)
                return AV(bits, A.lo >> s, A.hi >> s, ((A.m0 >> s) | hi_known0) & m, A.m1 >> s)
        return AV(bits)
    if op == 'udiv':
        if B.lo > 0:
            return AV(bits, A.lo // B.hi, A.hi // B.lo)
        return AV(bits)
    if op == 'urem':
        if B.lo > 0:
            return AV(bits, 0, min(A.hi, B.hi - 1))
        return AV(bits)
    if op == 'umin':
        return AV(bits, min(A.lo, B.lo), min(A.hi, B.hi))
    if op == 'umax':
        return AV(bits, max(A.lo, B.lo), max(A.hi, B.hi))
    return AV(bits)


def av_cmp(op, A, B):
    """Result AV (1 bit) of comparison op on AVs of equal width."""
    t, f = AV.const(1, 1), AV.const(1, 0)
    if op in ('eq', 'ne'):
        if A.is_const() and B.is_const() and A.lo == B.lo:
            return t if op == 'eq' else f
        disjoint = A.hi < B.lo or B.hi < A.lo or (A.m1 & B.m0) or (A.m0 & B.m1)
        if disjoint:
            return f if op == 'eq' else t
        return AV(1)
    if op == 'ult':
        if A.hi < B.lo:
            return t
        if A.lo >= B.hi:
            return f
    elif op == 'ule':
        if A.hi <= B.lo:
            return t
        if A.lo > B.hi:
            return f
    elif op == 'ugt':
        if A.lo > B.hi:
            return t
        if A.hi <= B.lo:
            return f
    elif op == 'uge':
        if A.lo >= B.hi:
            return t
        if A.hi < B.lo:
            return f
    elif op in ('slt', 'sle', 'sgt', 'sge'):
        bits = A.bits
        sign = 1 << (bits - 1)
        # only decide when both signs are known
        def srange(X):
            if X.hi < sign:
                return (X.lo, X.hi)
            if X.lo >= sign:
                return (X.lo - (1 << bits), X.hi - (1 << bits))
            return None
        ra, rb = srange(A), srange(B)
        if ra and rb:
            uop = {'slt': 'ult', 'sle': 'ule', 'sgt': 'ugt', 'sge': 'uge'}[op]
            off = 1 << bits
            return av_cmp(uop, AV(bits + 1, ra[0] + off, ra[1] + off), AV(bits + 1, rb[0] + off, rb[1] + off))
    return AV(1)


class Env:
    """Path environment: refinements of arbitrary terms + symbol facts."""

    def __init__(self, sym_facts=None, parent=None):
        self.ref = dict(parent.ref) if parent else {}
        self.excl = dict(parent.excl) if parent else {}
        self.rel = set(parent.rel) if parent else set()     # known order facts ('lt'|'le', a, b) between terms
        self.sym_facts = sym_facts if sym_facts else (parent.sym_facts if parent else None)
        self.log = list(parent.log) if parent else []        # exact record of the assumptions made: ('eq'|'ne', t, v)
        self.cache = {}

    def copy(self):
        return Env(parent=self)

    # -- evaluation ---------------------------------------------------------
    def av(self, t):
        c = self.cache.get(t)
        if c is not None:
            return c
        r = self._av(t)
        self.cache[t] = r
        return r

    def _av(self, t):
        k = t[0]
        bits = t[1]
        if k == 'c':
            return AV.const(bits, t[2])
        base = None
        if k == 's':
            base = AV(bits)
            if self.sym_facts:
                f = self.sym_facts(t)
                if f is not None:
                    base = f
        else:
            base = self._av_op(t)
        r = self.ref.get(t)
        if r is not None:
            mm = base.meet(r)
            base = mm if mm is not None else r
        red = base.reduce()
        return red if red is not None else base

    def _av_op(self, t):
        bits, op = t[1], t[2]
        args = t[3:]
        if op in ('eq', 'ne', 'ult', 'ule', 'ugt', 'uge', 'slt', 'sle', 'sgt', 'sge'):
            r = av_cmp(op, self.av(args[0]), self.av(args[1]))
            if not r.is_const() and self.rel and op in ('ult', 'ule', 'ugt', 'uge', 'eq', 'ne'):
                r3 = self._cmp_rel(op, args[0], args[1])
                if r3 is not None:
                    return r3
            if not r.is_const() and op in ('ult', 'ule', 'ugt', 'uge', 'eq', 'ne') and args[0][0] != 'c' and args[1][0] != 'c':
                r2 = self._cmp_affine(op, args[0], args[1])
                if r2 is not None:
                    return r2
            return r
        if op == 'zext':
            A = self.av(args[0])
            return AV(bits, A.lo, A.hi, A.m0 | (mask(bits) & ~mask(A.bits)), A.m1)
        if op == 'sext':
            A = self.av(args[0])
            sb = 1 << (A.bits - 1)
            if A.m0 & sb:
                return AV(bits, A.lo, A.hi, A.m0 | (mask(bits) & ~mask(A.bits)), A.m1)
            if A.m1 & sb:
                ext = mask(bits) & ~mask(A.bits)
                return AV(bits, A.lo | ext, A.hi | ext, A.m0, A.m1 | ext)
            return AV(bits, 0, mask(bits), A.m0 & mask(A.bits - 1), A.m1 & mask(A.bits - 1))
        if op == 'trunc':
            A = self.av(args[0])
            m = mask(bits)
            r = AV(bits, 0, m, A.m0 & m, A.m1 & m)
            if A.hi <= m:
                r.lo, r.hi = A.lo, A.hi
            return r
        if op == 'not':
            A = self.av(args[0])
            m = mask(bits)
            return AV(bits, m - A.hi, m - A.lo, A.m1, A.m0)
        if op == 'neg':
            return AV(bits)
        if op == 'add_ovf':
            A, B = self.av(args[0]), self.av(args[1])
            m = mask(A.bits)
            if A.hi + B.hi <= m:
                return AV.const(1, 0)
            if A.lo + B.lo > m:
                return AV.const(1, 1)
            return AV(1)
        if op == 'sub_ovf':
            A, B = self.av(args[0]), self.av(args[1])
            if A.lo >= B.hi:
                return AV.const(1, 0)
            if A.hi < B.lo:
                return AV.const(1, 1)
            return AV(1)
        if op == 'mul_ovf':
            A, B = self.av(args[0]), self.av(args[1])
            m = mask(A.bits)
            if A.hi * B.hi <= m:
                return AV.const(1, 0)
            if A.lo * B.lo > m:
                return AV.const(1, 1)
            return AV(1)
        if op in ('sadd_ovf', 'smul_ovf'):
            A, B = self.av(args[0]), self.av(args[1])
            lim = 1 << (A.bits - 1)
            if A.hi < lim and B.hi < lim:
                r = A.hi + B.hi if op == 'sadd_ovf' else A.hi * B.hi
                if r < lim:
                    return AV.const(1, 0)
            return AV(1)
        if op == 'ssub_ovf':
            A, B = self.av(args[0]), self.av(args[1])
            lim = 1 << (A.bits - 1)
            if A.hi < lim and B.hi < lim:
                return AV.const(1, 0)
            return AV(1)
        if len(args) == 2 and args[0][1] == bits and args[1][1] > 0:
            return av_binop(bits, op, self.av(args[0]), self.av(args[1]))
        return AV(bits) if bits else AV(1)

    def _cmp_rel(self, op, a, b):
        """decide a comparison from recorded order facts between the same two terms"""
        t, f = AV.const(1, 1), AV.const(1, 0)
        lt_ab = ('lt', a, b) in self.rel
        le_ab = lt_ab or ('le', a, b) in self.rel
        lt_ba = ('lt', b, a) in self.rel
        le_ba = lt_ba or ('le', b, a) in self.rel
        if op == 'ult':
            return t if lt_ab else (f if le_ba else None)
        if op == 'ule':
            return t if le_ab else (f if lt_ba else None)
        if op == 'ugt':
            return t if lt_ba else (f if le_ab else None)
        if op == 'uge':
            return t if le_ba else (f if lt_ab else None)
        if op == 'eq':
            return f if (lt_ab or lt_ba) else (t if (le_ab and le_ba) else None)
        if op == 'ne':
            return t if (lt_ab or lt_ba) else (f if (le_ab and le_ba) else None)
        return None

    def _cmp_affine(self, op, a, b):
        """relational comparison through the affine difference b - a (both operands far from wrapping)"""
        from .affine import aff, _signed, _range
        w = a[1]
        if w < 8 or b[1] != w:
            return None
        A, B = self.av(a), self.av(b)
        half = 1 << (w - 1)
        if A.hi >= half or B.hi >= half:
            return None
        fa, fb = aff(a, self), aff(b, self)
        co = dict(fb[0])
        for k, v in fa[0].items():
            co[k] = co.get(k, 0) - v
        m = mask(w)
        co = {k: v & m for k, v in co.items() if v & m}
        c = (fb[1] - fa[1]) & m
        sco, sc = _signed(co, c, w)
        if any(abs(v) > (1 << 40) for v in sco.values()):
            return None
        lo, hi = _range(sco, sc, self)
        if not (-half < lo and hi < half):
            return None
        # D = b - a lies in [lo, hi]
        t, f = AV.const(1, 1), AV.const(1, 0)
        if op == 'ule':
            return t if lo >= 0 else (f if hi < 0 else None)
        if op == 'ult':
            return t if lo > 0 else (f if hi <= 0 else None)
        if op == 'uge':
            return t if hi <= 0 else (f if lo > 0 else None)
        if op == 'ugt':
            return t if hi < 0 else (f if lo >= 0 else None)
        if op == 'eq':
            return f if (lo > 0 or hi < 0) else (t if lo == hi == 0 else None)
        if op == 'ne':
            return t if (lo > 0 or hi < 0) else (f if lo == hi == 0 else None)
        return None

    def const_of(self, t):
        if t[0] == 'c':
            return t[2]
        if not is_int(t):
            return None
        a = self.av(t)
        return a.lo if a.is_const() else None

    # -- refinement ---------------------------------------------------------
    def assume(self, t, av):
        """Constrain term t to abstract value av; returns False when infeasible."""
        cur = self.av(t)
        new = cur.meet(av)
        if new is None:
            return False
        if new.key() == cur.key():
            return True
        if t[0] == 'c':
            return True
        self.ref[t] = new
        self.cache = {}
        return self._propagate(t, new)

    def assume_eq(self, t, v):
        self.log.append(('eq', t, v))
        if v in self.excl.get(t, ()):
            return False
        return self.assume(t, AV.const(t[1], v))

    def consistent(self):
        """re-check every recorded refinement of a compound term against the value recomputed from its operands
        (assumptions added later may contradict an earlier branch decision)"""
        self.cache = {}
        for t, r in list(self.ref.items()):
            if t[0] != 'o':
                continue
            base = self._av_op(t)
            if base.meet(r) is None:
                return False
        for t, ex in self.excl.items():
            a = self.av(t)
            if a.is_const() and a.lo in ex:
                return False
        return True

    def possible(self, t, v):
        """may term t take value v on this path?"""
        if v in self.excl.get(t, ()):
            return False
        return self.av(t).contains(v)

    def assume_ne(self, t, v):
        self.log.append(('ne', t, v))
        cur = self.av(t)
        if cur.is_const():
            return cur.lo != v
        if t[0] != 'c':
            self.excl[t] = frozenset(self.excl.get(t, frozenset()) | {v})
        if cur.lo == v:
            return self.assume(t, AV(t[1], v + 1, cur.hi))
        if cur.hi == v:
            return self.assume(t, AV(t[1], cur.lo, v - 1))
        # remember single excluded value for booleans / tiny ranges only
        if t[0] == 'o' and t[2] == 'and' and t[4][0] == 'c' and v == 0:
            c = t[4][2]
            if c & (c - 1) == 0:
                return self.assume(t, AV.const(t[1], c))
        return True

    def _propagate(self, t, av):
        if t[0] != 'o':
            return True
        op = t[2]
        args = t[3:]
        if op == 'zext':
            inner = args[0]
            if av.hi <= mask(inner[1]):
                return self.assume(inner, AV(inner[1], av.lo, av.hi, av.m0 & mask(inner[1]), av.m1))
            return True
        if op == 'trunc':
            inner = args[0]
            return self.assume(inner, AV(inner[1], 0, mask(inner[1]), av.m0, av.m1))
        if op == 'not' and t[1] == 1 and av.is_const():
            return self.assume_eq(args[0], 1 - av.lo)
        if op == 'and' and args[1][0] == 'c':
            c = args[1][2]
            x = args[0]
            # bits of x selected by c are those of the result
            return self.assume(x, AV(x[1], 0, mask(x[1]), av.m0 & c, av.m1 & c))
        if op == 'or' and args[1][0] == 'c':
            c = args[1][2]
            x = args[0]
            return self.assume(x, AV(x[1], 0, mask(x[1]), av.m0 & ~c & mask(x[1]), av.m1 & ~c))
        if op == 'shr' and args[1][0] == 'c' and av.lo <= av.hi:
            c = args[1][2] % t[1]
            x = args[0]
            mx = mask(x[1])
            return self.assume(x, AV(x[1], min(av.lo << c, mx), min((av.hi << c) | mask(c), mx)))
        if op == 'udiv' and args[1][0] == 'c' and args[1][2] and av.lo <= av.hi:
            c = args[1][2]
            x = args[0]
            mx = mask(x[1])
            return self.assume(x, AV(x[1], min(av.lo * c, mx), min(av.hi * c + c - 1, mx)))
        if op in ('add_ovf', 'sub_ovf') and args[1][0] == 'c' and av.is_const():
            c = args[1][2]
            x = args[0]
            mx = mask(x[1])
            if op == 'add_ovf':
                # x + c overflows  <=>  x > mask - c
                return self.assume(x, AV(x[1], mx - c + 1, mx)) if av.lo else (self.assume(x, AV(x[1], 0, mx - c)) if c <= mx else False)
            return self.assume(x, AV(x[1], 0, c - 1)) if av.lo else self.assume(x, AV(x[1], c, mx))
        if op in ('add', 'sub') and args[1][0] == 'c' and av.lo <= av.hi:
            c = args[1][2]
            x = args[0]
            X = self.av(x)
            m = mask(t[1])
            if op == 'add' and X.hi + c <= m and av.lo >= c:
                return self.assume(x, AV(x[1], av.lo - c, av.hi - c))
            if op == 'sub' and X.lo >= c and av.hi + c <= m:
                return self.assume(x, AV(x[1], av.lo + c, av.hi + c))
            return True
        if t[1] == 1 and av.is_const() and op in ('ult', 'ule', 'ugt', 'uge') and args[0][0] != 'c' and args[1][0] != 'c':
            a0, b0 = args
            o2 = op
            if av.lo == 0:
                o2 = {'ult': 'uge', 'ule': 'ugt', 'ugt': 'ule', 'uge': 'ult'}[op]
            if o2 in ('ugt', 'uge'):
                a0, b0 = b0, a0
                o2 = 'ult' if o2 == 'ugt' else 'ule'
            self.rel.add(('lt' if o2 == 'ult' else 'le', a0, b0))
        if t[1] == 1 and av.is_const() and op in ('eq', 'ne', 'ult', 'ule', 'ugt', 'uge'):
            a, b = args
            val = av.lo
            if op in ('eq', 'ne'):
                is_eq = (op == 'eq') == (val == 1)
                A, B = self.av(a), self.av(b)
                if is_eq:
                    return self.assume(a, B) and self.assume(b, self.av(a))
                if B.is_const():
                    return self.assume_ne(a, B.lo)
                if A.is_const():
                    return self.assume_ne(b, A.lo)
                return True
            # normalise to a < b or a <= b being true
            if val == 0:
                op = {'ult': 'uge', 'ule': 'ugt', 'ugt': 'ule', 'uge': 'ult'}[op]
            if op in ('ugt', 'uge'):
                a, b = b, a
                op = 'ult' if op == 'ugt' else 'ule'
            A, B = self.av(a), self.av(b)
            d = 1 if op == 'ult' else 0
            if B.hi - d < 0 or A.lo + d > mask(b[1]):
                return False
            ok = self.assume(a, AV(a[1], 0, B.hi - d))
            A = self.av(a)
            ok = ok and self.assume(b, AV(b[1], A.lo + d, mask(b[1])))
            return ok
        return True


# ---------------------------------------------------------------------------
# per-bit provenance of a term (for flag-class extraction)


def bit_provenance(t, env, depth=0):
    """List (LSB first) of per-bit descriptors: 0, 1, ('in', sym, bit) or None (unknown).
    Structural provenance is preferred ("this bit is bit i of input symbol s", even if the path
    condition happens to fix its value); known bits of the abstract value fill the remaining gaps."""
    bits = t[1]
    out = [None] * bits
    if t[0] == 'c':
        return [(t[2] >> i) & 1 for i in range(bits)]
    if t[0] == 's':
        res = [('in', t, i) for i in range(bits)]
        f = env.sym_facts(t) if env.sym_facts else None
        if f is not None:
            # bits fixed by an invariant of the symbol itself (not by the path condition)
            for i in range(bits):
                if (f.m0 >> i) & 1:
                    res[i] = 0
                elif (f.m1 >> i) & 1:
                    res[i] = 1
        return res
    if t[0] == 'o' and depth <= 60:
        op = t[2]
        a = t[3:]
        if op in ('zext', 'trunc', 'sext'):
            src = bit_provenance(a[0], env, depth + 1)
            for i in range(bits):
                if i < len(src):
                    out[i] = src[i]
                elif op == 'zext':
                    out[i] = 0
                elif op == 'sext' and src and src[-1] in (0, 1):
                    out[i] = src[-1]
        elif op in ('and', 'or', 'xor'):
            pa = bit_provenance(a[0], env, depth + 1)
            pb = bit_provenance(a[1], env, depth + 1)
            for i in range(bits):
                x, y = pa[i], pb[i]
                if op == 'and':
                    if x == 0 or y == 0:
                        out[i] = 0
                    elif x == 1:
                        out[i] = y
                    elif y == 1:
                        out[i] = x
                    elif x is not None and x == y:
                        out[i] = x
                elif op == 'or':
                    if x == 1 or y == 1:
                        out[i] = 1
                    elif x == 0:
                        out[i] = y
                    elif y == 0:
                        out[i] = x
                    elif x is not None and x == y:
                        out[i] = x
                else:
                    if x == 0:
                        out[i] = y
                    elif y == 0:
                        out[i] = x
                    elif x in (0, 1) and y in (0, 1):
                        out[i] = x ^ y
        elif op in ('add', 'sub') and a[1][0] == 'c':
            c = a[1][2]
            k = 0
            while k < bits and not (c >> k) & 1:
                k += 1
            pa = bit_provenance(a[0], env, depth + 1)
            for i in range(min(k, bits)):
                out[i] = pa[i]
        elif op in ('shl', 'shr') and a[1][0] == 'c':
            s = a[1][2] % bits
            pa = bit_provenance(a[0], env, depth + 1)
            for i in range(bits):
                j = i - s if op == 'shl' else i + s
                if 0 <= j < bits:
                    out[i] = pa[j]
                else:
                    out[i] = 0
        elif op == 'not':
            pa = bit_provenance(a[0], env, depth + 1)
            for i in range(bits):
                if pa[i] in (0, 1):
                    out[i] = 1 - pa[i]
    if any(o is None for o in out):
        av = env.av(t)
        for i in range(bits):
            if out[i] is None:
                if (av.m0 >> i) & 1:
                    out[i] = 0
                elif (av.m1 >> i) & 1:
                    out[i] = 1
    return out


def fmt(t, depth=0):
    """Readable rendering of a term."""
    if t is None:
        return 'undef'
    k = t[0]
    if k == 'c':
        return hex(t[2]) if t[2] > 9 else str(t[2])
    if k == 's':
        return t[2]
    if k == 'o':
        if depth > 6:
            return '…'
        return '%s(%s)' % (t[2], ', '.join(fmt(x, depth + 1) for x in t[3:]))
    if k == 'ref':
        return '&%s%s' % (t[1], ''.join('.' + str(p) for p in t[2]))
    if k == 'slice':
        return 'slice(%s%s, off=%s, len=%s)' % (t[1], t[2], fmt(t[3]), fmt(t[4]))
    if k == 'fn':
        return 'fn:' + t[1]
    if k == 'agg':
        kind = t[1]
        head = kind[0] if kind[0] != 'adt' else '%s::%s' % (kind[1], kind[3])
        return '%s(%s)' % (head, ', '.join(fmt(x, depth + 1) for x in t[2]))
    if k == 'snap':
        return 'snap(%s)' % fmt(t[1])
    if k == 'hav':
        return 'hav(%s)' % t[3]
    if k == 'str':
        return repr(t[1])
    return str(t)
