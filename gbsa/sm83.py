"""SM83 (Game Boy CPU) reference tables, generated from the x/y/z structure of
the instruction set - independent of the repository's decoder.

For each of the 512 encodings (None, opcode) / (0xCB, opcode):
  mn        mnemonic class
  op        expected decoder output (variant name, [args]) in the repo's Op vocabulary;
            args are register/condition names, ints, or operand markers 'd8','e8','d16','a8'
  length    bytes
  cycles    (not-taken, taken) machine cycles (equal when unconditional)
  flags     'ZNHC' string over '-','0','1','*' ('*' = computed from the result / loaded)
  bus       ordered list of bus accesses: (kind 'r'|'w', width 8|16, address class, value class)
  term      True when the instruction ends a basic block (redirects control or changes halt / IME state)
  writes    set of 8/16-bit guest registers written (excluding F, IP)
"""

R8 = ['B', 'C', 'D', 'E', 'H', 'L', '(HL)', 'A']
RP = ['BC', 'DE', 'HL', 'SP']
RP2 = ['BC', 'DE', 'HL', 'AF']
CC = ['NonZero', 'Zero', 'NoCarry', 'Carry']
ALU = ['ADD', 'ADC', 'SUB', 'SBC', 'AND', 'XOR', 'OR', 'CP']
ROT = ['RLC', 'RRC', 'RL', 'RR', 'SLA', 'SRA', 'SWAP', 'SRL']
INVALID = [0xD3, 0xDB, 0xDD, 0xE3, 0xE4, 0xEB, 0xEC, 0xED, 0xF4, 0xFC, 0xFD]

ALU_REG = {'ADD': 'Add8', 'ADC': 'AddWithCarry8', 'SUB': 'Sub8', 'SBC': 'SubWithCarry8', 'AND': 'And8',
           'XOR': 'Xor8', 'OR': 'Or8'}
ALU_IND = {'ADD': 'AddIndirect', 'ADC': 'AddIndirectWithCarry', 'SUB': 'SubIndirect',
           'SBC': 'SubIndirectWithCarry', 'AND': 'AndIndirect', 'XOR': 'XorIndirect', 'OR': 'OrIndirect',
           'CP': 'CompareIndirect'}
ALU_IMM = {'ADD': 'AddAbsolute8', 'ADC': 'AddAbsoluteWithCarry8', 'SUB': 'SubAbsolute8',
           'SBC': 'SubAbsoluteWithCarry8', 'AND': 'AndAbsolute8', 'XOR': 'XorAbsolute8', 'OR': 'OrAbsolute8',
           'CP': 'CompareAbsolute8'}
ALU_FLAGS = {'ADD': '*0**', 'ADC': '*0**', 'SUB': '*1**', 'SBC': '*1**', 'AND': '*010', 'XOR': '*000',
             'OR': '*000', 'CP': '*1**'}
ROT_REG = {'RLC': 'RotateLeftCarry', 'RRC': 'RotateRightCarry', 'RL': 'RotateLeft', 'RR': 'RotateRight',
           'SLA': 'ShiftLeft', 'SRA': 'ShiftRight', 'SWAP': 'Swap', 'SRL': 'ShiftRightLogical'}


def _e(mn, op, length, cycles, flags='----', bus=(), term=False, writes=(), reads=()):
    if isinstance(cycles, int):
        cycles = (cycles, cycles)
    return {'mn': mn, 'op': op, 'length': length, 'cycles': cycles, 'flags': flags, 'bus': list(bus),
            'term': term, 'writes': set(writes), 'reads': set(reads)}


def _unprefixed(o):
    x, y, z = o >> 6, (o >> 3) & 7, o & 7
    p, q = y >> 1, y & 1
    if o in INVALID:
        return _e('INVALID', ('Invalid', [o]), 1, 1)
    if x == 0:
        if z == 0:
            if y == 0:
                return _e('NOP', ('NoOp', []), 1, 1)
            if y == 1:
                return _e('LD (a16),SP', ('LoadStackPointerToMemory', ['d16']), 3, 5,
                          bus=[('w', 16, 'd16', 'SP')], reads=['SP'])
            if y == 2:
                return _e('STOP', ('Stop', []), 2, 1, term=True)
            if y == 3:
                return _e('JR e8', ('JumpRelative', ['Always', 'e8']), 2, (3, 3), term=True)
            return _e('JR cc,e8', ('JumpRelative', [CC[y - 4], 'e8']), 2, (2, 3), term=True)
        if z == 1:
            if q == 0:
                return _e('LD rp,d16', ('Load16', [RP[p], 'd16']), 3, 3, writes=[RP[p]])
            return _e('ADD HL,rp', ('AddHL', [RP[p]]), 1, 2, flags='-0**', writes=['HL'], reads=['HL', RP[p]])
        if z == 2:
            loc = ['BC', 'DE', 'HLIncrement', 'HLDecrement'][p]
            areg = ['BC', 'DE', 'HL', 'HL'][p]
            w = ['HL'] if p >= 2 else []
            if q == 0:
                return _e('LD (rr),A', ('LoadToIndirect', [loc, 'A']), 1, 2, bus=[('w', 8, areg, 'A')],
                          writes=w, reads=['A', areg])
            return _e('LD A,(rr)', ('LoadFromIndirect', ['A', loc]), 1, 2, bus=[('r', 8, areg, None)],
                      writes=['A'] + w, reads=[areg])
        if z == 3:
            if q == 0:
                return _e('INC rp', ('Increment16', [RP[p]]), 1, 2, writes=[RP[p]], reads=[RP[p]])
            return _e('DEC rp', ('Decrement16', [RP[p]]), 1, 2, writes=[RP[p]], reads=[RP[p]])
        if z in (4, 5):
            fl = '*0*-' if z == 4 else '*1*-'
            if y == 6:
                return _e('INC (HL)' if z == 4 else 'DEC (HL)',
                          ('IncrementHLIndirect' if z == 4 else 'DecrementHLIndirect', []), 1, 3, flags=fl,
                          bus=[('r', 8, 'HL', None), ('w', 8, 'HL', 'result')], reads=['HL'])
            return _e('INC r' if z == 4 else 'DEC r', ('Increment8' if z == 4 else 'Decrement8', [R8[y]]), 1, 1,
                      flags=fl, writes=[R8[y]], reads=[R8[y]])
        if z == 6:
            if y == 6:
                return _e('LD (HL),d8', ('LoadImmediateToHLIndirect', ['d8']), 2, 3, bus=[('w', 8, 'HL', 'd8')],
                          reads=['HL'])
            return _e('LD r,d8', ('Load8Immediate', [R8[y], 'd8']), 2, 2, writes=[R8[y]])
        if z == 7:
            tbl = [('RLCA', 'RotateLeftCarryA', '000*', ['A']), ('RRCA', 'RotateRightCarryA', '000*', ['A']),
                   ('RLA', 'RotateLeftA', '000*', ['A']), ('RRA', 'RotateRightA', '000*', ['A']),
                   ('DAA', 'DAA', '*-0*', ['A']), ('CPL', 'ComplementA', '-11-', ['A']),
                   ('SCF', 'SetCarryFlag', '-001', []), ('CCF', 'ComplementCarryFlag', '-00*', [])]
            mn, var, fl, w = tbl[y]
            return _e(mn, (var, []), 1, 1, flags=fl, writes=w, reads=w)
    if x == 1:
        if o == 0x76:
            return _e('HALT', ('Halt', []), 1, 1, term=True)
        if z == 6:
            return _e('LD r,(HL)', ('LoadFromIndirect', [R8[y], 'HL']), 1, 2, bus=[('r', 8, 'HL', None)],
                      writes=[R8[y]], reads=['HL'])
        if y == 6:
            return _e('LD (HL),r', ('LoadToIndirect', ['HL', R8[z]]), 1, 2, bus=[('w', 8, 'HL', R8[z])],
                      reads=['HL', R8[z]])
        return _e('LD r,r', ('Load8', [R8[y], R8[z]]), 1, 1, writes=[R8[y]], reads=[R8[z]])
    if x == 2:
        a = ALU[y]
        w = [] if a == 'CP' else ['A']
        if z == 6:
            return _e(a + ' (HL)', (ALU_IND[a], []), 1, 2, flags=ALU_FLAGS[a], bus=[('r', 8, 'HL', None)],
                      writes=w, reads=['A', 'HL'])
        if a == 'CP':
            return _e('CP r', ('Compare8', [R8[z]]), 1, 1, flags=ALU_FLAGS[a], reads=['A', R8[z]])
        return _e(a + ' r', (ALU_REG[a], ['A', R8[z]]), 1, 1, flags=ALU_FLAGS[a], writes=w, reads=['A', R8[z]])
    # x == 3
    if z == 0:
        if y < 4:
            return _e('RET cc', ('Return', [CC[y]]), 1, (2, 5), bus=[('r', 8, 'SP', None), ('r', 8, 'SP+1', None)],
                      term=True, writes=['SP'], reads=['SP'])
        if y == 4:
            return _e('LDH (a8),A', ('LoadAToMemory', ['a8', 0]), 2, 3, bus=[('w', 8, 'a8', 'A')], reads=['A'])
        if y == 5:
            return _e('ADD SP,e8', ('AddSP', ['e8']), 2, 4, flags='00**', writes=['SP'], reads=['SP'])
        if y == 6:
            return _e('LDH A,(a8)', ('LoadAFromMemory', ['a8', 0]), 2, 3, bus=[('r', 8, 'a8', None)], writes=['A'])
        return _e('LD HL,SP+e8', ('LoadStackOffset', ['e8']), 2, 3, flags='00**', writes=['HL'], reads=['SP'])
    if z == 1:
        if q == 0:
            fl = '****' if RP2[p] == 'AF' else '----'
            return _e('POP rp', ('Pop', [RP2[p]]), 1, 3, flags=fl,
                      bus=[('r', 8, 'SP', None), ('r', 8, 'SP+1', None)], writes=[RP2[p], 'SP'], reads=['SP'])
        if p == 0:
            return _e('RET', ('Return', ['Always']), 1, (4, 4), bus=[('r', 8, 'SP', None), ('r', 8, 'SP+1', None)],
                      term=True, writes=['SP'], reads=['SP'])
        if p == 1:
            return _e('RETI', ('ReturnFromInterrupt', []), 1, (4, 4),
                      bus=[('r', 8, 'SP', None), ('r', 8, 'SP+1', None)], term=True, writes=['SP'], reads=['SP'])
        if p == 2:
            return _e('JP HL', ('JumpHL', []), 1, (1, 1), term=True, reads=['HL'])
        return _e('LD SP,HL', ('LoadToStackPointer', []), 1, 2, writes=['SP'], reads=['HL'])
    if z == 2:
        if y < 4:
            return _e('JP cc,a16', ('Jump', [CC[y], 'd16']), 3, (3, 4), term=True)
        if y == 4:
            return _e('LD (C),A', ('LoadToHighMem', []), 1, 2, bus=[('w', 8, 'FF00+C', 'A')], reads=['A', 'C'])
        if y == 5:
            return _e('LD (a16),A', ('LoadAToMemory', ['d16', 1]), 3, 4, bus=[('w', 8, 'd16', 'A')], reads=['A'])
        if y == 6:
            return _e('LD A,(C)', ('LoadFromHighMem', []), 1, 2, bus=[('r', 8, 'FF00+C', None)], writes=['A'],
                      reads=['C'])
        return _e('LD A,(a16)', ('LoadAFromMemory', ['d16', 1]), 3, 4, bus=[('r', 8, 'd16', None)], writes=['A'])
    if z == 3:
        if y == 0:
            return _e('JP a16', ('Jump', ['Always', 'd16']), 3, (4, 4), term=True)
        if y == 1:
            return None  # CB prefix
        if y == 6:
            return _e('DI', ('InterruptDisable', []), 1, 1, term=True)
        if y == 7:
            return _e('EI', ('InterruptEnable', []), 1, 1, term=True)
    if z == 4:
        return _e('CALL cc,a16', ('Call', [CC[y], 'd16']), 3, (3, 6),
                  bus=[('w', 8, 'SP-1', 'ret_hi'), ('w', 8, 'SP-2', 'ret_lo')], term=True, writes=['SP'], reads=['SP'])
    if z == 5:
        if q == 0:
            return _e('PUSH rp', ('Push', [RP2[p]]), 1, 4,
                      bus=[('w', 8, 'SP-1', RP2[p] + '_hi'), ('w', 8, 'SP-2', RP2[p] + '_lo')],
                      writes=['SP'], reads=['SP', RP2[p]])
        if p == 0:
            return _e('CALL a16', ('Call', ['Always', 'd16']), 3, (6, 6),
                      bus=[('w', 8, 'SP-1', 'ret_hi'), ('w', 8, 'SP-2', 'ret_lo')], term=True, writes=['SP'],
                      reads=['SP'])
    if z == 6:
        a = ALU[y]
        return _e(a + ' d8', (ALU_IMM[a], ['d8']), 2, 2, flags=ALU_FLAGS[a], writes=[] if a == 'CP' else ['A'],
                  reads=['A'])
    if z == 7:
        return _e('RST', ('ResetVector', [y * 8]), 1, (4, 4),
                  bus=[('w', 8, 'SP-1', 'ret_hi'), ('w', 8, 'SP-2', 'ret_lo')], term=True, writes=['SP'], reads=['SP'])
    raise AssertionError('unreachable %#x' % o)


def _prefixed(o):
    x, y, z = o >> 6, (o >> 3) & 7, o & 7
    r = R8[z]
    ind = (z == 6)
    if x == 0:
        rot = ROT[y]
        fl = '*000' if rot == 'SWAP' else '*00*'
        if ind:
            return _e(rot + ' (HL)', (ROT_REG[rot] + 'Indirect', []), 2, 4, flags=fl,
                      bus=[('r', 8, 'HL', None), ('w', 8, 'HL', 'result')], reads=['HL'])
        return _e(rot + ' r', (ROT_REG[rot], [r]), 2, 2, flags=fl, writes=[r], reads=[r])
    bit = 1 << y
    if x == 1:
        if ind:
            return _e('BIT n,(HL)', ('BitTestIndirect', [bit]), 2, 3, flags='*01-', bus=[('r', 8, 'HL', None)],
                      reads=['HL'])
        return _e('BIT n,r', ('BitTest', [r, bit]), 2, 2, flags='*01-', reads=[r])
    var = 'BitClear' if x == 2 else 'BitSet'
    mn = 'RES' if x == 2 else 'SET'
    if ind:
        return _e(mn + ' n,(HL)', (var + 'Indirect', [bit]), 2, 4,
                  bus=[('r', 8, 'HL', None), ('w', 8, 'HL', 'result')], reads=['HL'])
    return _e(mn + ' n,r', (var, [r, bit]), 2, 2, writes=[r], reads=[r])


def build():
    tbl = {}
    for o in range(256):
        if o == 0xCB:
            continue
        tbl[(None, o)] = _unprefixed(o)
    for o in range(256):
        tbl[(0xCB, o)] = _prefixed(o)
    return tbl


TABLE = build()

# Terminator op variants in the repo's vocabulary
TERMINATOR_VARIANTS = {'Jump', 'JumpHL', 'JumpRelative', 'Call', 'ResetVector', 'Return', 'ReturnFromInterrupt',
                       'InterruptEnable', 'InterruptDisable', 'Stop', 'Halt'}

INTERRUPT_VECTORS = [(0, 0x40, 0x01, 'VBlank'), (1, 0x48, 0x02, 'STAT'), (2, 0x50, 0x04, 'Timer'),
                     (3, 0x58, 0x08, 'Serial'), (4, 0x60, 0x10, 'Joypad')]

# Memory map: (lo, hi, region)
BUS_MAP = [
    (0x0000, 0x3fff, 'ROM0'), (0x4000, 0x7fff, 'ROMn'), (0x8000, 0x9fff, 'VRAM'), (0xa000, 0xbfff, 'CARTRAM'),
    (0xc000, 0xcfff, 'WRAM0'), (0xd000, 0xdfff, 'WRAMn'), (0xe000, 0xfdff, 'ECHO'), (0xfe00, 0xfe9f, 'OAM'),
    (0xfea0, 0xfeff, 'UNUSABLE'), (0xff00, 0xff7f, 'IO'), (0xff80, 0xfffe, 'HRAM'), (0xffff, 0xffff, 'IE'),
]

ROM_BANKS = {0: 2, 1: 4, 2: 8, 3: 16, 4: 32, 5: 64, 6: 128, 7: 256, 8: 512, 0x52: 72, 0x53: 80, 0x54: 96}
RAM_SIZES = {0: 0, 1: 2 * 1024, 2: 8 * 1024, 3: 32 * 1024, 4: 128 * 1024, 5: 64 * 1024}
TIMER_PERIODS = {0: 1024, 1: 16, 2: 64, 3: 256}


def selfcheck():
    defined = [k for k, v in TABLE.items() if v['mn'] != 'INVALID']
    assert len(TABLE) == 511 and len(defined) == 500, (len(TABLE), len(defined))
    assert sorted(k[1] for k, v in TABLE.items() if v['mn'] == 'INVALID') == INVALID
    # spot values from the published opcode table
    assert TABLE[(None, 0x08)]['cycles'] == (5, 5) and TABLE[(None, 0x08)]['length'] == 3
    assert TABLE[(None, 0xC1)]['cycles'] == (3, 3)
    assert TABLE[(None, 0xC5)]['cycles'] == (4, 4)
    assert TABLE[(None, 0xCD)]['cycles'] == (6, 6)
    assert TABLE[(None, 0xC4)]['cycles'] == (3, 6)
    assert TABLE[(None, 0xC0)]['cycles'] == (2, 5)
    assert TABLE[(None, 0xC9)]['cycles'] == (4, 4)
    assert TABLE[(None, 0x20)]['cycles'] == (2, 3)
    assert TABLE[(None, 0xC2)]['cycles'] == (3, 4)
    assert TABLE[(None, 0xE8)]['cycles'] == (4, 4)
    assert TABLE[(None, 0xF8)]['cycles'] == (3, 3)
    assert TABLE[(None, 0x34)]['cycles'] == (3, 3)
    assert TABLE[(None, 0x36)]['cycles'] == (3, 3)
    assert TABLE[(0xCB, 0x46)]['cycles'] == (3, 3)
    assert TABLE[(0xCB, 0x86)]['cycles'] == (4, 4)
    assert TABLE[(0xCB, 0x06)]['cycles'] == (4, 4)
    assert TABLE[(None, 0x10)]['length'] == 2
    assert sum(1 for v in TABLE.values() if v['term']) == 34  # JR 5, JP 6, CALL 5, RET 5, RETI, RST 8, HALT, STOP, EI, DI
    return True


if __name__ == '__main__':
    selfcheck()
    print('sm83 tables consistent: %d encodings' % len(TABLE))
