"""Path-sensitive abstract interpreter over exported MIR.

No concrete guest state is supplied: arguments, registers, memory contents are
symbols unless the caller of `Interp.run` fixes a *class* (e.g. a constant
opcode byte, an address interval).  Branches are decided only by constant
folding, intervals and known bits (gbsa.terms); undecided branches fork the
path.  Loops are not unrolled symbolically: a block revisited on an undecided
branch aborts the path with status 'loop' (rules for looping functions use
gbsa.loops instead).
"""
import re
from . import terms as T
from .terms import C, S, O, AV, Env, int_type, mask, is_int, fmt

PANIC_FNS = (
    'core::panicking::panic', 'core::panicking::panic_fmt', 'std::rt::begin_panic',
    'core::panicking::panic_bounds_check', 'core::panicking::unreachable_display',
    'core::panicking::panic_nounwind', 'core::panicking::panic_cannot_unwind',
    'core::result::unwrap_failed', 'core::option::unwrap_failed', 'core::option::expect_failed',
    'core::slice::index::slice_index_fail', 'core::panicking::assert_failed',
    'std::process::abort', 'std::process::exit',
)

STD_OPTION_DISCR = {'None': 0, 'Some': 1, 'Ok': 0, 'Err': 1}


class Abort(Exception):
    def __init__(self, why):
        Exception.__init__(self, why)
        self.why = why


class State:
    __slots__ = ('mem', 'env', 'events', 'n', 'dyn', 'steps', 'notes', 'decisions')

    def __init__(self, env):
        self.mem = {}
        self.env = env
        self.events = []
        self.n = {'frame': 0, 'sym': 0, 'obj': 0}
        self.dyn = {}
        self.steps = 0
        self.notes = []
        self.decisions = []

    def copy(self):
        s = State(self.env.copy())
        s.mem = dict(self.mem)
        s.events = list(self.events)
        s.n = dict(self.n)
        s.dyn = dict(self.dyn)
        s.steps = self.steps
        s.notes = list(self.notes)
        s.decisions = list(self.decisions)
        return s

    def fresh(self, bits, hint, meta=None):
        self.n['sym'] += 1
        return S(bits, '%s#%d' % (hint, self.n['sym']), meta)


class Result:
    __slots__ = ('status', 'ret', 'state', 'where', 'detail')

    def __init__(self, status, ret, state, where=None, detail=None):
        self.status = status    # 'ok' | 'panic' | 'loop' | 'abort'
        self.ret = ret
        self.state = state
        self.where = where
        self.detail = detail

    def __repr__(self):
        return 'Result(%s, %s, %s)' % (self.status, fmt(self.ret) if self.ret else None, self.where)


class Frame:
    __slots__ = ('fname', 'fn', 'uid', 'depth', 'visits', 'havoced', 'passes', 'gen')

    def __init__(self, fname, fn, uid, depth):
        self.fname = fname
        self.fn = fn
        self.uid = uid
        self.depth = depth
        self.visits = {}
        self.havoced = set()
        self.passes = {}
        self.gen = {}

    def copy(self):
        f = Frame(self.fname, self.fn, self.uid, self.depth)
        f.visits = dict(self.visits)
        f.havoced = set(self.havoced)
        f.passes = dict(self.passes)
        f.gen = dict(self.gen)
        return f


def type_bits(ty):
    it = int_type(ty)
    return it[0] if it else 0


class Interp:
    def __init__(self, facts, opaque=(), sym_facts=None, max_depth=14, skip_asserts=('misaligned', 'null_deref'),
                 models=None, step_limit=200000, revisit_limit=4, trust_asserts=(), on_call=None, dyn_filter=None,
                 loop_mode='abort', path_budget=20000, opaque_havoc=None, precise=False, extra_iterations=0,
                 always_summarise=False):
        self.facts = facts
        # precise: undecided asserts / infeasible paths are settled with the exact bit-level path condition (gbsa.bvproof)
        # before falling back to forking: removes false paths the interval x known-bits domain cannot exclude
        self.precise = precise
        self.fns = facts['functions']
        self.adts = facts['adts']
        self.opaque = set(opaque)
        self.sym_facts = sym_facts
        self.max_depth = max_depth
        self.skip_asserts = set(skip_asserts)
        self.trust_asserts = set(trust_asserts)   # assert kinds assumed to hold (not forked)
        self.models = dict(STD_MODELS)
        if models:
            self.models.update(models)
        self.step_limit = step_limit
        self.revisit_limit = revisit_limit
        self.on_call = on_call
        self.dyn_filter = dyn_filter
        self.opaque_havoc = opaque_havoc or {}   # opaque callee -> arg indexes whose pointees it may write
        self.loop_mode = loop_mode      # 'abort' | 'havoc'
        # havoc mode: number of further passes through a loop head after the summarised one before the path is cut
        # (1 = two consecutive iterations are executed from the summarised state)
        self.extra_iterations = extra_iterations
        # havoc mode: summarise every loop at its first visit, also those whose guard is decided at that moment
        self.always_summarise = always_summarise
        self.path_budget = path_budget
        self.paths_done = 0
        self._loops = {}
        self.discr_cache = {}
        for name, adt in self.adts.items():
            if adt['kind'] == 'enum':
                self.discr_cache[name] = {i: v['discr'] for i, v in enumerate(adt['variants'])}

    # ------------------------------------------------------------------ API
    def new_state(self):
        return State(Env(self.sym_facts))

    def run(self, fname, args, state=None):
        st = state if state is not None else self.new_state()
        out = []
        self.paths_done = 0
        for r in self.call_fn(fname, args, st, 0, ('<entry>', 0, 0)):
            if self.precise and not feasible(r.state.env):
                continue
            out.append(r)
            self.paths_done += 1
            if self.paths_done > self.path_budget:
                out.append(Result('abort', None, st, ('<entry>', 0, 0), 'path budget exceeded'))
                break
        return out

    # ------------------------------------------------------------ mod sets
    MUTATING_EXTERNALS = ('std::vec::Vec::<T, A>::push', 'std::collections::BTreeMap::<K, V, A>::insert',
                          'std::collections::BTreeMap::<K, V, A>::remove', 'std::mem::replace', 'std::mem::swap',
                          'std::option::Option::<T>::take', 'std::io::Read::read_exact', 'std::string::String::push_str',
                          'std::mem::take')

    def modset(self, fname, _stack=None):
        """(frozenset of (owner, field) that `fname` may store to, transitively; unknown flag)"""
        cache = self.__dict__.setdefault('_modsets', {})
        if fname in cache:
            return cache[fname]
        _stack = _stack or set()
        if fname in _stack:
            return (frozenset(), False)
        fn = self.fns.get(fname)
        if fn is None:
            return (frozenset(), False)
        _stack = _stack | {fname}
        fields = set()
        unknown = False

        def add_place(p):
            pr = p['proj']
            if not any(e['k'] == 'deref' for e in pr):
                return
            last = None
            for e in pr:
                if e['k'] == 'field' and e['owner']:
                    last = (e['owner'], e['name'])
            if last:
                fields.add(last)

        def ref_origin(local):
            for b in fn['blocks']:
                for st_ in b['stmts']:
                    if st_['k'] == 'assign' and st_['place']['local'] == local and not st_['place']['proj']:
                        rv = st_['rv']
                        if rv['k'] in ('ref', 'rawptr'):
                            pl = rv['place']
                            if len(pl['proj']) == 1 and pl['proj'][0]['k'] == 'deref' and pl['local'] != local:
                                inner = ref_origin(pl['local'])   # reborrow &mut *p
                                return inner if inner is not None else pl
                            return pl
                        if rv['k'] == 'use' and rv['op']['k'] in ('copy', 'move') and not rv['op']['place']['proj']:
                            return ref_origin(rv['op']['place']['local']) if rv['op']['place']['local'] != local else None
            return None
        for b in fn['blocks']:
            if b['cleanup']:
                continue
            for st_ in b['stmts']:
                if st_['k'] in ('assign', 'setdiscr'):
                    add_place(st_['place'])
            t = b['term']
            if t['k'] != 'call':
                continue
            add_place(t['dest'])
            names = list(t['impls']) if t['ckind'] == 'virtual' else [t['resolved'] or t['callee']]
            for n in names:
                if n in self.fns:
                    f2, u2 = self.modset(n, _stack)
                    fields |= f2
                    unknown = unknown or u2
                elif any(n.startswith(m) for m in self.MUTATING_EXTERNALS):
                    nargs = 2 if n.startswith('std::mem::swap') else 1
                    for a0 in t['args'][:nargs]:
                        origin = None
                        if a0 and a0['k'] in ('copy', 'move') and not a0['place']['proj']:
                            origin = ref_origin(a0['place']['local'])
                        if origin is not None and any(e['k'] == 'field' and e['owner'] for e in origin['proj']):
                            last = [(e['owner'], e['name']) for e in origin['proj'] if e['k'] == 'field' and e['owner']][-1]
                            fields.add(last)
                        elif origin is not None and not any(e['k'] == 'deref' for e in origin['proj']):
                            pass  # a local of this function
                        else:
                            # unknown pointee: by type, a `&mut T` can only reach struct fields whose type contains T
                            ty = ''
                            if a0 and a0['k'] in ('copy', 'move') and not a0['place']['proj']:
                                ty = fn['locals'][a0['place']['local']]['ty']
                            if ty.startswith('&mut '):
                                pointee = ty[5:]
                                hit = False
                                for aname, adt in self.adts.items():
                                    if adt['kind'] != 'struct':
                                        continue
                                    for f_ in adt['fields']:
                                        if pointee in f_['ty']:
                                            fields.add((aname, f_['name']))
                                            hit = True
                            else:
                                unknown = True
                elif not n:
                    unknown = True   # indirect call
        res = (frozenset(fields), unknown)
        cache[fname] = res
        return res

    def wrap_havoc(self, st, fields, unknown, tag):
        """field-sensitive havoc of every known object: fields in `fields` (or everything when unknown) are forgotten"""
        tbl = self.__dict__.setdefault('_havtbl', [])
        key = (frozenset(fields), unknown)
        if key in tbl:
            mid = tbl.index(key)
        else:
            tbl.append(key)
            mid = len(tbl) - 1
        first = st.n['sym'] + 1
        for root in list(st.mem.keys()):
            if root[0] != 'O':
                continue
            if root[1].startswith('constalloc#') or root[1].startswith('strlit:'):
                continue
            cur = st.mem[root]
            if cur is None:
                continue
            st.n['sym'] += 1
            st.mem[root] = ('hav', cur, mid, '%s@%d:%s' % (tag, st.n['sym'], root[1]))
        st.events.append(('havoc', tag, first, st.n['sym']))

    # ------------------------------------------------------------- loops
    def loops_of(self, fname):
        """natural loops of a function: head bb -> set of body blocks"""
        if fname in self._loops:
            return self._loops[fname]
        fn = self.fns[fname]
        blocks = fn['blocks']

        def succs(b):
            t = blocks[b]['term']
            k = t['k']
            if k == 'goto':
                out = [t['target']]
            elif k == 'switch':
                out = [x for _, x in t['targets']] + [t['otherwise']]
            elif k in ('call', 'assert', 'drop'):
                out = [t['target']] if t.get('target', -1) >= 0 else []
            else:
                out = []
            return [x for x in out if not blocks[x]['cleanup']]
        reach = []
        seen = set()
        stack = [0]
        preds = {}
        while stack:
            b = stack.pop()
            if b in seen:
                continue
            seen.add(b)
            reach.append(b)
            for x in succs(b):
                preds.setdefault(x, []).append(b)
                stack.append(x)
        dom = {b: set(seen) for b in seen}
        dom[0] = {0}
        changed = True
        while changed:
            changed = False
            for b in sorted(seen):
                if b == 0:
                    continue
                ps = [dom[p] for p in preds.get(b, []) if p in dom]
                new = (set.intersection(*ps) if ps else set()) | {b}
                if new != dom[b]:
                    dom[b] = new
                    changed = True
        loops = {}
        for u in seen:
            for h in succs(u):
                if h in dom[u]:
                    body = loops.setdefault(h, {h})
                    st2 = [u]
                    while st2:
                        x = st2.pop()
                        if x in body:
                            continue
                        body.add(x)
                        st2.extend(preds.get(x, []))
        self._loops[fname] = loops
        return loops

    def havoc_loop(self, st, fr, head):
        """forget everything the loop headed at `head` may modify (sound summary of 0..n iterations):
        locals assigned in the body, and - field-sensitively - every (struct, field) stored by the body or its callees"""
        fn = fr.fn
        body = self.loops_of(fr.fname)[head]
        tag = 'loop(%s:bb%d)' % (fr.fname.split('::')[-1], head)
        if fr.gen.get(head):
            tag += '~%d' % fr.gen[head]
        fields = set()
        unknown = False
        for b in sorted(body):
            blk = fn['blocks'][b]
            places = []
            for s in blk['stmts']:
                if s['k'] == 'assign':
                    places.append(s['place'])
                    rv = s['rv']
                    # a local whose address is taken mutably inside the loop may be written through that reference
                    if rv['k'] in ('ref', 'rawptr') and (rv['k'] == 'rawptr' or rv.get('mut')) and \
                            not any(e['k'] == 'deref' for e in rv['place']['proj']):
                        places.append({'local': rv['place']['local'], 'proj': []})
            t = blk['term']
            if t['k'] == 'call':
                places.append(t['dest'])
                names = list(t['impls']) if t['ckind'] == 'virtual' else [t['resolved'] or t['callee']]
                for n in names:
                    if n in self.fns:
                        f2, u2 = self.modset(n)
                        fields |= f2
                        unknown = unknown or u2
                    elif any(n.startswith(m) for m in self.MUTATING_EXTERNALS):
                        a0 = t['args'][0] if t['args'] else None
                        v = None
                        if a0 is not None and a0['k'] in ('copy', 'move'):
                            try:
                                v = self.operand(st, fr, a0)
                            except Abort:
                                v = None
                        if v is not None and v[0] == 'ref' and v[1][0] == 'L':
                            st.mem[v[1]] = S(0, 'loopvar:%s:%s' % (tag, v[1][2]))
                        elif v is not None and v[0] == 'ref' and v[2]:
                            last = [e for e in v[2] if e[0] == 'f']
                            if last:
                                fields.add((last[-1][4], last[-1][2]))
                            else:
                                unknown = True
                        else:
                            unknown = True
            for p in places:
                has_deref = any(e['k'] == 'deref' for e in p['proj'])
                if not has_deref:
                    root = ('L', fr.uid, p['local'])
                    ty = fn['locals'][p['local']]['ty']
                    cur = st.mem.get(root)
                    if cur is not None and cur[0] in ('ref', 'slice', 'fn'):
                        if p['proj'] or not self.loop_carried(fn, body, head, p['local']):
                            continue        # a temporary: rewritten in every iteration before it is read
                        nv = self.havoc_carried_slice(st, fr, fn, body, tag, p['local'], cur) if cur[0] == 'slice' else None
                        if nv is None:
                            raise Abort('loop-carried reference in local _%d is not summarised' % p['local'])
                        st.mem[root] = nv
                        continue
                    if cur is not None and not p['proj'] and is_iterator_value(cur) and \
                            not (cur[1][0] == 'adt' and cur[1][1].endswith('ops::Range')):
                        nv = self.havoc_iterator(st, tag, p['local'], cur)
                        if nv is not None:
                            st.mem[root] = nv
                            continue
                    if cur is not None and cur[0] == 'agg' and cur[1][0] == 'adt' and cur[1][1].endswith('ops::Range') \
                            and len(cur[2]) == 2 and is_int(cur[2][0]) and is_int(cur[2][1]) and not p['proj']:
                        # an iterated Range: only `start` advances, and it stays within [start0, end]
                        s0, end = cur[2]
                        ns = S(s0[1], 'loopvar:%s:_%d.start' % (tag, p['local']))
                        st.env.assume_eq(O(1, 'ule', s0, ns), 1)
                        st.env.assume_eq(O(1, 'ule', ns, end), 1)
                        st.mem[root] = ('agg', cur[1], (ns, end))
                        st.events.append(('loopinit', ns, s0, end))
                        continue
                    ns_ = S(type_bits(ty), 'loopvar:%s:_%d' % (tag, p['local']))
                    mono = self._monotone(fn, body, p['local']) if (not p['proj'] and cur is not None and is_int(cur)
                                                                     and int_type(ty) and not ty.startswith('i')) else None
                    if mono == 'up':
                        st.env.assume_eq(O(1, 'ule', cur, ns_), 1)     # a counter that only grows in the loop
                    elif mono == 'down':
                        st.env.assume_eq(O(1, 'ule', ns_, cur), 1)
                    st.mem[root] = ns_
                    if not p['proj'] and cur is not None and is_int(cur):
                        st.events.append(('loopinit', ns_, cur, None))
                else:
                    last = [(e['owner'], e['name']) for e in p['proj'] if e['k'] == 'field' and e['owner']]
                    if last:
                        fields.add(last[-1])
        self.wrap_havoc(st, fields, unknown, tag)

    @staticmethod
    def _reads(obj, out):
        """locals read by an operand / rvalue / place projection (JSON MIR)"""
        if isinstance(obj, dict):
            if 'local' in obj and 'proj' in obj:
                out.add(obj['local'])
                for e in obj['proj']:
                    if e.get('k') == 'index' and 'local' in e:
                        out.add(e['local'])
                return
            for v in obj.values():
                Interp._reads(v, out)
        elif isinstance(obj, list):
            for v in obj:
                Interp._reads(v, out)

    def loop_carried(self, fn, body, head, local):
        """is `local` live at the loop head: read on some path from the head (inside the body) before it is assigned?"""
        key = ('carried', fn['name'] if 'name' in fn else id(fn), head, local)
        cache = self.__dict__.setdefault('_carried', {})
        if key in cache:
            return cache[key]
        seen = set()
        stack = [head]
        live = False
        while stack and not live:
            b = stack.pop()
            if b in seen or b not in body:
                continue
            seen.add(b)
            blk = fn['blocks'][b]
            killed = False
            for s_ in blk['stmts']:
                if s_['k'] != 'assign':
                    continue
                rd = set()
                self._reads(s_['rv'], rd)
                if s_['place']['proj']:
                    self._reads(s_['place'], rd)
                if local in rd:
                    live = True
                    break
                if s_['place']['local'] == local and not s_['place']['proj']:
                    killed = True
                    break
            if live or killed:
                continue
            t = blk['term']
            rd = set()
            for k_ in ('args', 'discr', 'cond', 'func', 'index', 'len', 'a', 'b'):
                if k_ in t:
                    self._reads(t[k_], rd)
            if t['k'] == 'drop' and 'place' in t:
                pass
            if local in rd:
                live = True
                break
            if t['k'] == 'call' and t['dest']['local'] == local and not t['dest']['proj']:
                continue
            for nb in self.prog_succs(fn, b):
                stack.append(nb)
        cache[key] = live
        return live

    @staticmethod
    def prog_succs(fn, b):
        t = fn['blocks'][b]['term']
        k = t['k']
        if k in ('goto', 'drop', 'assert'):
            return [t['target']]
        if k == 'call':
            return [t['target']] if t['target'] is not None and t['target'] >= 0 else []
        if k == 'switch':
            return [x[1] for x in t['targets']] + [t['otherwise']]
        return []

    def havoc_carried_slice(self, st, fr, fn, body, tag, local, cur):
        """A slice carried round the loop.  Summarised only when every assignment to it inside the loop takes a suffix of
        its current value (split_at(..).1, [k..]): the end stays fixed, the start advances by an unknown amount"""
        for b in body:
            blk = fn['blocks'][b]
            for s_ in blk['stmts']:
                if s_['k'] == 'assign' and s_['place']['local'] == local and not s_['place']['proj']:
                    if not self._suffix_source(fn, body, s_['rv'], local, 0):
                        return None
            t = blk['term']
            if t['k'] == 'call' and t['dest']['local'] == local and not t['dest']['proj']:
                if not self._suffix_call(fn, body, t, local, 0):
                    return None
        _, root, path, off, ln = cur
        adv = S(64, 'loopvar:%s:_%d.advance' % (tag, local))
        st.env.assume_eq(O(1, 'ule', adv, ln), 1)
        st.events.append(('loopinit', adv, C(64, 0), ln))
        return ('slice', root, path, O(64, 'add', off, adv), O(64, 'sub', ln, adv))

    def _suffix_source(self, fn, body, rv, local, depth):
        if depth > 6:
            return False
        if rv['k'] == 'use' and rv['op']['k'] in ('copy', 'move'):
            pl = rv['op']['place']
            src = pl['local']
            proj = pl['proj']
            if src == local and not proj:
                return True
            # a field of a tuple produced by split_at: field 1 is the suffix
            defs = [(b, s_) for b in body for s_ in fn['blocks'][b]['stmts']
                    if s_['k'] == 'assign' and s_['place']['local'] == src and not s_['place']['proj']]
            calls = [fn['blocks'][b]['term'] for b in body if fn['blocks'][b]['term']['k'] == 'call'
                     and fn['blocks'][b]['term']['dest']['local'] == src and not fn['blocks'][b]['term']['dest']['proj']]
            if len(proj) == 1 and proj[0]['k'] == 'field' and proj[0]['i'] == 1 and len(calls) == 1 and not defs:
                c = calls[0]['resolved'] or calls[0]['callee']
                if c.endswith('<impl [T]>::split_at') and self._is_local_ref(fn, body, calls[0]['args'][0], local, depth + 1):
                    return True
                return False
            if not proj and len(defs) == 1 and not calls:
                return self._suffix_source(fn, body, defs[0][1]['rv'], local, depth + 1)
            if not proj and len(calls) == 1 and not defs:
                return self._suffix_call(fn, body, calls[0], local, depth + 1)
            return False
        if rv['k'] == 'ref' and rv['place']['proj'] == [{'k': 'deref'}]:
            return self._suffix_source(fn, body, {'k': 'use', 'op': {'k': 'copy', 'place': {'local': rv['place']['local'],
                                                                                            'proj': []}}}, local, depth + 1)
        return False

    def _suffix_call(self, fn, body, t, local, depth):
        c = t['resolved'] or t['callee']
        if c.endswith('::index') and 'RangeFrom' in (t.get('generics') or ''):
            return self._is_local_ref(fn, body, t['args'][0], local, depth + 1)
        return False

    def _is_local_ref(self, fn, body, op, local, depth):
        if op['k'] not in ('copy', 'move'):
            return False
        return self._suffix_source(fn, body, {'k': 'use', 'op': op}, local, depth)

    def havoc_iterator(self, st, tag, local, v, sfx=''):
        """loop-head summary of a modelled iterator value held in a local: only its position advances, within its bounds"""
        k = v[1]
        name = 'loopvar:%s:_%d%s' % (tag, local, sfx)
        if k[0] == 'adt' and k[1].endswith('ops::Range') and len(v[2]) == 2 and is_int(v[2][0]) and is_int(v[2][1]):
            s0, end = v[2]
            ns = S(s0[1], name + '.start')
            st.env.assume_eq(O(1, 'ule', s0, ns), 1)
            st.env.assume_eq(O(1, 'ule', ns, end), 1)
            st.events.append(('loopinit', ns, s0, end))
            return ('agg', k, (ns, end))
        if k == IT_SLICE:
            sl, pos = v[2]
            ns = S(64, name + '.pos')
            st.env.assume_eq(O(1, 'ule', pos, ns), 1)
            st.env.assume_eq(O(1, 'ule', ns, sl[4]), 1)
            st.events.append(('loopinit', ns, pos, sl[4]))
            return ('agg', k, (sl, ns))
        if k == IT_TAKE:
            inner, n = v[2]
            ni = self.havoc_iterator(st, tag, local, inner, sfx + '.iter')
            if ni is None:
                return None
            nn = S(n[1], name + '.n')
            st.env.assume_eq(O(1, 'ule', nn, n), 1)
            st.events.append(('loopinit', nn, n, None))
            return ('agg', k, (ni, nn))
        if k == IT_ENUM:
            inner, count = v[2]
            ni = self.havoc_iterator(st, tag, local, inner, sfx + '.iter')
            if ni is None:
                return None
            pos0 = inner[2][0] if ni[1] != IT_SLICE else inner[2][1]
            npos = ni[2][0] if ni[1] != IT_SLICE else ni[2][1]
            if ni[1] in (IT_SLICE,) or (ni[1][0] == 'adt' and ni[1][1].endswith('ops::Range')):
                if is_int(pos0) and is_int(count) and pos0 == count and npos[1] == 64:
                    return ('agg', k, (ni, npos))          # the count and the position advance together
            nc = S(64, name + '.count')
            st.env.assume_eq(O(1, 'ule', count, nc), 1)
            st.events.append(('loopinit', nc, count, None))
            return ('agg', k, (ni, nc))
        if k == IT_REV:
            inner = v[2][0]
            if inner[0] == 'agg' and inner[1][0] == 'adt' and inner[1][1].endswith('ops::Range') and len(inner[2]) == 2 \
                    and is_int(inner[2][0]) and is_int(inner[2][1]):
                start, end = inner[2]
                ne = S(end[1], name + '.end')
                st.env.assume_eq(O(1, 'ule', start, ne), 1)
                st.env.assume_eq(O(1, 'ule', ne, end), 1)
                st.events.append(('loopinit', ne, end, start))
                return ('agg', k, (('agg', inner[1], (start, ne)),))
            return None
        if k == IT_RINC:
            cur, last, done = v[2]
            ns = S(cur[1], name + '.start')
            nd = S(1, name + '.exhausted')
            st.env.assume_eq(O(1, 'ule', cur, ns), 1)
            st.events.append(('loopinit', ns, cur, last))
            return ('agg', k, (ns, last, nd))
        return None

    def _monotone(self, fn, body, local):
        """'up' / 'down' when every assignment to `local` inside the loop body is local = local (+|-) x with the checked
        (overflow-asserting) operator on an unsigned type; None otherwise"""
        kinds = set()
        for b in body:
            for s in fn['blocks'][b]['stmts']:
                if s['k'] != 'assign' or s['place']['local'] != local or s['place']['proj']:
                    continue
                rv = s['rv']
                src = None
                if rv['k'] == 'use' and rv['op']['k'] in ('copy', 'move') and len(rv['op']['place']['proj']) == 1 and \
                        rv['op']['place']['proj'][0]['k'] == 'field' and rv['op']['place']['proj'][0]['i'] == 0:
                    src = rv['op']['place']['local']
                if src is None:
                    return None
                defs = [s2['rv'] for b2 in body for s2 in fn['blocks'][b2]['stmts']
                        if s2['k'] == 'assign' and s2['place']['local'] == src and not s2['place']['proj']]
                if len(defs) != 1 or defs[0]['k'] != 'binop' or defs[0]['op'] not in ('AddWithOverflow', 'SubWithOverflow'):
                    return None
                a = defs[0]['a']
                if not (a['k'] in ('copy', 'move') and a['place']['local'] == local and not a['place']['proj']):
                    return None
                kinds.add('up' if defs[0]['op'] == 'AddWithOverflow' else 'down')
        # the overflow assert of the checked operator must not be skipped
        if len(kinds) == 1:
            return kinds.pop()
        return None

    def _havoc_root(self, st, root, tag):
        if root[0] == 'O':
            st.mem[root] = S(0, 'loop(%s)%s' % (tag, root[1].split(')')[-1] if root[1].startswith('loop(') else root[1]))
        else:
            st.mem[root] = S(0, 'loopvar:%s:%s' % (tag, root[2]))

    def _havoc_reachable(self, st, v, tag, depth=0):
        if v is None or depth > 3:
            return
        if v[0] in ('ref', 'slice'):
            self._havoc_root(st, v[1], tag)
        elif v[0] == 's' and v[1] == 0:
            root = ('O', v[2])
            if root in st.mem:
                self._havoc_root(st, root, tag)
        elif v[0] == 'agg':
            for x in v[2]:
                self._havoc_reachable(st, x, tag, depth + 1)

    def arg_object(self, st, name, ty=''):
        """A pointer value to a fresh abstract object named `name`."""
        root = ('O', name)
        if root not in st.mem:
            st.mem[root] = S(0, name, None)
        return ('ref', root, ())

    # ------------------------------------------------------------ value ops
    def project(self, st, v, elem):
        """Project one path element out of a value."""
        k = elem[0]
        if v is None:
            return None
        vk = v[0]
        if vk == 'agg':
            kind, fields = v[1], v[2]
            if k == 'f':
                i = elem[1]
                if i < len(fields):
                    return fields[i]
                return None
            if k == 'd':
                return v
            if k == 'i':
                ci = st.env.const_of(elem[1])
                if ci is not None and ci < len(fields):
                    return fields[ci]
                if ci is None and 0 < len(fields) <= 32 and all(is_int(f) for f in fields) and is_int(elem[1]) and \
                        len(set(f[1] for f in fields)) == 1:
                    # table lookup with a symbolic (bounds-checked) index: an explicit selection over the entries
                    w = fields[0][1]
                    idx = elem[1]
                    out = C(w, 0)
                    for i, f in enumerate(fields):
                        hit = O(1, 'eq', idx, C(idx[1], i))
                        m_ = O(w, 'sub', C(w, 0), O(w, 'zext', hit))
                        out = O(w, 'or', out, O(w, 'and', f, m_))
                    return out
                return st.fresh(type_bits(elem[2]) if len(elem) > 2 else 8, 'elem')
        if vk == 'hav':
            old, mid, name = v[1], v[2], v[3]
            fields, unknown = self._havtbl[mid]
            if k == 'f':
                fname, ty, owner = elem[2], elem[3], elem[4]
                bits = type_bits(ty)
                if unknown or (owner, fname) in fields:
                    return S(bits, name + '.' + fname, ('field', owner, fname, ty))
                sub = self.project(st, old, elem)
                if sub is None:
                    return S(bits, name + '.' + fname, ('field', owner, fname, ty))
                if is_int(sub) or sub[0] in ('fn', 'str', 'unit'):
                    return sub
                if sub[0] in ('ref', 'slice'):
                    return sub     # the pointer itself is unchanged; its pointee is wrapped separately
                if sub[0] == 's' and sub[1] == 0 and ('*' in ty or '&' in ty or ty.startswith('std::boxed::Box')
                                                      or ty.startswith('std::ptr')):
                    return sub
                return ('hav', sub, mid, name + '.' + fname)
            if k == 'd':
                sub = self.project(st, old, elem)
                return ('hav', sub, mid, name + '#' + str(elem[2])) if sub is not None else None
            if k == 'i':
                if unknown:
                    return st.fresh(type_bits(elem[2]) if len(elem) > 2 else 8, 'elem')
                sub = self.project(st, old, elem)
                if sub is None or is_int(sub):
                    # element contents of buffers are not tracked across a havoc: the element is an unknown of the
                    # summarised state, named by the buffer and the index so that two reads of one cell agree
                    ty_ = elem[2] if len(elem) > 2 else 'u8'
                    return S(type_bits(ty_), '%s[%s]' % (name, fmt(elem[1])), ('elem', name, elem[1]))
                return ('hav', sub, mid, name + '[]')
            return None
        if vk == 'snap':
            base, ov = v[1], v[2]
            key = self._ekey(st, elem)
            for kk, vv in ov:
                if kk == key:
                    return vv
            if base is None:
                return None
            return self.project(st, base, elem)
        if vk == 's':
            name = v[2]
            if k == 'f':
                fname, ty, owner = elem[2], elem[3], elem[4]
                return S(type_bits(ty), name + '.' + fname, ('field', owner, fname, ty))
            if k == 'd':
                return S(0, name + '#' + elem[2], ('variant', elem[2], elem[1]))
            if k == 'i':
                ty = elem[2] if len(elem) > 2 else 'u8'
                return S(type_bits(ty), '%s[%s]' % (name, fmt(elem[1])), ('elem', name, elem[1]))
        if vk in ('ref', 'slice') and k == 'f':
            # pointer wrappers (Box/Unique/NonNull) are transparent
            return v
        if vk == 'unit':
            return v
        return None

    def _ekey(self, st, elem):
        if elem[0] == 'f':
            return ('f', elem[1])
        if elem[0] == 'd':
            return ('d', elem[1])
        if elem[0] == 'i':
            ci = st.env.const_of(elem[1])
            return ('i', ci if ci is not None else elem[1])
        return elem

    def update(self, st, v, path, new):
        if not path:
            return new
        elem = path[0]
        k = elem[0]
        if v is not None and v[0] == 'agg' and k == 'f' and elem[1] < len(v[2]):
            fields = list(v[2])
            fields[elem[1]] = self.update(st, fields[elem[1]], path[1:], new)
            return ('agg', v[1], tuple(fields))
        if v is not None and v[0] == 'agg' and k == 'd':
            return self.update(st, v, path[1:], new)
        if v is not None and v[0] == 'agg' and k == 'i':
            ci = st.env.const_of(elem[1])
            if ci is not None and ci < len(v[2]):
                fields = list(v[2])
                fields[ci] = self.update(st, fields[ci], path[1:], new)
                return ('agg', v[1], tuple(fields))
            # unknown index: lose the whole array
            return st.fresh(0, 'havoc')
        key = self._ekey(st, elem)
        if v is not None and v[0] == 'snap':
            base, ov = v[1], list(v[2])
        else:
            base, ov = v, []
        if k == 'i' and not isinstance(key[1], int):
            # symbolic index write: all constant-index knowledge is lost
            ov = [(kk, vv) for kk, vv in ov if kk[0] != 'i']
            base = st.fresh(0, 'havoc')
            return ('snap', base, tuple(ov))
        cur = None
        found = False
        for j, (kk, vv) in enumerate(ov):
            if kk == key:
                cur = vv
                found = True
                ov[j] = (kk, self.update(st, vv, path[1:], new))
                break
        if not found:
            cur = self.project(st, base, elem) if base is not None else None
            ov.append((key, self.update(st, cur, path[1:], new)))
        return ('snap', base, tuple(ov))

    # --------------------------------------------------------------- places
    def resolve_place(self, st, fr, p):
        """-> (root, path, view) ; view is None or (off_term, len_term) for slice views"""
        root = ('L', fr.uid, p['local'])
        path = ()
        view = None
        for e in p['proj']:
            k = e['k']
            if k == 'deref':
                ptr = self.read(st, root, path)
                root, path, view = self.deref(st, ptr)
            elif k == 'field':
                path = path + (('f', e['i'], e['name'], e['ty'], e['owner']),)
            elif k == 'downcast':
                path = path + (('d', e['i'], e['variant']),)
            elif k == 'index':
                idx = self.read(st, ('L', fr.uid, e['local']), ())
                if view is not None:
                    idx = O(64, 'add', view[0], idx)
                    view = None
                path = path + (('i', idx, 'u8'),)
            elif k == 'cindex':
                idx = C(64, e['offset'])
                if view is not None:
                    idx = O(64, 'add', view[0], idx)
                    view = None
                path = path + (('i', idx, 'u8'),)
            else:
                raise Abort('unsupported projection ' + k)
        return root, path, view

    def deref(self, st, ptr):
        if ptr is None:
            raise Abort('deref of undefined value')
        k = ptr[0]
        if k == 'ref':
            return ptr[1], ptr[2], None
        if k == 'slice':
            return ptr[1], ptr[2], (ptr[3], ptr[4])
        if k == 's':
            root = ('O', ptr[2])
            if root not in st.mem:
                st.mem[root] = S(0, '*' + ptr[2], ('pointee', ptr[2]))
            return root, (), None
        if k == 'hav':
            return self.deref(st, ptr[1])
        if k == 'str':
            root = ('O', 'strlit:' + ptr[1])
            st.mem[root] = ptr
            return root, (), None
        raise Abort('deref of non-pointer %s' % fmt(ptr))

    def read(self, st, root, path):
        v = st.mem.get(root)
        for e in path:
            v = self.project(st, v, e)
            if v is None:
                break
        return v

    def write(self, st, root, path, val, site=None):
        cur = st.mem.get(root)
        st.mem[root] = self.update(st, cur, path, val)
        if root[0] == 'O':
            st.events.append(('store', root[1], tuple(self._pkey(e) for e in path), val, site))

    def _pkey(self, e):
        if e[0] == 'f':
            return ('f', e[2], e[4])
        if e[0] == 'd':
            return ('d', e[2])
        return ('i', e[1])

    # ------------------------------------------------------------- operands
    def operand(self, st, fr, o):
        k = o['k']
        if k in ('copy', 'move'):
            root, path, view = self.resolve_place(st, fr, o['place'])
            v = self.read(st, root, path)
            if v is None:
                ty = self.place_ty(fr, o['place'])
                v = st.fresh(type_bits(ty), 'undef')
            return v
        if k == 'const':
            it = int_type(o['ty'])
            if it:
                return C(it[0], o['val'])
            return S(0, 'const:%s:%d' % (o['ty'], o['val']))
        if k == 'fn':
            return ('fn', o['path'])
        if k == 'constx':
            if o['ty'] == '()' or 'ZeroSized' in o.get('repr', ''):
                if 'bytes' not in o:
                    return T.UNIT
            if 'bytes' in o:
                b = o['bytes']
                if o['ty'] in ('&str', '&&str'):
                    return ('str', bytes(b).decode('utf-8', 'replace'))
                tyname = o['ty']
                isref = tyname.startswith('&')
                base = tyname.lstrip('&').replace('mut ', '').strip()
                adt = self.adts.get(base)
                if adt and adt['kind'] == 'enum' and all(not v.get('fields') for v in adt['variants']):
                    # a constant of a field-less enum (e.g. the promoted `&State::Variant` of a derived ==)
                    n = max(1, min(len(b), adt.get('size', 1) or 1))
                    d = int.from_bytes(bytes(b[:n]), 'little')
                    hit = [(i, v) for i, v in enumerate(adt['variants']) if v['discr'] == d]
                    if hit:
                        val = ('agg', ('adt', base, hit[0][0], hit[0][1]['name']), ())
                        if not isref:
                            return val
                        st.n['obj'] += 1
                        root = ('O', 'constalloc#%d' % st.n['obj'])
                        st.mem[root] = val
                        return ('ref', root, ())
                if o.get('fnptrs') and len(b) % 8 == 0 and len(o['fnptrs']) == len(b) // 8 and \
                        sorted(x[0] for x in o['fnptrs']) == list(range(0, len(b), 8)):
                    # a table of function pointers (e.g. constructors chosen by an index)
                    byoff = dict((x[0], x[1]) for x in o['fnptrs'])
                    arr = ('agg', ('array',), tuple(('fn', byoff[k0]) for k0 in range(0, len(b), 8)))
                    if not isref and tyname.startswith('['):
                        return arr
                    st.n['obj'] += 1
                    root = ('O', 'constalloc#%d' % st.n['obj'])
                    st.mem[root] = arr
                    if o['ty'].startswith('&[') and ';' not in o['ty']:
                        return ('slice', root, (), C(64, 0), C(64, len(arr[2])))
                    return ('ref', root, ())
                if 'elem' in o and o['elem']['size'] > 0 and o['elem']['fields'] and \
                        all(int_type(f_['ty']) or f_['ty'] == 'bool' for f_ in o['elem']['fields']) and \
                        len(b) % o['elem']['size'] == 0:
                    # a table of tuples / structs with integer fields
                    es = o['elem']['size']
                    ename = o['elem']['name']
                    ekind = ('adt', ename, 0, ename.split('::')[-1]) if ename else ('tuple',)
                    items = []
                    for k0 in range(0, len(b), es):
                        vals = []
                        for f_ in o['elem']['fields']:
                            raw = int.from_bytes(bytes(b[k0 + f_['offset']:k0 + f_['offset'] + f_['size']]), 'little')
                            bits_ = 1 if f_['ty'] == 'bool' else int_type(f_['ty'])[0]
                            vals.append(C(bits_, raw & T.mask(bits_)))
                        items.append(('agg', ekind, tuple(vals)))
                    arr = ('agg', ('array',), tuple(items))
                    if not isref and tyname.startswith('['):
                        return arr
                    st.n['obj'] += 1
                    root = ('O', 'constalloc#%d' % st.n['obj'])
                    st.mem[root] = arr
                    if o['ty'].startswith('&[') and ';' not in o['ty']:
                        return ('slice', root, (), C(64, 0), C(64, len(items)))
                    return ('ref', root, ())
                if 'struct' in o and all(int_type(f_['ty']) or f_['ty'] == 'bool' for f_ in o['struct']['fields']) and \
                        all(0 <= f_['offset'] and f_['offset'] + max(f_['size'], 0) <= len(b) for f_ in o['struct']['fields']):
                    # a struct constant whose fields are all integers: read the fields out of the allocation
                    sname = o['struct']['name']
                    vals = []
                    for f_ in o['struct']['fields']:
                        raw = int.from_bytes(bytes(b[f_['offset']:f_['offset'] + f_['size']]), 'little')
                        bits_ = 1 if f_['ty'] == 'bool' else int_type(f_['ty'])[0]
                        vals.append(C(bits_, raw & T.mask(bits_)))
                    names_ = [f_['name'] for f_ in o['struct']['fields']]
                    if sname.endswith('ops::RangeInclusive') and names_ == ['start', 'end', 'exhausted']:
                        val = ('agg', IT_RINC, tuple(vals))
                    elif not sname:
                        val = ('agg', ('tuple',), tuple(vals))
                    else:
                        val = ('agg', ('adt', sname, 0, sname.split('::')[-1]), tuple(vals))
                    if not isref:
                        return val
                    st.n['obj'] += 1
                    root = ('O', 'constalloc#%d' % st.n['obj'])
                    st.mem[root] = val
                    return ('ref', root, ())
                if 'decoded' in o:
                    # the exporter decoded the whole allocation by layout (tables of enums with payloads or niche-encoded
                    # Option<..>, nested tuples): build the value from that
                    def build(d):
                        if 'i' in d:
                            bits_ = 1 if d['ty'] == 'bool' else (32 if d['ty'] == 'char' else int_type(d['ty'])[0])
                            return C(bits_, d['i'] & T.mask(bits_))
                        if 'arr' in d:
                            return ('agg', ('array',), tuple(build(x) for x in d['arr']))
                        if 'tup' in d:
                            return ('agg', ('tuple',), tuple(build(x) for x in d['tup']))
                        return ('agg', ('adt', d['adt'], d['variant'], d['vname']), tuple(build(x) for x in d['fields']))
                    try:
                        val = build(o['decoded'])
                    except (KeyError, TypeError):
                        val = None
                    if val is not None:
                        if not isref:
                            return val
                        st.n['obj'] += 1
                        root = ('O', 'constalloc#%d' % st.n['obj'])
                        st.mem[root] = val
                        if o['ty'].startswith('&[') and ';' not in o['ty'] and val[1][0] == 'array':
                            return ('slice', root, (), C(64, 0), C(64, len(val[2])))
                        return ('ref', root, ())
                mte = re.match(r'^&*\s*\[([\w:]+)(?:;\s*\d+)?\]$', tyname)
                eadt = self.adts.get(mte.group(1)) if mte else None
                if eadt and eadt['kind'] == 'enum' and all(not v.get('fields') for v in eadt['variants']) and \
                        eadt.get('size') in (1, 2, 4, 8) and len(b) % eadt['size'] == 0:
                    # a table of field-less enum values (`const PAIRS: [Register16; 4]`): one tag per element
                    es = eadt['size']
                    items = []
                    for k0 in range(0, len(b), es):
                        d = int.from_bytes(bytes(b[k0:k0 + es]), 'little')
                        hit = [(i, v) for i, v in enumerate(eadt['variants']) if v['discr'] == d]
                        if not hit:
                            items = None
                            break
                        items.append(('agg', ('adt', mte.group(1), hit[0][0], hit[0][1]['name']), ()))
                    if items is not None:
                        arr = ('agg', ('array',), tuple(items))
                        if not isref and tyname.startswith('['):
                            return arr
                        st.n['obj'] += 1
                        root = ('O', 'constalloc#%d' % st.n['obj'])
                        st.mem[root] = arr
                        if o['ty'].startswith('&[') and ';' not in o['ty']:
                            return ('slice', root, (), C(64, 0), C(64, len(items)))
                        return ('ref', root, ())
                arr = ('agg', ('array',), tuple(C(8, x) for x in b))
                mt = re.match(r'^&*\s*\[(\w+)(?:;\s*\d+)?\]$', tyname)
                if mt and int_type(mt.group(1)) and int_type(mt.group(1))[0] > 8:
                    # constant array of wider integers: group the allocation bytes (little endian)
                    ew = int_type(mt.group(1))[0]
                    nb = ew // 8
                    arr = ('agg', ('array',), tuple(C(ew, int.from_bytes(bytes(b[i:i + nb]), 'little'))
                                                    for i in range(0, len(b) - nb + 1, nb)))
                    b = list(arr[2])
                if not isref and tyname.startswith('['):
                    return arr          # an array constant used by value
                st.n['obj'] += 1
                root = ('O', 'constalloc#%d' % st.n['obj'])
                st.mem[root] = arr
                if o['ty'].startswith('&['):
                    if ';' in o['ty']:
                        return ('ref', root, ())
                    return ('slice', root, (), C(64, 0), C(64, len(b)))
                return ('ref', root, ())
            r = o.get('repr', '')
            if o['ty'] == '&str' and r.startswith('Ty('):
                q = r.find('"')
                return ('str', r[q + 1:r.rfind('"')])
            return S(0, 'constx:' + r[:60])
        return S(0, 'operand?')

    def place_ty(self, fr, p):
        if not p['proj']:
            return fr.fn['locals'][p['local']]['ty']
        last = p['proj'][-1]
        if last['k'] == 'field':
            return last['ty']
        return ''

    # -------------------------------------------------------------- rvalues
    def rvalue(self, st, fr, rv, dest_ty):
        k = rv['k']
        if k == 'use':
            return self.operand(st, fr, rv['op'])
        if k == 'binop':
            a = self.operand(st, fr, rv['a'])
            b = self.operand(st, fr, rv['b'])
            return self.binop(st, rv['op'], a, b, rv['aty'])
        if k == 'unop':
            a = self.operand(st, fr, rv['a'])
            op = rv['op']
            if op == 'Not':
                return O(a[1], 'not', a) if is_int(a) else st.fresh(1, 'not')
            if op == 'Neg':
                return O(a[1], 'neg', a) if is_int(a) else st.fresh(0, 'neg')
            if op == 'PtrMetadata':
                if a[0] == 'slice':
                    return a[4]
                if a[0] == 's':
                    return S(64, 'len(%s)' % a[2], ('len', a[2]))
                if a[0] == 'ref':
                    tgt = self.read(st, a[1], a[2])
                    if tgt is not None and tgt[0] == 'agg':
                        return C(64, len(tgt[2]))
                    if a[1][0] == 'O':
                        return S(64, 'len(%s)' % a[1][1], ('len', a[1][1]))
                return st.fresh(64, 'ptrmeta')
            return st.fresh(type_bits(dest_ty), 'unop')
        if k == 'cast':
            return self.cast(st, fr, rv, dest_ty)
        if k == 'aggregate':
            ops = tuple(self.operand(st, fr, o) for o in rv['ops'])
            kd = rv['kind']
            if kd['k'] == 'tuple':
                return ('agg', ('tuple',), ops) if ops else T.UNIT
            if kd['k'] == 'array':
                return ('agg', ('array',), ops)
            if kd['k'] == 'adt':
                return ('agg', ('adt', kd['name'], kd['vi'], kd['variant']), ops)
            if kd['k'] == 'closure':
                return ('agg', ('closure', kd['path']), ops)
            return st.fresh(0, 'aggregate')
        if k in ('ref', 'rawptr'):
            root, path, view = self.resolve_place(st, fr, rv['place'])
            if view is not None:
                return ('slice', root, path, view[0], view[1])
            return ('ref', root, path)
        if k == 'discriminant':
            root, path, view = self.resolve_place(st, fr, rv['place'])
            v = self.read(st, root, path)
            return self.discriminant(st, v, type_bits(dest_ty) or 64)
        if k == 'repeat':
            v = self.operand(st, fr, rv['op'])
            n = rv['count']
            if 0 <= n <= 4096:
                return ('agg', ('array',), tuple([v] * n))
            return st.fresh(0, 'repeat')
        return st.fresh(type_bits(dest_ty), 'rvalue')

    def discriminant(self, st, v, bits):
        if v is None:
            return st.fresh(bits, 'discr')
        if v[0] == 'agg' and v[1][0] == 'adt':
            name, vi, vname = v[1][1], v[1][2], v[1][3]
            tbl = self.discr_cache.get(name)
            if tbl is not None:
                return C(bits, tbl[vi])
            return C(bits, vi)
        if v[0] == 's':
            return S(bits, 'discr(%s)' % v[2], ('discr', v[2]))
        if v[0] == 'snap' and v[1] is not None:
            return self.discriminant(st, v[1], bits)
        if v[0] == 'hav':
            return self.discriminant(st, v[1], bits)
        return st.fresh(bits, 'discr')

    def binop(self, st, op, a, b, aty):
        it = int_type(aty)
        if not (is_int(a) and is_int(b)) or it is None:
            if op in ('Eq', 'Ne') and a is not None and b is not None and a[0] == 'ref' and b[0] == 'ref':
                return C(1, int((a == b) == (op == 'Eq')))
            if op in ('Eq', 'Ne', 'Lt', 'Le', 'Gt', 'Ge'):
                return st.fresh(1, 'cmp')
            if op.endswith('WithOverflow'):
                return ('agg', ('tuple',), (st.fresh(it[0] if it else 64, 'arith'), st.fresh(1, 'ovf')))
            if op == 'Offset':
                return st.fresh(0, 'ptroffset')
            return st.fresh(it[0] if it else 0, 'binop')
        bits, signed = it
        if b[1] != bits and op in ('Shl', 'Shr', 'ShlUnchecked', 'ShrUnchecked'):
            # shift amount may have a different width
            b = O(bits, 'zext', b) if b[1] < bits else O(bits, 'trunc', b)
        simple = {'Add': 'add', 'Sub': 'sub', 'Mul': 'mul', 'BitAnd': 'and', 'BitOr': 'or', 'BitXor': 'xor',
                  'AddUnchecked': 'add', 'SubUnchecked': 'sub', 'MulUnchecked': 'mul',
                  'Shl': 'shl', 'ShlUnchecked': 'shl'}
        if op in simple:
            return O(bits, simple[op], a, b)
        if op in ('Shr', 'ShrUnchecked'):
            return O(bits, 'sar' if signed else 'shr', a, b)
        if op in ('Div', 'Rem'):
            if signed:
                return st.fresh(bits, 'sdiv')
            return O(bits, 'udiv' if op == 'Div' else 'urem', a, b)
        cmpm = {'Eq': 'eq', 'Ne': 'ne'}
        if op in cmpm:
            return O(1, cmpm[op], a, b)
        if op in ('Lt', 'Le', 'Gt', 'Ge'):
            pre = 's' if signed else 'u'
            return O(1, pre + {'Lt': 'lt', 'Le': 'le', 'Gt': 'gt', 'Ge': 'ge'}[op], a, b)
        if op in ('AddWithOverflow', 'SubWithOverflow', 'MulWithOverflow'):
            base = op[:3].lower()
            if signed:
                return ('agg', ('tuple',), (O(bits, base, a, b), O(1, 's' + base + '_ovf', a, b)))
            return ('agg', ('tuple',), (O(bits, base, a, b), O(1, base + '_ovf', a, b)))
        if op == 'Cmp':
            return st.fresh(8, 'cmp3')
        return st.fresh(bits, 'binop_' + op)

    def cast(self, st, fr, rv, dest_ty):
        v = self.operand(st, fr, rv['op'])
        kind = rv['kind']
        fty, tty = rv['from'], rv['to']
        if kind == 'IntToInt':
            fi, ti = int_type(fty), int_type(tty)
            if fi and ti and is_int(v):
                fb, fs = fi
                tb, ts = ti
                if tb == fb:
                    return v
                if tb < fb:
                    return O(tb, 'trunc', v)
                return O(tb, 'sext' if fs else 'zext', v)
            return st.fresh(type_bits(tty), 'cast')
        if kind.startswith('PointerCoercion'):
            if rv.get('fn'):
                return ('fn', rv['fn'])
            if 'Unsize' in kind:
                # &[T; N] -> &[T]  /  Box<T> -> Box<dyn Trait>
                if v is not None and v[0] == 'ref' and fty.startswith('&') and '[' in fty and ';' in fty:
                    n = int(fty[fty.rfind(';') + 1:fty.rfind(']')].strip().replace('_usize', ''))
                    return ('slice', v[1], v[2], C(64, 0), C(64, n))
                if v is not None and v[0] == 'ref' and 'dyn ' in tty:
                    inner = fty
                    for pre in ('std::boxed::Box<', '&mut ', '&', '*mut ', '*const '):
                        if inner.startswith(pre):
                            inner = inner[len(pre):]
                            break
                    inner = inner.rstrip('>')
                    if not inner.startswith('dyn '):
                        st.dyn[(v[1], v[2])] = inner
                    return v
            return v
        if kind in ('PtrToPtr', 'Transmute', 'FnPtrToPtr'):
            ti = int_type(tty)
            if ti and not is_int(v):
                return self.ptr_to_int(st, v, ti[0])
            if ti and is_int(v):
                if v[1] == ti[0]:
                    return v
                return st.fresh(ti[0], 'transmute')
            return v
        if kind == 'PointerExposeProvenance':
            return self.ptr_to_int(st, v, type_bits(tty) or 64)
        if kind == 'PointerWithExposedProvenance':
            if is_int(v) and v[0] == 's' and v[3] and v[3][0] == 'addr':
                return v[3][1]
            return S(0, 'ptr_from_int(%s)' % fmt(v), ('int2ptr', v))
        return st.fresh(type_bits(tty), 'cast_' + kind)

    def ptr_to_int(self, st, v, bits):
        if v is None:
            return st.fresh(bits, 'addr')
        if v[0] == 'fn':
            return S(bits, 'fnaddr(%s)' % v[1], ('fnaddr', v[1]))
        if v[0] == 's':
            return S(bits, 'addr(%s)' % v[2], ('addr', v))
        if v[0] in ('ref', 'slice'):
            return S(bits, 'addr(%s)' % fmt(v), ('addr', v))
        return st.fresh(bits, 'addr')

    # ---------------------------------------------------------------- calls
    def call_fn(self, fname, args, st, depth, site):
        """generator of Result for calling crate function `fname`."""
        fn = self.fns.get(fname)
        if fn is None:
            raise Abort('unknown function ' + fname)
        if depth > self.max_depth:
            yield Result('abort', None, st, site, 'inlining depth exceeded at ' + fname)
            return
        st.n['frame'] += 1
        fr = Frame(fname, fn, st.n['frame'], depth)
        for i, a in enumerate(args):
            st.mem[('L', fr.uid, i + 1)] = a
        nloc = len(fn['locals'])
        for r in self.exec_from(fr, 0, st):
            if r.status == 'ok' and depth > 0:       # the entry frame's locals stay readable in the result
                m = r.state.mem
                for i in range(nloc):
                    m.pop(('L', fr.uid, i), None)
            yield r

    def exec_from(self, fr, bb, st):
        fn = fr.fn
        while True:
            fr.visits[bb] = fr.visits.get(bb, 0) + 1
            if fr.visits[bb] > 5000:
                yield Result('loop', None, st, (fr.fname, 0, bb), 'block revisit limit')
                return
            if self.loop_mode == 'havoc' and bb in self.loops_of(fr.fname):
                if bb in fr.havoced:
                    fr.passes[bb] = fr.passes.get(bb, 0) + 1
                    if fr.passes[bb] > self.extra_iterations:
                        # back at the head: this iteration is covered by the havoced state
                        yield Result('loopback', None, st, (fr.fname, 0, bb), 'loop iteration')
                        return
                    # loops nested in this one start afresh in the new iteration (summarised again, with new symbols)
                    inner = self.loops_of(fr.fname).get(bb, ())
                    for b_ in inner:
                        if b_ != bb:
                            fr.visits.pop(b_, None)
                    for h in list(fr.havoced):
                        if h != bb and h in inner:
                            fr.havoced.discard(h)
                            fr.passes.pop(h, None)
                            fr.gen[h] = fr.gen.get(h, 0) + 1
                    st.events.append(('iteration', fr.fname, bb, fr.passes[bb],
                                      tuple(sorted(((k[2], v) for k, v in st.mem.items()
                                                    if k[0] == 'L' and k[1] == fr.uid), key=lambda kv: kv[0]))))
                elif self.always_summarise or self._loop_needs_havoc(st, fr, bb):
                    fr.havoced.add(bb)
                    self.havoc_loop(st, fr, bb)
            block = fn['blocks'][bb]
            try:
                for s in block['stmts']:
                    st.steps += 1
                    self.stmt(st, fr, s, bb)
                if st.steps > self.step_limit:
                    yield Result('abort', None, st, (fr.fname, 0, bb), 'step limit')
                    return
                t = block['term']
                k = t['k']
                site = (fr.fname, t['line'], bb)
                if k == 'goto':
                    bb = t['target']
                    continue
                if k == 'return':
                    ret = st.mem.get(('L', fr.uid, 0))
                    if ret is None:
                        rty = fn['locals'][0]['ty']
                        ret = T.UNIT if rty == '()' else st.fresh(type_bits(rty), 'ret')
                    yield Result('ok', ret, st, site)
                    return
                if k == 'drop':
                    bb = t['target']
                    continue
                if k == 'unreachable':
                    yield Result('unreachable', None, st, site)
                    return
                if k == 'switch':
                    d = self.operand(st, fr, t['discr'])
                    choices = self.switch_targets(st, d, t)
                    if len(choices) == 1 and choices[0][1] is None:
                        bb = choices[0][0]
                        continue
                    if fr.visits[bb] > self.revisit_limit and len(choices) > 1:
                        yield Result('loop', None, st, site, 'undecided branch inside a loop')
                        return
                    n = len(choices)
                    for j, (tgt, refine) in enumerate(choices):
                        st2 = st if j == n - 1 else st.copy()
                        fr2 = fr if j == n - 1 else fr.copy()
                        if refine is not None and not refine(st2.env):
                            continue
                        st2.decisions.append((d, tgt, site))
                        yield from self.exec_from(fr2, tgt, st2)
                    return
                if k == 'assert':
                    akind = t['akind']
                    if akind in self.skip_asserts:
                        st.events.append(('assert_skipped', akind, site))
                        bb = t['target']
                        continue
                    c = self.operand(st, fr, t['cond'])
                    exp = 1 if t['expected'] else 0
                    cv = st.env.const_of(c) if is_int(c) else None
                    detail = self.assert_detail(st, fr, t)
                    split = self.table_index_split(st, fr, t) if (cv == exp and fr.visits[bb] <= self.revisit_limit) else None
                    if split:
                        st.events.append(('assert', akind, site, 'discharged', detail))
                        for j, (idx_, val_) in enumerate(split):
                            last = j == len(split) - 1
                            s2 = st if last else st.copy()
                            if not s2.env.assume_eq(idx_, val_):
                                continue
                            s2.decisions.append((O(1, 'eq', idx_, C(idx_[1], val_)), 'table', site))
                            yield from self.exec_from(fr if last else fr.copy(), t['target'], s2)
                        return
                    if cv is not None:
                        if cv == exp:
                            st.events.append(('assert', akind, site, 'discharged', detail))
                            bb = t['target']
                            continue
                        st.events.append(('assert', akind, site, 'fails', detail))
                        yield Result('panic', None, st, site, 'assert ' + akind)
                        return
                    if akind in self.trust_asserts or akind.split(':')[0] in self.trust_asserts:
                        st.events.append(('assert', akind, site, 'trusted', detail))
                        if is_int(c):
                            st.env.assume_eq(c, exp)
                        bb = t['target']
                        continue
                    if self.precise and is_int(c):
                        from . import bvproof
                        if bvproof.equal_under(c, C(c[1], exp), st.env, c[1]) is True:
                            st.events.append(('assert', akind, site, 'discharged', detail))
                            st.env.assume_eq(c, exp)
                            bb = t['target']
                            continue
                    # undecided: fork
                    st_fail = st.copy()
                    if is_int(c) and st_fail.env.assume_eq(c, 1 - exp):
                        st_fail.events.append(('assert', akind, site, 'may_fail', detail))
                        yield Result('panic', None, st_fail, site, 'assert ' + akind)
                    st.events.append(('assert', akind, site, 'may_fail', detail))
                    if is_int(c) and not st.env.assume_eq(c, exp):
                        return
                    bb = t['target']
                    continue
                if k == 'call':
                    nxt = t['target']
                    outs = list(self.do_call(st, fr, t, site))
                    if len([o for o in outs if o[2] == 'ok']) > 1 and fr.visits[bb] > self.revisit_limit:
                        # a modelled call that forks (Range::next, Option-returning helpers) inside a loop that is
                        # being unrolled: same treatment as an undecided switch
                        yield Result('loop', None, st, site, 'undecided branch inside a loop')
                        return
                    for (ret, st2, status, detail) in outs:
                        if status != 'ok':
                            yield Result(status, None, st2, site, detail)
                            continue
                        if nxt < 0:
                            yield Result('diverge', None, st2, site, 'call does not return')
                            continue
                        fr2 = fr if st2 is st else fr.copy()
                        root, path, view = self.resolve_place(st2, fr2, t['dest'])
                        self.write(st2, root, path, ret, site)
                        yield from self.exec_from(fr2, nxt, st2)
                    return
                yield Result('abort', None, st, site, 'unsupported terminator ' + k)
                return
            except Abort as e:
                yield Result('abort', None, st, (fr.fname, block['term']['line'], bb), e.why)
                return

    def _loop_needs_havoc(self, st, fr, head):
        """loops whose trip count is concretely decided are simply unrolled"""
        fn = fr.fn
        # peek: does the head's (or the first branching block's) condition fold to a constant right now?
        body = self.loops_of(fr.fname)[head]
        b = head
        seen = set()
        while b in body and b not in seen:
            seen.add(b)
            t = fn['blocks'][b]['term']
            if t['k'] == 'switch':
                probe = st.copy()
                pfr = fr.copy()
                try:
                    for s in fn['blocks'][b]['stmts']:
                        self.stmt(probe, pfr, s, b)
                    d = self.operand(probe, pfr, t['discr'])
                except Abort:
                    return True
                return not (is_int(d) and probe.env.const_of(d) is not None)
            if t['k'] == 'goto':
                b = t['target']
                continue
            if t['k'] == 'call':
                # e.g. Range::next: decided when the range is concrete
                callee = t['resolved'] or t['callee']
                if 'Iterator' in callee and 'next' in callee:
                    try:
                        a0 = self.operand(st, fr, t['args'][0])
                        rng = self.read(st, a0[1], a0[2]) if a0 is not None and a0[0] == 'ref' else None
                    except Abort:
                        rng = None
                    if rng is not None and rng[0] == 'agg' and len(rng[2]) == 2 and all(
                            is_int(x) and st.env.const_of(x) is not None for x in rng[2]):
                        return False
                return True
            return True
        return True

    def table_index_split(self, st, fr, t):
        """A bounds check that guards an index into a small constant table (`const PAGES: [Kind; 16]` indexed by
        `addr >> 12`): -> [(index term, value)] for a case split over the feasible index values, or None.  The split makes
        the looked-up element concrete on each path (and refines the index expression's operands)."""
        if t.get('akind') != 'bounds' or 'index' not in t or 'len' not in t:
            return None
        ln = t['len']
        if ln.get('k') != 'const' or not isinstance(ln.get('val'), int) or not 2 <= ln['val'] <= 32:
            return None
        io = t['index']
        if io.get('k') not in ('copy', 'move') or io['place']['proj']:
            return None
        il = io['place']['local']
        idx = self.operand(st, fr, io)
        if not is_int(idx) or st.env.const_of(idx) is not None:
            return None
        tgt = fr.fn['blocks'][t['target']]
        arr_local = None
        for s_ in tgt['stmts'][:3]:
            if s_['k'] != 'assign':
                continue
            rv = s_['rv']
            pl = rv['op'].get('place') if rv['k'] == 'use' and rv['op']['k'] in ('copy', 'move') else None
            if pl and len(pl['proj']) == 1 and pl['proj'][0].get('k') == 'index' and pl['proj'][0].get('local') == il:
                arr_local = pl['local']
                break
        if arr_local is None:
            return None
        try:
            root, path, view = self.resolve_place(st, fr, {'local': arr_local, 'proj': []})
            arr = self.read(st, root, path)
        except Abort:
            return None

        def constant(v):
            return v is not None and (v[0] == 'c' or (v[0] == 'agg' and all(constant(x) for x in v[2])))
        if arr is None or arr[0] != 'agg' or arr[1][0] != 'array' or len(arr[2]) != ln['val'] or not constant(arr):
            return None
        if all(is_int(x) for x in arr[2]):
            return None         # integer tables stay symbolic (an element symbol); enum / tuple tables need the split
        if st.n.get('tsplit', 0) >= 3:
            return None         # at most three nested splits on one path (bounded blow-up)
        st.n['tsplit'] = st.n.get('tsplit', 0) + 1
        return [(idx, i) for i in range(ln['val']) if st.env.possible(idx, i)]

    def assert_detail(self, st, fr, t):
        try:
            if 'index' in t:
                return ('bounds', self.operand(st, fr, t['index']), self.operand(st, fr, t['len']))
            if 'a' in t and 'b' in t:
                return ('arith', self.operand(st, fr, t['a']), self.operand(st, fr, t['b']))
        except Abort:
            pass
        return None

    def switch_targets(self, st, d, t):
        """-> list of (target_bb, refine_fn or None)"""
        if not is_int(d):
            # unknown discriminant of a non-integer: all targets possible
            return [(b, None) for _, b in t['targets']] + [(t['otherwise'], None)]
        cv = st.env.const_of(d)
        vals = [v for v, _ in t['targets']]
        if cv is not None:
            for v, b in t['targets']:
                if v == cv:
                    return [(b, None)]
            return [(t['otherwise'], None)]
        av = st.env.av(d)
        out = []
        for v, b in t['targets']:
            if st.env.possible(d, v):
                out.append((b, (lambda env, v=v: env.assume_eq(d, v))))
        # otherwise: feasible if some value in av outside vals
        span = av.hi - av.lo + 1
        other_possible = True
        if span <= 512:
            other_possible = any(st.env.possible(d, x) and x not in vals for x in range(av.lo, av.hi + 1))
        if other_possible:
            def ref_other(env, vals=vals):
                ok = True
                for v in vals:
                    ok = ok and env.assume_ne(d, v)
                return ok
            out.append((t['otherwise'], ref_other))
        if len(out) == 1:
            # single feasible target: apply its refinement in place
            tgt, rf = out[0]
            rf(st.env)
            return [(tgt, None)]
        return out

    def stmt(self, st, fr, s, bb):
        if s['k'] == 'assign':
            p = s['place']
            ty = self.place_ty(fr, p)
            val = self.rvalue(st, fr, s['rv'], ty)
            root, path, view = self.resolve_place(st, fr, p)
            self.write(st, root, path, val, (fr.fname, s['line'], bb))
        elif s['k'] == 'setdiscr':
            raise Abort('SetDiscriminant not modelled')

    def do_call(self, st, fr, t, site):
        """generator of (ret, state, status, detail)"""
        args = [self.operand(st, fr, a) for a in t['args']]
        callee = t['resolved'] or t['callee']
        dest_ty = self.place_ty(fr, t['dest'])
        if not callee:
            f = self.operand(st, fr, t['func'])
            if f is not None and f[0] == 'fn' and f[1] in self.fns:
                callee = f[1]
            elif f is not None and f[0] == 'fn' and self.variant_ctor(f[1]) is not None:
                # a tuple-variant / tuple-struct constructor used as a function value
                kind = self.variant_ctor(f[1])
                yield (('agg', kind, tuple(args)), st, 'ok', None)
                return
            else:
                st.events.append(('indirect_call', f, tuple(args), site))
                yield (st.fresh(type_bits(dest_ty), 'indirect_ret'), st, 'ok', None)
                return
        if self.on_call:
            self.on_call(st, callee, args, site)
        for p in PANIC_FNS:
            if callee == p or callee.startswith(p + '::') or callee.startswith(p + '<'):
                st.events.append(('panic', callee, site))
                yield (None, st, 'panic', callee)
                return
        if t['ckind'] == 'virtual':
            yield from self.dyn_call(st, fr, t, args, site, dest_ty)
            return
        if callee in self.opaque:
            ret = T.UNIT if dest_ty == '()' else st.fresh(type_bits(dest_ty), 'ret:' + callee.split('::')[-1])
            st.events.append(('call', callee, tuple(args), ret, site))
            if callee in self.opaque_havoc:
                f2, u2 = self.modset(callee)
                self.wrap_havoc(st, f2, u2, 'call(%s)' % callee.split('::')[-1])
            yield (ret, st, 'ok', None)
            return
        if callee in self.fns:
            if t['callee'] in ('std::ops::Fn::call', 'std::ops::FnMut::call_mut', 'std::ops::FnOnce::call_once') and \
                    '{closure' in callee and len(args) == 2:
                # a direct closure call passes the arguments as one tuple; the closure body takes them spread
                tup = args[1]
                if tup == T.UNIT:
                    args = [args[0]]
                elif tup is not None and tup[0] == 'agg' and tup[1] == ('tuple',):
                    args = [args[0]] + list(tup[2])
            for r in self.call_fn(callee, args, st, fr.depth + 1, site):
                if r.status == 'ok':
                    yield (r.ret, r.state, 'ok', None)
                else:
                    yield (None, r.state, r.status, (r.where, r.detail))
            return
        model = self.find_model(callee)
        if model is not None:
            yield from model(self, st, fr, t, args, site, dest_ty)
            return
        if callee.endswith('::ne') and 'PartialEq' in callee:
            # the provided method PartialEq::ne is !eq: use the crate's (derived) eq of the same type
            cands = [callee[:-4] + '::eq']
            for a in args:
                ty = None
                if a is not None and a[0] == 'ref':
                    v = self.read(st, a[1], a[2]) if True else None
                    if v is not None and v[0] == 'agg' and v[1][0] == 'adt':
                        ty = v[1][1]
                if ty:
                    cands.append('<%s as std::cmp::PartialEq>::eq' % ty)
            for gen in (t.get('generics') or []):
                cands.append('<%s as std::cmp::PartialEq>::eq' % gen)
            for lt in (fr.fn['locals'][a_['place']['local']]['ty'] for a_ in t['args'] if a_['k'] in ('copy', 'move')):
                base = lt.lstrip('&').replace('mut ', '').strip()
                cands.append('<%s as std::cmp::PartialEq>::eq' % base)
            eqf = next((c for c in cands if c in self.fns), None)
            if eqf is not None:
                for r in self.call_fn(eqf, args, st, fr.depth + 1, site):
                    if r.status == 'ok' and r.ret is not None and is_int(r.ret):
                        yield (O(1, 'eq', r.ret, C(r.ret[1], 0)), r.state, 'ok', None)
                    elif r.status == 'ok':
                        yield (r.state.fresh(1, 'ne'), r.state, 'ok', None)
                    else:
                        yield (None, r.state, r.status, (r.where, r.detail))
                return
        yield from self.unknown_external(st, callee, args, site, dest_ty, t)

    def variant_ctor(self, path):
        """('adt', name, index, variant) when `path` names a variant of a crate enum (its constructor function)"""
        if '::' not in path:
            return None
        adt, var = path.rsplit('::', 1)
        a = self.adts.get(adt)
        if a and a.get('kind') == 'enum':
            for i, v in enumerate(a['variants']):
                if v['name'] == var:
                    return ('adt', adt, i, var)
        return None

    def unknown_external(self, st, callee, args, site, dest_ty, t):
        # unknown external callee: havoc what it may write, return a fresh symbol
        st.events.append(('extcall', callee, tuple(args), site, snapshot_args(self, st, args)))
        for a in args:
            self.havoc_pointee(st, a, t)
        ret = T.UNIT if dest_ty == '()' else st.fresh(type_bits(dest_ty), 'ext:' + callee.split('::')[-1])
        yield (ret, st, 'ok', None)

    def havoc_pointee(self, st, a, t=None):
        if a is None:
            return
        if a[0] == 's' and a[1] == 0:
            root = ('O', a[2])
            if root in st.mem:
                st.mem[root] = st.fresh(0, 'havoc')
            return
        if a[0] in ('ref', 'slice'):
            root, path = a[1], a[2]
            cur = st.mem.get(root)
            st.mem[root] = self.update(st, cur, path, st.fresh(0, 'havoc')) if path else st.fresh(0, 'havoc')
        elif a[0] == 'agg':
            for x in a[2]:
                self.havoc_pointee(st, x)

    def find_model(self, callee):
        m = self.models.get(callee)
        if m:
            return m
        m = int_method_model(callee)
        if m:
            self.models[callee] = m
            return m
        for key, fn in self.models.items():
            if key.endswith('*') and callee.startswith(key[:-1]):
                return fn
        if callee.startswith('<') and callee.endswith(' as std::iter::Iterator>::next'):
            return m_iter_next
        return None

    def dyn_call(self, st, fr, t, args, site, dest_ty):
        recv = args[0]
        method = t['callee'].split('::')[-1]
        impls = t['impls']
        key = None
        if recv is not None and recv[0] == 'ref':
            key = (recv[1], recv[2])
        elif recv is not None and recv[0] == 's':
            key = ('sym', recv[2])
        bound = st.dyn.get(key) if key is not None else None
        cands = []
        for imp in impls:
            # '<cart::MBC1CartState as cart::CartState>::get_rom_bank' or trait default 'cart::CartState::get_rom_bank'
            if imp.startswith('<'):
                tyname = imp[1:imp.index(' as ')]
            else:
                tyname = None
            cands.append((tyname, imp))
        # the set of implementing types is the set of types with explicit impls of the trait;
        # trait-default entries stand for impl types that do not override the method
        all_types = self.trait_impl_types(t['callee'])
        chosen = []
        for ty in all_types:
            if bound is not None and bound != ty:
                continue
            if self.dyn_filter is not None and not self.dyn_filter(t['callee'], ty):
                continue
            target = None
            for tyname, imp in cands:
                if tyname == ty:
                    target = imp
            if target is None:
                for tyname, imp in cands:
                    if tyname is None:
                        target = imp
            chosen.append((ty, target))
        if not chosen:
            st.events.append(('extcall', t['callee'], tuple(args), site))
            yield (st.fresh(type_bits(dest_ty), 'dyn'), st, 'ok', None)
            return
        n = len(chosen)
        for j, (ty, target) in enumerate(chosen):
            st2 = st if j == n - 1 else st.copy()
            if key is not None:
                st2.dyn[key] = ty
            st2.events.append(('dyn', t['callee'], ty, site))
            if target in self.opaque or target not in self.fns:
                ret = st2.fresh(type_bits(dest_ty), 'ret:' + method)
                st2.events.append(('call', target, tuple(args), ret, site))
                yield (ret, st2, 'ok', None)
                continue
            for r in self.call_fn(target, args, st2, fr.depth + 1, site):
                if r.status == 'ok':
                    yield (r.ret, r.state, 'ok', None)
                else:
                    yield (None, r.state, r.status, (r.where, r.detail))

    def trait_impl_types(self, method_path):
        """Types implementing the trait that owns `method_path` (from impl method names in the crate)."""
        trait = method_path.rsplit('::', 1)[0]
        cache = self.facts.setdefault('_impl_types_cache', {})
        if trait in cache:
            return cache[trait]
        tys = set()
        for name in self.fns:
            if name.startswith('<') and (' as %s>::' % trait) in name:
                tys.add(name[1:name.index(' as ')])
        # types whose impl block is empty have no functions; find them through Unsize casts
        for fname, f in self.fns.items():
            for b in f['blocks']:
                for s in b['stmts']:
                    if s['k'] == 'assign' and s['rv']['k'] == 'cast' and 'Unsize' in s['rv']['kind'] \
                            and ('dyn ' + trait) in s['rv']['to']:
                        inner = s['rv']['from']
                        for pre in ('std::boxed::Box<', '&mut ', '&'):
                            if inner.startswith(pre):
                                inner = inner[len(pre):]
                        inner = inner.rstrip('>')
                        if not inner.startswith('dyn '):
                            tys.add(inner)
        cache[trait] = sorted(tys)
        return cache[trait]


# ---------------------------------------------------------------------------
# models of std items (closed list)


def _ret(st, v):
    yield (v, st, 'ok', None)


def m_wrapping(op):
    def f(ip, st, fr, t, args, site, dest_ty):
        a, b = args
        if is_int(a) and is_int(b):
            yield (O(a[1], op, a, b), st, 'ok', None)
        else:
            yield (st.fresh(type_bits(dest_ty), 'wrapping'), st, 'ok', None)
    return f


def m_overflowing(op):
    def f(ip, st, fr, t, args, site, dest_ty):
        a, b = args
        if is_int(a) and is_int(b):
            yield (('agg', ('tuple',), (O(a[1], op, a, b), O(1, op + '_ovf', a, b))), st, 'ok', None)
        else:
            yield (('agg', ('tuple',), (st.fresh(8, 'ov'), st.fresh(1, 'ovf'))), st, 'ok', None)
    return f


INT_TYS = {'u8': (8, False), 'u16': (16, False), 'u32': (32, False), 'u64': (64, False), 'usize': (64, False),
           'u128': (128, False), 'i8': (8, True), 'i16': (16, True), 'i32': (32, True), 'i64': (64, True),
           'isize': (64, True), 'i128': (128, True)}
_INT_METHOD = re.compile(r"^core::num::<impl (\w+)>::(\w+)$")
_INT_FROM = re.compile(r"^<(\w+) as (?:std|core)::convert::From<(\w+)>>::from$")
_INT_FROM2 = re.compile(r"^(?:std|core)::convert::num::<impl (?:std|core)::convert::From<(\w+)> for (\w+)>::from$")


def _tuple2(a, b):
    return ('agg', ('tuple',), (a, b))


# the forwarding operator impls on references: <&usize as Mul<usize>>::mul, <u8 as BitAnd<&u8>>::bitand, ...
_INT_DEFAULT = re.compile(r'^<(\w+) as std::default::Default>::default$')
_REF_OP = re.compile(r"^<(&(?:'\w+ )?)?(\w+) as std::ops::(\w+)<(&(?:'\w+ )?)?(\w+)>>::(\w+)$")
_OPS = {'Add': ('add', True), 'Sub': ('sub', True), 'Mul': ('mul', True), 'BitAnd': ('and', False), 'BitOr': ('or', False),
        'BitXor': ('xor', False), 'Div': ('udiv', False), 'Rem': ('urem', False)}


def ref_operator_model(bits, signed, opname):
    if opname not in _OPS or signed:
        return None
    op, checked = _OPS[opname]

    def model(ip, st, fr, t, args, site, dest_ty):
        vals = []
        for a in args:
            if a is not None and a[0] == 'ref':
                a = ip.read(st, a[1], a[2])
            vals.append(a)
        if len(vals) != 2 or not all(is_int(v) and v[1] == bits for v in vals):
            yield from ip.unknown_external(st, t['resolved'] or t['callee'], args, site, dest_ty, t)
            return
        a, b = vals
        if op in ('udiv', 'urem'):
            z = st.env.const_of(O(1, 'eq', b, C(bits, 0)))
            if z != 0:
                if 'div_zero' in ip.trust_asserts or 'overflow' in ip.trust_asserts:
                    st.env.assume_eq(O(1, 'eq', b, C(bits, 0)), 0)
                else:
                    sf = st.copy()
                    if sf.env.assume_eq(O(1, 'eq', b, C(bits, 0)), 1):
                        sf.events.append(('assert', 'div_zero', site, 'may_fail', ('div_zero', b)))
                        yield (None, sf, 'panic', 'assert div_zero')
                    if not st.env.assume_eq(O(1, 'eq', b, C(bits, 0)), 0):
                        return
        if checked:
            ovf = O(1, op + '_ovf', a, b)
            cv = st.env.const_of(ovf)
            akind = 'overflow:' + opname
            if cv == 1:
                st.events.append(('assert', akind, site, 'fails', ('overflow', a, b)))
                yield (None, st, 'panic', 'assert ' + akind)
                return
            if cv is None:
                if 'overflow' in ip.trust_asserts:
                    st.events.append(('assert', akind, site, 'trusted', ('overflow', a, b)))
                    st.env.assume_eq(ovf, 0)
                else:
                    sf = st.copy()
                    if sf.env.assume_eq(ovf, 1):
                        sf.events.append(('assert', akind, site, 'may_fail', ('overflow', a, b)))
                        yield (None, sf, 'panic', 'assert ' + akind)
                    st.events.append(('assert', akind, site, 'may_fail', ('overflow', a, b)))
                    if not st.env.assume_eq(ovf, 0):
                        return
            else:
                st.events.append(('assert', akind, site, 'discharged', ('overflow', a, b)))
        yield (O(bits, op, a, b), st, 'ok', None)
    return model


def int_method_model(callee):
    """exact models of the inherent integer methods (core::num::<impl T>::m) and the lossless From conversions"""
    mm = _INT_FROM.match(callee)
    dst_src = None
    if mm:
        dst_src = (mm.group(1), mm.group(2))
    else:
        mm = _INT_FROM2.match(callee)
        if mm:
            dst_src = (mm.group(2), mm.group(1))
    if dst_src and dst_src[0] in INT_TYS and dst_src[1] in INT_TYS | {'bool': 0}:
        dbits = INT_TYS[dst_src[0]][0]
        ssigned = INT_TYS.get(dst_src[1], (1, False))[1]

        def conv(ip, st, fr, t, args, site, dest_ty):
            a = args[0]
            if is_int(a):
                yield (O(dbits, 'sext' if ssigned else 'zext', a) if a[1] != dbits else a, st, 'ok', None)
            else:
                yield (st.fresh(dbits, 'from'), st, 'ok', None)
        return conv
    mm = _INT_DEFAULT.match(callee)
    if mm and (mm.group(1) in INT_TYS or mm.group(1) == 'bool'):
        dbits0 = INT_TYS[mm.group(1)][0] if mm.group(1) in INT_TYS else 1

        def default_model(ip, st, fr, t, args, site, dest_ty):
            yield (C(dbits0, 0), st, 'ok', None)
        return default_model
    mm = _REF_OP.match(callee)
    if mm and mm.group(2) in INT_TYS and mm.group(5) == mm.group(2) and mm.group(3).lower() == mm.group(6).replace('_', ''):
        return ref_operator_model(INT_TYS[mm.group(2)][0], INT_TYS[mm.group(2)][1], mm.group(3))
    mm = _INT_METHOD.match(callee)
    if not mm or mm.group(1) not in INT_TYS:
        return None
    bits, signed = INT_TYS[mm.group(1)]
    meth = mm.group(2)
    if meth in ('to_le_bytes', 'to_be_bytes', 'to_ne_bytes', 'from_le_bytes', 'from_be_bytes', 'from_ne_bytes'):
        big = '_be_' in meth
        n = bits // 8

        def bytes_model(ip, st, fr, t, args, site, dest_ty):
            a = args[0] if args else None
            if meth.startswith('to_') and is_int(a):
                parts = [O(8, 'trunc', O(bits, 'shr', a, C(bits, 8 * i))) if i else O(8, 'trunc', a) for i in range(n)]
                if big:
                    parts.reverse()
                yield (('agg', ('array',), tuple(parts)), st, 'ok', None)
                return
            if meth.startswith('from_') and a is not None and a[0] == 'agg' and len(a[2]) == n and all(is_int(x) for x in a[2]):
                parts = list(a[2])
                if big:
                    parts.reverse()
                out = O(bits, 'zext', parts[0]) if bits > 8 else parts[0]
                for i in range(1, n):
                    out = O(bits, 'or', out, O(bits, 'shl', O(bits, 'zext', parts[i]), C(bits, 8 * i)))
                yield (out, st, 'ok', None)
                return
            st.events.append(('extcall', callee, tuple(args), site))
            yield (st.fresh(type_bits(dest_ty), 'ext:' + meth), st, 'ok', None)
        return bytes_model
    if meth in ('checked_add', 'checked_sub', 'checked_mul') and not signed:
        opn = meth[8:]

        def checked_model(ip, st, fr, t, args, site, dest_ty):
            if len(args) == 2 and all(is_int(x) for x in args):
                a, b = args
                ov = O(1, opn + '_ovf', a, b)
                opt = 'std::option::Option'
                s2 = st.copy()
                if s2.env.assume_eq(ov, 1):
                    yield (('agg', ('adt', opt, 0, 'None'), ()), s2, 'ok', None)
                if st.env.assume_eq(ov, 0):
                    yield (('agg', ('adt', opt, 1, 'Some'), (O(bits, opn, a, b),)), st, 'ok', None)
                return
            st.events.append(('extcall', callee, tuple(args), site))
            yield (st.fresh(0, 'ext:' + meth), st, 'ok', None)
        return checked_model

    if meth in ('checked_rem', 'checked_div') and not signed:
        opd = 'urem' if meth == 'checked_rem' else 'udiv'

        def checked_divrem(ip, st, fr, t, args, site, dest_ty):
            if len(args) == 2 and all(is_int(x) for x in args):
                a, b = args
                opt = 'std::option::Option'
                s2 = st.copy()
                if s2.env.assume_eq(b, 0):
                    s2.decisions.append((O(1, 'eq', b, C(b[1], 0)), 'checked', site))
                    yield (('agg', ('adt', opt, 0, 'None'), ()), s2, 'ok', None)
                if st.env.assume_ne(b, 0):
                    st.decisions.append((O(1, 'ne', b, C(b[1], 0)), 'checked', site))
                    yield (('agg', ('adt', opt, 1, 'Some'), (O(bits, opd, a, b),)), st, 'ok', None)
                return
            st.events.append(('extcall', callee, tuple(args), site))
            yield (st.fresh(0, 'ext:' + meth), st, 'ok', None)
        return checked_divrem

    def val(f, arity):
        def model(ip, st, fr, t, args, site, dest_ty):
            if len(args) == arity and all(is_int(a) for a in args):
                try:
                    r = f(*args)
                except Abort:
                    r = None
                if r is not None:
                    yield (r, st, 'ok', None)
                    return
            st.events.append(('extcall', callee, tuple(args), site))
            yield (T.UNIT if dest_ty == '()' else st.fresh(type_bits(dest_ty), 'ext:' + meth), st, 'ok', None)
        return model
    zero = C(bits, 0)
    sbit = C(bits, 1 << (bits - 1))

    def shamt(b):
        # shift amounts are u32; reduce modulo the width as the wrapping/rotating forms do
        x = b if b[1] == bits else (O(bits, 'trunc', b) if b[1] > bits else O(bits, 'zext', b))
        return O(bits, 'and', x, C(bits, bits - 1))

    def isneg(a):
        return O(1, 'ne', O(bits, 'and', a, sbit), zero)

    def ite(c, x, y):
        # c is 1-bit: select with masks (stays inside the bit-vector fragment)
        mask_ = O(bits, 'sub', zero, O(bits, 'zext', c))
        return O(bits, 'or', O(bits, 'and', x, mask_), O(bits, 'and', y, O(bits, 'not', mask_)))

    def rot(a, b, left):
        c = T_const(b)
        if c is None:
            raise Abort('rotate by a non-constant amount')
        c %= bits
        if c == 0:
            return a
        l, r = (c, bits - c) if left else (bits - c, c)
        return O(bits, 'or', O(bits, 'shl', a, C(bits, l)), O(bits, 'shr', a, C(bits, r)))

    def bswap(a):
        out = None
        n = bits // 8
        for i in range(n):
            byte = O(bits, 'and', O(bits, 'shr', a, C(bits, 8 * i)), C(bits, 0xff))
            part = O(bits, 'shl', byte, C(bits, 8 * (n - 1 - i)))
            out = part if out is None else O(bits, 'or', out, part)
        return out
    def bitrev(a):
        out = None
        for i in range(bits):
            j = bits - 1 - i
            b_ = O(bits, 'and', a, C(bits, 1 << i))
            part = b_ if i == j else (O(bits, 'shl', b_, C(bits, j - i)) if j > i else O(bits, 'shr', b_, C(bits, i - j)))
            out = part if out is None else O(bits, 'or', out, part)
        return out
    ovf = {'add': 'sadd_ovf' if signed else 'add_ovf', 'sub': 'ssub_ovf' if signed else 'sub_ovf',
           'mul': 'smul_ovf' if signed else 'mul_ovf'}
    table = {
        'wrapping_add': (lambda a, b: O(bits, 'add', a, b), 2),
        'wrapping_sub': (lambda a, b: O(bits, 'sub', a, b), 2),
        'wrapping_mul': (lambda a, b: O(bits, 'mul', a, b), 2),
        'wrapping_neg': (lambda a: O(bits, 'sub', zero, a), 1),
        'wrapping_shl': (lambda a, b: O(bits, 'shl', a, shamt(b)), 2),
        'wrapping_shr': (lambda a, b: O(bits, 'sar' if signed else 'shr', a, shamt(b)), 2),
        'overflowing_add': (lambda a, b: _tuple2(O(bits, 'add', a, b), O(1, ovf['add'], a, b)), 2),
        'overflowing_sub': (lambda a, b: _tuple2(O(bits, 'sub', a, b), O(1, ovf['sub'], a, b)), 2),
        'overflowing_mul': (lambda a, b: _tuple2(O(bits, 'mul', a, b), O(1, ovf['mul'], a, b)), 2),
        'rotate_left': (lambda a, b: rot(a, b, True), 2),
        'rotate_right': (lambda a, b: rot(a, b, False), 2),
        'swap_bytes': (bswap, 1),
        'reverse_bits': (bitrev, 1),
        'is_power_of_two': (lambda a: O(1, 'and', O(1, 'ne', a, zero),
                                        O(1, 'eq', O(bits, 'and', a, O(bits, 'sub', a, C(bits, 1))), zero)), 1),
    }
    def bitsel(a, i):
        return O(1, 'ne', O(bits, 'and', a, C(bits, 1 << i)), zero)

    def tz(a):
        out = C(32, bits)
        for i in range(bits - 1, -1, -1):
            c = bitsel(a, i)
            m_ = O(32, 'sub', C(32, 0), O(32, 'zext', c))
            out = O(32, 'or', O(32, 'and', C(32, i), m_), O(32, 'and', out, O(32, 'not', m_)))
        return out

    def lz(a):
        out = C(32, bits)
        for i in range(bits):
            c = bitsel(a, i)
            m_ = O(32, 'sub', C(32, 0), O(32, 'zext', c))
            out = O(32, 'or', O(32, 'and', C(32, bits - 1 - i), m_), O(32, 'and', out, O(32, 'not', m_)))
        return out

    def popcnt(a):
        out = C(32, 0)
        for i in range(bits):
            out = O(32, 'add', out, O(32, 'zext', bitsel(a, i)))
        return out
    if bits <= 32:
        table.update({'trailing_zeros': (tz, 1), 'leading_zeros': (lz, 1), 'count_ones': (popcnt, 1)})
    if signed:
        table.update({
            'wrapping_abs': (lambda a: ite(isneg(a), O(bits, 'sub', zero, a), a), 1),
            'unsigned_abs': (lambda a: ite(isneg(a), O(bits, 'sub', zero, a), a), 1),
            'is_negative': (lambda a: isneg(a), 1),
            'is_positive': (lambda a: O(1, 'and', O(1, 'eq', O(bits, 'and', a, sbit), zero), O(1, 'ne', a, zero)), 1),
        })
    else:
        table.update({
            'saturating_add': (lambda a, b: ite(O(1, 'add_ovf', a, b), C(bits, mask(bits)), O(bits, 'add', a, b)), 2),
            'saturating_sub': (lambda a, b: ite(O(1, 'sub_ovf', a, b), zero, O(bits, 'sub', a, b)), 2),
            'abs_diff': (lambda a, b: ite(O(1, 'ult', a, b), O(bits, 'sub', b, a), O(bits, 'sub', a, b)), 2),
        })
    if meth in table:
        f, ar = table[meth]
        return val(f, ar)
    return None


def feasible(env):
    """False only when the exact bit-level path condition is unsatisfiable (conjuncts outside the fragment are dropped)"""
    from . import bvproof
    from .bdd import Unsupported
    try:
        m, conv, K = bvproof.setup(env, atoms=True)
    except (Unsupported, RecursionError):
        return True
    return K != 0


def T_const(t):
    return t[2] if t is not None and t[0] == 'c' else None


def m_min(ip, st, fr, t, args, site, dest_ty):
    a, b = args
    if is_int(a) and is_int(b):
        yield (O(a[1], 'umin', a, b), st, 'ok', None)
    else:
        yield (st.fresh(type_bits(dest_ty), 'min'), st, 'ok', None)


def m_max(ip, st, fr, t, args, site, dest_ty):
    a, b = args
    if is_int(a) and is_int(b):
        yield (O(a[1], 'umax', a, b), st, 'ok', None)
    else:
        yield (st.fresh(type_bits(dest_ty), 'max'), st, 'ok', None)


def m_slice_len(ip, st, fr, t, args, site, dest_ty):
    a = args[0]
    view = _as_view(ip, st, a)
    if view is not None:
        yield (view[3], st, 'ok', None)
    else:
        yield (st.fresh(64, 'len'), st, 'ok', None)


def _as_view(ip, st, a):
    """normalise a slice-like pointer to (root, path, off, len)"""
    if a is None:
        return None
    if a[0] == 'slice':
        return (a[1], a[2], a[3], a[4])
    if a[0] == 's':
        root, path, view = ip.deref(st, a)
        return (root, path, C(64, 0), S(64, 'len(%s)' % a[2], ('len', a[2])))
    if a[0] == 'ref':
        tgt = ip.read(st, a[1], a[2])
        if tgt is not None and tgt[0] == 'agg':
            return (a[1], a[2], C(64, 0), C(64, len(tgt[2])))
        if tgt is not None and tgt[0] in ('slice',):
            return (tgt[1], tgt[2], tgt[3], tgt[4])
        if a[1][0] == 'O' and not a[2] and (tgt is None or tgt[0] in ('s', 'snap')):
            return (a[1], a[2], C(64, 0), S(64, 'len(%s)' % a[1][1], ('len', a[1][1])))
    return None


def m_index(ip, st, fr, t, args, site, dest_ty):
    """<[T] as Index/IndexMut<I>>::index(_mut) for usize / Range* arguments."""
    base, idx = args
    view = _as_view(ip, st, base)
    if view is None:
        st.events.append(('extcall', t['resolved'], tuple(args), site))
        yield (st.fresh(0, 'index'), st, 'ok', None)
        return
    root, path, off, ln = view
    if 'RangeFull' in t.get('generics', ''):
        yield (('slice', root, path, off, ln), st, 'ok', None)
        return
    if idx is not None and is_int(idx):
        # plain usize index -> &T ; bounds obligation
        yield from _bounds_fork(ip, st, site, O(1, 'ult', idx, ln), ('slice_index', idx, ln),
                                lambda s: ('ref', root, path + (('i', O(64, 'add', off, idx), 'u8'),)))
        return
    if idx is not None and idx[0] == 'agg' and idx[1][0] == 'adt':
        rname = idx[1][1]
        f = idx[2]
        if rname.endswith('RangeFrom'):
            start = f[0]
            cond = O(1, 'ule', start, ln)
            mk = lambda s: ('slice', root, path, O(64, 'add', off, start), O(64, 'sub', ln, start))
        elif rname.endswith('RangeTo'):
            end = f[0]
            cond = O(1, 'ule', end, ln)
            mk = lambda s: ('slice', root, path, off, end)
        elif rname.endswith('Range'):
            start, end = f[0], f[1]
            cond = O(1, 'and', O(1, 'ule', start, end), O(1, 'ule', end, ln))
            mk = lambda s: ('slice', root, path, O(64, 'add', off, start), O(64, 'sub', end, start))
        elif rname.endswith('RangeFull'):
            yield (('slice', root, path, off, ln), st, 'ok', None)
            return
        else:
            cond = None
            mk = None
        if cond is not None:
            yield from _bounds_fork(ip, st, site, cond, ('slice_range', idx, ln), mk)
            return
    st.events.append(('extcall', t['resolved'], tuple(args), site))
    yield (st.fresh(0, 'index'), st, 'ok', None)


def _bounds_fork(ip, st, site, cond, detail, mk):
    cv = st.env.const_of(cond)
    if cv == 1:
        st.events.append(('assert', 'slice_index', site, 'discharged', detail))
        yield (mk(st), st, 'ok', None)
        return
    if cv == 0:
        st.events.append(('assert', 'slice_index', site, 'fails', detail))
        yield (None, st, 'panic', 'slice index out of range')
        return
    if 'slice_index' in ip.trust_asserts:
        st.events.append(('assert', 'slice_index', site, 'trusted', detail))
        st.env.assume_eq(cond, 1)
        yield (mk(st), st, 'ok', None)
        return
    sf = st.copy()
    if sf.env.assume_eq(cond, 0):
        sf.events.append(('assert', 'slice_index', site, 'may_fail', detail))
        yield (None, sf, 'panic', 'slice index out of range')
    st.events.append(('assert', 'slice_index', site, 'may_fail', detail))
    if st.env.assume_eq(cond, 1):
        yield (mk(st), st, 'ok', None)


def m_copy_from_slice(ip, st, fr, t, args, site, dest_ty):
    dst = _as_view(ip, st, args[0])
    src = _as_view(ip, st, args[1])
    if dst is None or src is None:
        st.events.append(('extcall', t['resolved'], tuple(args), site))
        ip.havoc_pointee(st, args[0])
        yield (T.UNIT, st, 'ok', None)
        return
    droot, dpath, doff, dlen = dst
    sroot, spath, soff, slen = src
    eq = O(1, 'eq', dlen, slen)
    cv = st.env.const_of(eq)
    if cv != 1:
        st.events.append(('assert', 'copy_len', site, 'fails' if cv == 0 else 'may_fail', ('copy_len', dlen, slen)))
        if cv == 0:
            yield (None, st, 'panic', 'copy_from_slice length mismatch')
            return
    else:
        st.events.append(('assert', 'copy_len', site, 'discharged', ('copy_len', dlen, slen)))
    n = st.env.const_of(slen)
    if n is None or n > 4096:
        ip.havoc_pointee(st, args[0])
        yield (T.UNIT, st, 'ok', None)
        return
    for i in range(n):
        v = ip.read(st, sroot, spath + (('i', O(64, 'add', soff, C(64, i)), 'u8'),))
        if v is None:
            v = st.fresh(8, 'byte')
        ip.write(st, droot, dpath + (('i', O(64, 'add', doff, C(64, i)), 'u8'),), v, site)
    yield (T.UNIT, st, 'ok', None)


def m_split_at(ip, st, fr, t, args, site, dest_ty):
    """<[T]>::split_at(mid): (&self[..mid], &self[mid..]); panics when mid > len"""
    view = _as_view(ip, st, args[0])
    mid = args[1]
    if view is None or mid is None or not is_int(mid):
        yield from ip.unknown_external(st, t['resolved'] or t['callee'], args, site, dest_ty, t)
        return
    root, path, off, ln = view
    mk = lambda s: ('agg', ('tuple',), (('slice', root, path, off, mid),
                                        ('slice', root, path, O(64, 'add', off, mid), O(64, 'sub', ln, mid))))
    yield from _bounds_fork(ip, st, site, O(1, 'ule', mid, ln), ('slice_range', mid, ln), mk)


def m_identity(ip, st, fr, t, args, site, dest_ty):
    yield (args[0], st, 'ok', None)


def m_range_next(ip, st, fr, t, args, site, dest_ty):
    """Range<A>::next(&mut range): yields start if start < end."""
    r = args[0]
    if r is None or r[0] != 'ref':
        st.events.append(('extcall', t['resolved'], tuple(args), site))
        yield (st.fresh(0, 'next'), st, 'ok', None)
        return
    rng = ip.read(st, r[1], r[2])
    if rng is None or rng[0] != 'agg':
        yield (st.fresh(0, 'next'), st, 'ok', None)
        return
    start, end = rng[2][0], rng[2][1]
    cond = O(1, 'ult', start, end)
    cv = st.env.const_of(cond)
    some_kind = ('adt', 'std::option::Option', 1, 'Some')
    none_kind = ('adt', 'std::option::Option', 0, 'None')

    def take(s):
        new = ('agg', rng[1], (O(start[1], 'add', start, C(start[1], 1)), end))
        ip.write(s, r[1], r[2], new, site)
        return ('agg', some_kind, (start,))

    if cv == 1:
        yield (take(st), st, 'ok', None)
    elif cv == 0:
        yield (('agg', none_kind, ()), st, 'ok', None)
    else:
        s2 = st.copy()
        if s2.env.assume_eq(cond, 1):
            s2.decisions.append((cond, 'Some', site))
            yield (take(s2), s2, 'ok', None)
        if st.env.assume_eq(cond, 0):
            st.decisions.append((cond, 'None', site))
            yield (('agg', none_kind, ()), st, 'ok', None)


# ---- iterators over slices / ranges (the adaptor chains a `for` loop is usually written with)
IT_SLICE = ('adt', 'gbsa::iter::Slice', 0, 'Slice')            # (slice view, position)
IT_ENUM = ('adt', 'gbsa::iter::Enumerate', 0, 'Enumerate')     # (inner iterator, count)
IT_REV = ('adt', 'gbsa::iter::Rev', 0, 'Rev')                  # (inner iterator,)
IT_RINC = ('adt', 'gbsa::iter::RangeInclusive', 0, 'RangeInclusive')   # (next value, last value, exhausted)
SOME = ('adt', 'std::option::Option', 1, 'Some')
NONE = ('adt', 'std::option::Option', 0, 'None')


IT_ARRAY = ('adt', 'gbsa::iter::Array', 0, 'Array')             # (array aggregate, position constant): `for x in [a, b, c]`
IT_TAKE = ('adt', 'gbsa::iter::Take', 0, 'Take')                # (inner iterator, items still allowed)


def is_iterator_value(v):
    return v is not None and v[0] == 'agg' and (v[1] in (IT_SLICE, IT_ENUM, IT_REV, IT_RINC, IT_ARRAY, IT_TAKE) or
                                                (v[1][0] == 'adt' and v[1][1].endswith('ops::Range') and len(v[2]) == 2))


def iter_steps(v):
    """the possible outcomes of one `next()` on an iterator value: [(condition term or None, item or None, new value)];
    the conditions are exhaustive and exclusive. None when the value is not a modelled iterator"""
    if v is None or v[0] != 'agg':
        return None
    k = v[1]
    if k[0] == 'adt' and k[1].endswith('ops::Range') and len(v[2]) == 2 and is_int(v[2][0]) and is_int(v[2][1]):
        start, end = v[2]
        return [(O(1, 'ult', start, end), start, ('agg', k, (O(start[1], 'add', start, C(start[1], 1)), end))),
                (O(1, 'uge', start, end), None, v)]
    if k == IT_SLICE:
        sl, pos = v[2]
        _, root, path, off, ln = sl
        item = ('ref', root, path + (('i', O(64, 'add', off, pos), 'u8'),))
        return [(O(1, 'ult', pos, ln), item, ('agg', k, (sl, O(64, 'add', pos, C(64, 1))))),
                (O(1, 'uge', pos, ln), None, v)]
    if k == IT_RINC:
        cur, last, done = v[2]
        w = cur[1]
        if done == C(1, 1):
            return [(None, None, v)]
        if done == C(1, 0):
            live = lambda c: c
            dead = lambda c: c
        else:
            nd = O(1, 'xor', done, C(1, 1))
            live = lambda c: O(1, 'and', nd, c)
            dead = lambda c: O(1, 'or', done, c)
        return [(live(O(1, 'ult', cur, last)), cur, ('agg', k, (O(w, 'add', cur, C(w, 1)), last, C(1, 0)))),
                (live(O(1, 'eq', cur, last)), cur, ('agg', k, (cur, last, C(1, 1)))),
                (dead(O(1, 'ugt', cur, last)), None, v)]
    if k == IT_ARRAY:
        arr, pos = v[2]
        if arr is None or arr[0] != 'agg' or pos[0] != 'c':
            return None
        if pos[2] < len(arr[2]):
            return [(None, arr[2][pos[2]], ('agg', k, (arr, C(64, pos[2] + 1))))]
        return [(None, None, v)]
    if k == IT_TAKE:
        inner, n = v[2]
        sub = iter_steps(inner)
        if sub is None or not is_int(n):
            return None
        more = O(1, 'ne', n, C(n[1], 0))
        out = [(O(1, 'eq', n, C(n[1], 0)), None, v)]
        for cond, item, new in sub:
            c2 = more if cond is None else O(1, 'and', more, cond)
            out.append((c2, item, ('agg', k, (new, O(n[1], 'sub', n, C(n[1], 1)) if item is not None else n))))
        return out
    if k == IT_ENUM:
        inner, count = v[2]
        sub = iter_steps(inner)
        if sub is None:
            return None
        out = []
        for cond, item, new in sub:
            if item is None:
                out.append((cond, None, ('agg', k, (new, count))))
            else:
                out.append((cond, ('agg', ('tuple',), (count, item)),
                            ('agg', k, (new, O(64, 'add', count, C(64, 1))))))
        return out
    if k == IT_REV:
        inner = v[2][0]
        if inner[0] == 'agg' and inner[1][0] == 'adt' and inner[1][1].endswith('ops::Range') and len(inner[2]) == 2 \
                and is_int(inner[2][0]) and is_int(inner[2][1]):
            start, end = inner[2]
            e1 = O(end[1], 'sub', end, C(end[1], 1))
            return [(O(1, 'ult', start, end), e1, ('agg', k, (('agg', inner[1], (start, e1)),))),
                    (O(1, 'uge', start, end), None, v)]
        if inner[0] == 'agg' and inner[1] == IT_SLICE and inner[2][1] == C(64, 0):
            # a reversed slice iterator that has not been advanced from the front: walk the length down
            sl, pos = inner[2]
            _, root, path, off, ln = sl
            l1 = O(64, 'sub', ln, C(64, 1))
            item = ('ref', root, path + (('i', O(64, 'add', off, l1), 'u8'),))
            return [(O(1, 'ugt', ln, C(64, 0)), item, ('agg', k, (('agg', IT_SLICE, (('slice', root, path, off, l1), pos)),))),
                    (O(1, 'eq', ln, C(64, 0)), None, v)]
        return None
    return None


def m_iter_next(ip, st, fr, t, args, site, dest_ty):
    r = args[0]
    cur = ip.read(st, r[1], r[2]) if (r is not None and r[0] == 'ref') else None
    steps = iter_steps(cur)
    if steps is None:
        yield from ip.unknown_external(st, t['resolved'] or t['callee'], args, site, dest_ty, t)
        return
    live = []
    for cond, item, new in steps:
        cv = st.env.const_of(cond) if cond is not None else 1
        if cv == 0:
            continue
        live.append((cond, item, new, cv))
    n = len(live)
    for j, (cond, item, new, cv) in enumerate(live):
        s2 = st if j == n - 1 else st.copy()
        if cv != 1:
            if not s2.env.assume_eq(cond, 1):
                continue
            if n > 1:
                s2.decisions.append((cond, 'Some' if item is not None else 'None', site))
        ip.write(s2, r[1], r[2], new, site)
        yield ((('agg', SOME, (item,)) if item is not None else ('agg', NONE, ())), s2, 'ok', None)


def m_slice_iter(ip, st, fr, t, args, site, dest_ty):
    view = _as_view(ip, st, args[0])
    if view is None:
        yield from ip.unknown_external(st, t['resolved'] or t['callee'], args, site, dest_ty, t)
        return
    root, path, off, ln = view
    yield (('agg', IT_SLICE, (('slice', root, path, off, ln), C(64, 0))), st, 'ok', None)


def m_enumerate(ip, st, fr, t, args, site, dest_ty):
    if is_iterator_value(args[0]):
        yield (('agg', IT_ENUM, (args[0], C(64, 0))), st, 'ok', None)
    else:
        yield from ip.unknown_external(st, t['resolved'] or t['callee'], args, site, dest_ty, t)


def m_array_into_iter(ip, st, fr, t, args, site, dest_ty):
    a = args[0]
    if a is not None and a[0] == 'agg' and a[1][0] == 'array':
        yield (('agg', IT_ARRAY, (a, C(64, 0))), st, 'ok', None)
    else:
        yield from ip.unknown_external(st, t['resolved'] or t['callee'], args, site, dest_ty, t)


def m_take(ip, st, fr, t, args, site, dest_ty):
    if is_iterator_value(args[0]) and is_int(args[1]) and iter_steps(('agg', IT_TAKE, (args[0], args[1]))) is not None:
        yield (('agg', IT_TAKE, (args[0], args[1])), st, 'ok', None)
    else:
        yield from ip.unknown_external(st, t['resolved'] or t['callee'], args, site, dest_ty, t)


def m_rev(ip, st, fr, t, args, site, dest_ty):
    if is_iterator_value(args[0]) and iter_steps(('agg', IT_REV, (args[0],))) is not None:
        yield (('agg', IT_REV, (args[0],)), st, 'ok', None)
    else:
        yield from ip.unknown_external(st, t['resolved'] or t['callee'], args, site, dest_ty, t)


def m_range_inclusive_new(ip, st, fr, t, args, site, dest_ty):
    a, b = args
    if is_int(a) and is_int(b):
        yield (('agg', IT_RINC, (a, b, C(1, 0))), st, 'ok', None)
    else:
        yield from ip.unknown_external(st, t['resolved'] or t['callee'], args, site, dest_ty, t)


def m_slice_is_empty(ip, st, fr, t, args, site, dest_ty):
    view = _as_view(ip, st, args[0])
    if view is not None:
        yield (O(1, 'eq', view[3], C(64, 0)), st, 'ok', None)
    else:
        yield (st.fresh(1, 'is_empty'), st, 'ok', None)


def m_slice_get(ip, st, fr, t, args, site, dest_ty):
    """<[T]>::get(i) for a usize index: Some(&self[i]) when i < len, None otherwise"""
    base, idx = args
    view = _as_view(ip, st, base)
    if view is None or idx is None or not is_int(idx):
        yield from ip.unknown_external(st, t['resolved'] or t['callee'], args, site, dest_ty, t)
        return
    root, path, off, ln = view
    cond = O(1, 'ult', idx, ln)
    cv = st.env.const_of(cond)
    some = ('agg', SOME, (('ref', root, path + (('i', O(64, 'add', off, idx), 'u8'),)),))
    if cv == 1:
        yield (some, st, 'ok', None)
    elif cv == 0:
        yield (('agg', NONE, ()), st, 'ok', None)
    else:
        s2 = st.copy()
        if s2.env.assume_eq(cond, 1):
            s2.decisions.append((cond, 'Some', site))
            yield (some, s2, 'ok', None)
        if st.env.assume_eq(cond, 0):
            st.decisions.append((cond, 'None', site))
            yield (('agg', NONE, ()), st, 'ok', None)


def m_mem_replace(ip, st, fr, t, args, site, dest_ty):
    dst, new = args
    if dst is not None and dst[0] == 'ref':
        old = ip.read(st, dst[1], dst[2])
        if old is None:
            old = st.fresh(type_bits(dest_ty), 'old')
        ip.write(st, dst[1], dst[2], new, site)
        yield (old, st, 'ok', None)
    else:
        st.events.append(('extcall', t['resolved'], tuple(args), site))
        yield (st.fresh(type_bits(dest_ty), 'replace'), st, 'ok', None)


def m_box_new(ip, st, fr, t, args, site, dest_ty):
    st.n['obj'] += 1
    root = ('O', 'box#%d' % st.n['obj'])
    st.mem[root] = args[0]
    inner = dest_ty
    if inner.startswith('std::boxed::Box<'):
        inner = inner[len('std::boxed::Box<'):-1]
    st.dyn[(root, ())] = inner
    yield (('ref', root, ()), st, 'ok', None)


def m_pure(name, bits=None):
    """total function without side effects: result is a fresh symbol tagged with its arguments"""
    def f(ip, st, fr, t, args, site, dest_ty):
        b = type_bits(dest_ty) if bits is None else bits
        ret = T.UNIT if dest_ty == '()' else st.fresh(b, name)
        st.events.append(('pure', t['resolved'], tuple(args), ret, site))
        yield (ret, st, 'ok', None)
    return f


def as_str(ip, st, v):
    """text of a string-literal value or of a reference to one, else None"""
    if v is None:
        return None
    if v[0] == 'str':
        return v[1]
    if v[0] == 'ref':
        t = ip.read(st, v[1], v[2])
        if t is not None and t[0] == 'str':
            return t[1]
    return None


def snapshot_args(ip, st, args):
    """pointee values of pointer arguments at the time of the call (locals are purged on return)"""
    out = []
    for a in args:
        if a is not None and a[0] in ('ref', 'slice'):
            out.append(ip.read(st, a[1], a[2]))
        else:
            out.append(None)
    return tuple(out)


def m_effect(kind):
    def f(ip, st, fr, t, args, site, dest_ty):
        ret = T.UNIT if dest_ty == '()' else st.fresh(type_bits(dest_ty), kind)
        st.events.append(('effect', kind, t['resolved'], tuple(args), ret, site, snapshot_args(ip, st, args)))
        yield (ret, st, 'ok', None)
    return f


def m_option_unwrap(ip, st, fr, t, args, site, dest_ty):
    v = args[0]
    if v is not None and v[0] == 'agg' and v[1][0] == 'adt':
        if v[1][3] in ('Some', 'Ok'):
            yield (v[2][0], st, 'ok', None)
        else:
            st.events.append(('panic', t['resolved'], site))
            yield (None, st, 'panic', 'unwrap on None/Err')
        return
    # unknown: fork
    s2 = st.copy()
    s2.events.append(('assert', 'unwrap', site, 'may_fail', None))
    yield (None, s2, 'panic', 'unwrap may fail')
    st.events.append(('assert', 'unwrap', site, 'may_fail', None))
    inner = ip.project(st, v, ('d', 1, 'Some')) if v is not None else None
    if inner is not None:
        inner = ip.project(st, inner, ('f', 0, '0', dest_ty, ''))
    if inner is None:
        inner = st.fresh(type_bits(dest_ty), 'unwrapped')
    yield (inner, st, 'ok', None)


def m_and_then(ip, st, fr, t, args, site, dest_ty):
    opt, clo = args
    none = ('agg', ('adt', 'std::option::Option', 0, 'None'), ())
    if clo is None or clo[0] != 'agg' or clo[1][0] != 'closure':
        st.events.append(('extcall', t['resolved'], tuple(args), site))
        yield (st.fresh(0, 'and_then'), st, 'ok', None)
        return
    cpath = clo[1][1]

    def call_some(s, inner):
        for r in ip.call_fn(cpath, [clo, inner], s, fr.depth + 1, site):
            if r.status == 'ok':
                yield (r.ret, r.state, 'ok', None)
            else:
                yield (None, r.state, r.status, (r.where, r.detail))

    if opt is not None and opt[0] == 'agg' and opt[1][0] == 'adt':
        if opt[1][3] == 'None':
            yield (none, st, 'ok', None)
        else:
            yield from call_some(st, opt[2][0])
        return
    s2 = st.copy()
    yield (none, s2, 'ok', None)
    inner = None
    if opt is not None:
        inner = ip.project(st, ip.project(st, opt, ('d', 1, 'Some')), ('f', 0, '0', '', ''))
    if inner is None:
        inner = st.fresh(0, 'some')
    yield from call_some(st, inner)


def call_closure(ip, st, fr, clo, cargs, site):
    """call a closure value with already-spread arguments: generator of (ret, state, status, detail).  The closure
    body takes the closure by value (FnOnce) or by reference (Fn / FnMut) depending on how it was compiled"""
    cpath = clo[1][1]
    fn = ip.fns.get(cpath)
    if fn is None:
        yield (None, st, 'abort', 'closure body %s not in the crate' % cpath)
        return
    self_ty = fn['locals'][1]['ty'] if len(fn['locals']) > 1 else ''
    first = clo
    if self_ty.startswith('&'):
        st.n['obj'] += 1
        root = ('O', 'closure#%d' % st.n['obj'])
        st.mem[root] = clo
        first = ('ref', root, ())
    for r in ip.call_fn(cpath, [first] + list(cargs), st, fr.depth + 1, site):
        if r.status == 'ok':
            yield (r.ret, r.state, 'ok', None)
        else:
            yield (None, r.state, r.status, (r.where, r.detail))


def m_iter_any_all(which):
    """Iterator::any / all over a modelled iterator whose length is decided: the closure is called item by item"""
    def model(ip, st, fr, t, args, site, dest_ty):
        itr, clo = args
        cur = ip.read(st, itr[1], itr[2]) if (itr is not None and itr[0] == 'ref') else None
        if clo is None or clo[0] != 'agg' or clo[1][0] != 'closure' or iter_steps(cur) is None:
            yield from ip.unknown_external(st, t['resolved'] or t['callee'], args, site, dest_ty, t)
            return
        stop_on = 1 if which == 'any' else 0

        def go(s, curv, depth):
            if depth > 64:
                yield (None, s, 'loop', 'iterator too long to unroll')
                return
            live = []
            for cond, item, new in iter_steps(curv):
                cv = s.env.const_of(cond) if cond is not None else 1
                if cv != 0:
                    live.append((cond, item, new, cv))
            if len(live) != 1 or live[0][3] != 1:
                yield (None, s, 'loop', 'undecided iterator length in any/all')
                return
            cond, item, new, _ = live[0]
            ip.write(s, itr[1], itr[2], new, site)
            if item is None:
                yield (C(1, 1 - stop_on), s, 'ok', None)
                return
            for (ret, s2, status, detail) in call_closure(ip, s, fr, clo, [item], site):
                if status != 'ok':
                    yield (ret, s2, status, detail)
                    continue
                if ret is None or not is_int(ret):
                    yield (s2.fresh(1, which), s2, 'ok', None)
                    continue
                cv = s2.env.const_of(ret)
                if cv is not None:
                    if cv == stop_on:
                        yield (C(1, stop_on), s2, 'ok', None)
                    else:
                        yield from go(s2, new, depth + 1)
                    continue
                s3 = s2.copy()
                if s3.env.assume_eq(ret, stop_on):
                    s3.decisions.append((ret, which, site))
                    yield (C(1, stop_on), s3, 'ok', None)
                if s2.env.assume_eq(ret, 1 - stop_on):
                    s2.decisions.append((ret, which, site))
                    yield from go(s2, new, depth + 1)
        yield from go(st, cur, 0)
    return model


def m_mem_swap(ip, st, fr, t, args, site, dest_ty):
    a, b = args
    if a is not None and b is not None and a[0] == 'ref' and b[0] == 'ref':
        va = ip.read(st, a[1], a[2])
        vb = ip.read(st, b[1], b[2])
        if va is not None and vb is not None:
            ip.write(st, a[1], a[2], vb, site)
            ip.write(st, b[1], b[2], va, site)
            yield (T.UNIT, st, 'ok', None)
            return
    yield from ip.unknown_external(st, t['resolved'] or t['callee'], args, site, dest_ty, t)


def m_range_contains(ip, st, fr, t, args, site, dest_ty):
    """RangeInclusive / Range ::contains(&item)"""
    rng, item = args
    rv = ip.read(st, rng[1], rng[2]) if (rng is not None and rng[0] == 'ref') else rng
    iv = ip.read(st, item[1], item[2]) if (item is not None and item[0] == 'ref') else item
    if rv is not None and rv[0] == 'agg' and iv is not None and is_int(iv):
        lo = hi = None
        if rv[1] == IT_RINC and rv[2][2] == C(1, 0):
            lo, hi = rv[2][0], rv[2][1]
            upper = O(1, 'ule', iv, hi)
        elif rv[1][0] == 'adt' and rv[1][1].endswith('ops::Range') and len(rv[2]) == 2:
            lo, hi = rv[2]
            upper = O(1, 'ult', iv, hi)
        if lo is not None:
            # three cases, each a plain comparison the interval domain can use: below, inside, above
            cases = [((O(1, 'ult', iv, lo), 1), None, 0),
                     ((O(1, 'ult', iv, lo), 0), (upper, 1), 1),
                     ((O(1, 'ult', iv, lo), 0), (upper, 0), 0)]
            live = []
            for c1, c2, res in cases:
                s2 = st.copy()
                if not s2.env.assume_eq(c1[0], c1[1]):
                    continue
                if c2 is not None and not s2.env.assume_eq(c2[0], c2[1]):
                    continue
                live.append((s2, res, c1, c2))
            for s2, res, c1, c2 in live:
                if len(live) > 1:
                    s2.decisions.append((c1[0], 'contains', site))
                    if c2 is not None:
                        s2.decisions.append((c2[0], 'contains', site))
                yield (C(1, res), s2, 'ok', None)
            return
    yield from ip.unknown_external(st, t['resolved'] or t['callee'], args, site, dest_ty, t)


def m_option_map(ip, st, fr, t, args, site, dest_ty):
    """Option::map(opt, closure): None stays None, Some(x) becomes Some(closure(x))"""
    opt, clo = args
    none = ('agg', ('adt', 'std::option::Option', 0, 'None'), ())
    if clo is None or clo[0] != 'agg' or clo[1][0] != 'closure':
        yield from ip.unknown_external(st, t['resolved'] or t['callee'], args, site, dest_ty, t)
        return
    cpath = clo[1][1]

    def call_some(s, inner):
        for r in ip.call_fn(cpath, [clo, inner], s, fr.depth + 1, site):
            if r.status == 'ok':
                yield (('agg', SOME, (r.ret,)), r.state, 'ok', None)
            else:
                yield (None, r.state, r.status, (r.where, r.detail))

    if opt is not None and opt[0] == 'agg' and opt[1][0] == 'adt':
        if opt[1][3] == 'None':
            yield (none, st, 'ok', None)
        else:
            yield from call_some(st, opt[2][0])
        return
    s2 = st.copy()
    yield (none, s2, 'ok', None)
    inner = None
    if opt is not None:
        inner = ip.project(st, ip.project(st, opt, ('d', 1, 'Some')), ('f', 0, '0', '', ''))
    if inner is None:
        inner = st.fresh(0, 'some')
    yield from call_some(st, inner)


def _first_generic(ty, head):
    i = ty.find(head + '<')
    if i < 0:
        return ''
    j = i + len(head) + 1
    depth = 0
    k = j
    while k < len(ty):
        ch = ty[k]
        if ch in '<([':
            depth += 1
        elif ch in '>)]':
            if depth == 0:
                break
            depth -= 1
        elif ch == ',' and depth == 0:
            break
        k += 1
    return ty[j:k].strip()


def m_result_map_err(ip, st, fr, t, args, site, dest_ty):
    """Result::map_err(res, closure): Ok(v) stays Ok(v), Err(e) becomes Err(closure(e))"""
    res, clo = args
    OKK = ('adt', 'std::result::Result', 0, 'Ok')
    ERR = ('adt', 'std::result::Result', 1, 'Err')
    if clo is None or clo[0] != 'agg' or clo[1][0] != 'closure' or res is None:
        yield from ip.unknown_external(st, t['resolved'] or t['callee'], args, site, dest_ty, t)
        return

    def err_path(s, payload):
        for (ret, s2, status, detail) in call_closure(ip, s, fr, clo, [payload], site):
            if status == 'ok':
                yield (('agg', ERR, (ret,)), s2, 'ok', None)
            else:
                yield (ret, s2, status, detail)
    if res[0] == 'agg' and res[1][0] == 'adt' and res[1][3] in ('Ok', 'Err'):
        if res[1][3] == 'Ok':
            yield (res, st, 'ok', None)
        else:
            yield from err_path(st, res[2][0])
        return
    okty = _first_generic(dest_ty, 'Result')
    d = ip.discriminant(st, res, 64)
    s_ok = st.copy()
    if not is_int(d) or s_ok.env.assume_eq(d, 0):
        if is_int(d):
            s_ok.decisions.append((d, 'Ok', site))
        inner = ip.project(s_ok, ip.project(s_ok, res, ('d', 0, 'Ok')), ('f', 0, '0', okty, ''))
        if inner is None:
            inner = s_ok.fresh(type_bits(okty), 'ok')
        yield (('agg', OKK, (inner,)), s_ok, 'ok', None)
    if not is_int(d) or st.env.assume_eq(d, 1):
        if is_int(d):
            st.decisions.append((d, 'Err', site))
        e = ip.project(st, ip.project(st, res, ('d', 1, 'Err')), ('f', 0, '0', '', ''))
        if e is None:
            e = st.fresh(0, 'err')
        yield from err_path(st, e)


def m_size_of(ip, st, fr, t, args, site, dest_ty):
    g = (t.get('generics') or '').strip()
    ty = g[1:-1].strip() if g.startswith('[') and g.endswith(']') else g
    adt = ip.adts.get(ty)
    if adt and adt.get('size') is not None:
        yield (C(64, adt['size']), st, 'ok', None)
        return
    it = int_type(ty)
    if it:
        yield (C(64, max(1, it[0] // 8)), st, 'ok', None)
        return
    yield (st.fresh(64, 'size_of'), st, 'ok', None)


def m_size_of_val(ip, st, fr, t, args, site, dest_ty):
    """mem::size_of_val(&x) for a sized x: the size of its type"""
    g = (t.get('generics') or '').strip()
    ty = g[1:-1].strip() if g.startswith('[') and g.endswith(']') else g
    adt = ip.adts.get(ty)
    if adt and adt.get('size') is not None:
        yield (C(64, adt['size']), st, 'ok', None)
        return
    it = int_type(ty)
    if it:
        yield (C(64, max(1, it[0] // 8)), st, 'ok', None)
        return
    a = args[0] if args else None
    if a is not None and a[0] == 'slice' and is_int(a[4]):
        yield (a[4], st, 'ok', None)         # a byte view: its length
        return
    yield (st.fresh(64, 'size_of_val'), st, 'ok', None)


def m_from_raw_parts(ip, st, fr, t, args, site, dest_ty):
    """slice::from_raw_parts(_mut)(ptr, len): a view of len elements starting at the pointee"""
    ptr, ln = args
    if ptr is not None and ptr[0] == 'ref' and ln is not None and is_int(ln):
        yield (('slice', ptr[1], ptr[2], C(64, 0), ln), st, 'ok', None)
    else:
        yield from ip.unknown_external(st, t['resolved'] or t['callee'], args, site, dest_ty, t)


def m_bool_then(ip, st, fr, t, args, site, dest_ty):
    """bool::then(cond, closure): Some(closure()) when cond, None otherwise (the closure runs only when cond holds)"""
    cond, clo = args
    if clo is None or clo[0] != 'agg' or clo[1][0] != 'closure' or cond is None or not is_int(cond):
        yield from ip.unknown_external(st, t['resolved'] or t['callee'], args, site, dest_ty, t)
        return
    cv = st.env.const_of(cond)
    branches = []
    if cv != 0:
        s1 = st.copy() if cv is None else st
        if cv == 1 or s1.env.assume_eq(cond, 1):
            if cv is None:
                s1.decisions.append((cond, 'then', site))
            branches.append((s1, True))
    if cv != 1:
        if cv == 0 or st.env.assume_eq(cond, 0):
            if cv is None:
                st.decisions.append((cond, 'then', site))
            branches.append((st, False))
    for s_, taken in branches:
        if not taken:
            yield (('agg', NONE, ()), s_, 'ok', None)
            continue
        for (ret, s2, status, detail) in call_closure(ip, s_, fr, clo, [], site):
            if status == 'ok':
                yield (('agg', SOME, (ret,)), s2, 'ok', None)
            else:
                yield (ret, s2, status, detail)


def m_option_map_or(ip, st, fr, t, args, site, dest_ty):
    """Option::map_or(opt, default, closure)"""
    opt, default, clo = args
    if clo is None or clo[0] != 'agg' or clo[1][0] != 'closure' or opt is None:
        yield from ip.unknown_external(st, t['resolved'] or t['callee'], args, site, dest_ty, t)
        return
    if opt[0] == 'agg' and opt[1][0] == 'adt' and opt[1][3] in ('Some', 'None'):
        if opt[1][3] == 'None':
            yield (default, st, 'ok', None)
        else:
            yield from call_closure(ip, st, fr, clo, [opt[2][0]], site)
        return
    d = ip.discriminant(st, opt, 64)
    s2 = st.copy()
    if not is_int(d) or s2.env.assume_eq(d, 0):
        yield (default, s2, 'ok', None)
    if not is_int(d) or st.env.assume_eq(d, 1):
        inner = ip.project(st, ip.project(st, opt, ('d', 1, 'Some')), ('f', 0, '0', '', ''))
        if inner is None:
            inner = st.fresh(0, 'some')
        yield from call_closure(ip, st, fr, clo, [inner], site)


_R_OK = ('adt', 'std::result::Result', 0, 'Ok')
_R_ERR = ('adt', 'std::result::Result', 1, 'Err')


def two_cases(ip, st, v, names, site):
    """case split of an Option (names = ('None', 'Some')) or Result (('Ok', 'Err')) value:
    yields (variant name, payload or None, state); the last case reuses `st`"""
    if v is not None and v[0] == 'agg' and v[1][0] == 'adt' and v[1][3] in names:
        yield (v[1][3], v[2][0] if v[2] else None, st)
        return
    d = ip.discriminant(st, v, 64) if v is not None else None
    for k, nm in enumerate(names):
        s_ = st.copy() if k == 0 else st
        if d is not None and is_int(d):
            if not s_.env.assume_eq(d, k):
                continue
            s_.decisions.append((d, nm, site))
        payload = None
        if nm != 'None':
            payload = ip.project(s_, ip.project(s_, v, ('d', k, nm)), ('f', 0, '0', '', '')) if v is not None else None
            if payload is None:
                payload = s_.fresh(0, nm.lower())
        yield (nm, payload, s_)


def m_result_ok(ip, st, fr, t, args, site, dest_ty):
    for nm, pay, s_ in two_cases(ip, st, args[0], ('Ok', 'Err'), site):
        yield ((('agg', SOME, (pay,)) if nm == 'Ok' else ('agg', NONE, ())), s_, 'ok', None)


def m_result_err(ip, st, fr, t, args, site, dest_ty):
    for nm, pay, s_ in two_cases(ip, st, args[0], ('Ok', 'Err'), site):
        yield ((('agg', SOME, (pay,)) if nm == 'Err' else ('agg', NONE, ())), s_, 'ok', None)


def m_result_map_or(ip, st, fr, t, args, site, dest_ty):
    res, default, clo = args
    if clo is None or clo[0] != 'agg' or clo[1][0] != 'closure':
        yield from ip.unknown_external(st, t['resolved'] or t['callee'], args, site, dest_ty, t)
        return
    for nm, pay, s_ in two_cases(ip, st, res, ('Ok', 'Err'), site):
        if nm == 'Ok':
            yield from call_closure(ip, s_, fr, clo, [pay], site)
        else:
            yield (default, s_, 'ok', None)


def m_result_unwrap_or(ip, st, fr, t, args, site, dest_ty):
    for nm, pay, s_ in two_cases(ip, st, args[0], ('Ok', 'Err'), site):
        yield ((pay if nm == 'Ok' else args[1]), s_, 'ok', None)


def m_option_unwrap_or(ip, st, fr, t, args, site, dest_ty):
    for nm, pay, s_ in two_cases(ip, st, args[0], ('None', 'Some'), site):
        yield ((pay if nm == 'Some' else args[1]), s_, 'ok', None)


def m_option_ok_or(ip, st, fr, t, args, site, dest_ty):
    for nm, pay, s_ in two_cases(ip, st, args[0], ('None', 'Some'), site):
        yield ((('agg', _R_OK, (pay,)) if nm == 'Some' else ('agg', _R_ERR, (args[1],))), s_, 'ok', None)


def m_option_unwrap_or_else(ip, st, fr, t, args, site, dest_ty):
    """Option::unwrap_or_else(opt, closure): the payload, or the closure's result when the option is None"""
    opt, clo = args
    if clo is None or clo[0] != 'agg' or clo[1][0] != 'closure' or opt is None:
        yield from ip.unknown_external(st, t['resolved'] or t['callee'], args, site, dest_ty, t)
        return
    if opt[0] == 'agg' and opt[1][0] == 'adt' and opt[1][3] in ('Some', 'None'):
        if opt[1][3] == 'Some':
            yield (opt[2][0], st, 'ok', None)
        else:
            yield from call_closure(ip, st, fr, clo, [], site)
        return
    d = ip.discriminant(st, opt, 64)
    s2 = st.copy()
    if not is_int(d) or s2.env.assume_eq(d, 1):
        if is_int(d):
            s2.decisions.append((d, 'Some', site))
        inner = ip.project(s2, ip.project(s2, opt, ('d', 1, 'Some')), ('f', 0, '0', '', ''))
        if inner is None:
            inner = s2.fresh(type_bits(dest_ty), 'some')
        yield (inner, s2, 'ok', None)
    if not is_int(d) or st.env.assume_eq(d, 0):
        if is_int(d):
            st.decisions.append((d, 'None', site))
        yield from call_closure(ip, st, fr, clo, [], site)


def m_option_is(which):
    def f(ip, st, fr, t, args, site, dest_ty):
        v = args[0]
        if v is not None and v[0] == 'ref':
            v = ip.read(st, v[1], v[2])
        if v is not None and v[0] == 'agg' and v[1][0] == 'adt' and v[1][3] in ('Some', 'None'):
            yield (C(1, 1 if v[1][3] == which else 0), st, 'ok', None)
        else:
            yield (st.fresh(1, 'is_' + which.lower()), st, 'ok', None)
    return f


CF = 'std::ops::ControlFlow'


def _cf(kind, v):
    return ('agg', ('adt', CF, 0 if kind == 'Continue' else 1, kind), (v,))


def m_try_branch(which):
    """<Option<T> / Result<T,E> as Try>::branch: the `?` operator"""
    good, bad = ('Some', 'None') if which == 'option' else ('Ok', 'Err')
    ty = 'std::option::Option' if which == 'option' else 'std::result::Result'

    def f(ip, st, fr, t, args, site, dest_ty):
        v = args[0]
        if v is not None and v[0] == 'agg' and v[1][0] == 'adt' and v[1][3] in (good, bad):
            if v[1][3] == good:
                yield (_cf('Continue', v[2][0]), st, 'ok', None)
            else:
                yield (_cf('Break', v), st, 'ok', None)
            return
        # unknown: both outcomes
        st.n['sym'] += 1
        tag = '%s#%d' % (fmt(v)[:40] if v is not None else 'try', st.n['sym'])
        s2 = st.copy()
        residual = ('agg', ('adt', ty, 0 if which == 'option' else 1, bad),
                    () if which == 'option' else (S(0, 'err(%s)' % tag),))
        yield (_cf('Break', residual), s2, 'ok', None)
        inner = None
        if v is not None:
            inner = ip.project(st, ip.project(st, v, ('d', 1 if which == 'option' else 0, good)), ('f', 0, '0', '', ''))
        if inner is None:
            inner = S(0, 'val(%s)' % tag)
        yield (_cf('Continue', inner), st, 'ok', None)
    return f


def m_from_residual(ip, st, fr, t, args, site, dest_ty):
    v = args[0]
    if v is not None and v[0] == 'agg' and v[1][0] == 'adt' and v[1][3] in ('None', 'Err'):
        yield (v, st, 'ok', None)
    else:
        yield (st.fresh(0, 'residual'), st, 'ok', None)


STD_MODELS = {
    '<std::option::Option<T> as std::ops::Try>::branch': m_try_branch('option'),
    '<std::result::Result<T, E> as std::ops::Try>::branch': m_try_branch('result'),
    '<std::option::Option<T> as std::ops::FromResidual<std::option::Option<std::convert::Infallible>>>::from_residual': m_from_residual,
    '<std::result::Result<T, F> as std::ops::FromResidual<std::result::Result<std::convert::Infallible, E>>>::from_residual': m_from_residual,
    'core::num::<impl u8>::wrapping_add': m_wrapping('add'),
    'core::num::<impl u16>::wrapping_add': m_wrapping('add'),
    'core::num::<impl u32>::wrapping_add': m_wrapping('add'),
    'core::num::<impl u64>::wrapping_add': m_wrapping('add'),
    'core::num::<impl usize>::wrapping_add': m_wrapping('add'),
    'core::num::<impl u8>::wrapping_sub': m_wrapping('sub'),
    'core::num::<impl u16>::wrapping_sub': m_wrapping('sub'),
    'core::num::<impl u32>::wrapping_sub': m_wrapping('sub'),
    'core::num::<impl u64>::wrapping_sub': m_wrapping('sub'),
    'core::num::<impl u64>::wrapping_mul': m_wrapping('mul'),
    'core::num::<impl u8>::overflowing_add': m_overflowing('add'),
    'core::num::<impl u16>::overflowing_add': m_overflowing('add'),
    'core::num::<impl u8>::overflowing_sub': m_overflowing('sub'),
    'core::num::<impl u16>::overflowing_sub': m_overflowing('sub'),
    'std::cmp::Ord::min': m_min,
    'core::cmp::Ord::min': m_min,
    'std::cmp::Ord::max': m_max,
    'core::cmp::Ord::max': m_max,
    'core::slice::<impl [T]>::len': m_slice_len,
    'core::slice::index::<impl std::ops::Index<I> for [T]>::index': m_index,
    'core::slice::index::<impl std::ops::IndexMut<I> for [T]>::index_mut': m_index,
    'core::slice::<impl [T]>::copy_from_slice': m_copy_from_slice,
    'core::array::<impl std::ops::Index<I> for [T; N]>::index': m_index,
    'core::array::<impl std::ops::IndexMut<I> for [T; N]>::index_mut': m_index,
    'std::array::<impl std::ops::Index<I> for [T; N]>::index': m_index,
    'std::array::<impl std::ops::IndexMut<I> for [T; N]>::index_mut': m_index,
    '<I as std::iter::IntoIterator>::into_iter': m_identity,
    'std::iter::range::<impl std::iter::Iterator for std::ops::Range<A>>::next': m_range_next,
    'core::slice::<impl [T]>::iter': m_slice_iter,
    'core::slice::<impl [T]>::iter_mut': m_slice_iter,
    'core::slice::<impl [T]>::is_empty': m_slice_is_empty,
    'core::slice::<impl [T]>::split_at': m_split_at,
    'core::slice::<impl [T]>::split_at_mut': m_split_at,
    'core::slice::<impl [T]>::get': m_slice_get,
    'core::slice::<impl [T]>::get_mut': m_slice_get,
    'std::iter::Iterator::enumerate': m_enumerate,
    'std::iter::Iterator::any': m_iter_any_all('any'),
    'std::iter::Iterator::all': m_iter_any_all('all'),
    'std::mem::swap': m_mem_swap,
    'std::ops::RangeInclusive::<Idx>::contains': m_range_contains,
    'std::ops::Range::<Idx>::contains': m_range_contains,
    'std::iter::Iterator::rev': m_rev,
    'std::iter::Iterator::take': m_take,
    'std::array::iter::<impl std::iter::IntoIterator for [T; N]>::into_iter': m_array_into_iter,
    'std::ops::RangeInclusive::<Idx>::new': m_range_inclusive_new,
    'std::mem::replace': m_mem_replace,
    'std::boxed::Box::<T>::new': m_box_new,
    'std::hint::must_use': m_identity,
    'std::option::Option::<T>::unwrap': m_option_unwrap,
    'std::option::Option::<T>::expect': m_option_unwrap,
    'std::option::Option::<T>::and_then': m_and_then,
    'std::option::Option::<T>::map': m_option_map,
    'std::option::Option::<T>::map_or': m_option_map_or,
    'std::option::Option::<T>::unwrap_or_else': m_option_unwrap_or_else,
    'std::option::Option::<T>::unwrap_or': m_option_unwrap_or,
    'std::option::Option::<T>::ok_or': m_option_ok_or,
    'std::result::Result::<T, E>::ok': m_result_ok,
    'std::result::Result::<T, E>::err': m_result_err,
    'std::result::Result::<T, E>::map_or': m_result_map_or,
    'std::result::Result::<T, E>::unwrap_or': m_result_unwrap_or,
    'core::bool::<impl bool>::then': m_bool_then,
    'std::result::Result::<T, E>::map_err': m_result_map_err,
    'std::mem::size_of': m_size_of,
    'std::mem::size_of_val': m_size_of_val,
    'std::ptr::const_ptr::<impl *const T>::cast': m_identity,
    'std::ptr::mut_ptr::<impl *mut T>::cast': m_identity,
    'std::slice::from_raw_parts_mut': m_from_raw_parts,
    'std::slice::from_raw_parts': m_from_raw_parts,
    'std::option::Option::<T>::is_some': m_option_is('Some'),
    'std::option::Option::<T>::is_none': m_option_is('None'),
    # formatting machinery: pure value constructors
    'core::fmt::rt::Argument::<\'_>::new_*': m_pure('fmtarg', 0),
    'std::fmt::Arguments::<\'a>::new': m_pure('fmtargs', 0),
    'std::fmt::Arguments::<\'a>::from_str': m_pure('fmtargs', 0),
    'std::io::_print': m_effect('stdout'),
    'std::io::_eprint': m_effect('stderr'),
    'std::io::stdout': m_effect('stdout_handle'),
    '<std::io::Stdout as std::io::Write>::write': m_effect('stdout'),
    '<std::io::Stdout as std::io::Write>::flush': m_effect('stdout_flush'),
}
