"""Syntactic bit-level support of a term: which input bits (symbol, bit index) each output bit may depend on.
An over-approximation of semantic dependence, used only in the direction
"required dependence must be present" (a missing bit proves the function wrong)."""
from .terms import mask


def support(t, cache=None):
    """list (LSB first) of frozensets of (sym_term, bit)"""
    if cache is None:
        cache = {}
    if t in cache:
        return cache[t]
    bits = max(t[1], 1) if t[0] in ('c', 's', 'o') else 0
    if t[0] == 'c':
        r = [frozenset()] * bits
    elif t[0] == 's':
        r = [frozenset([(t, i)]) for i in range(bits)]
    elif t[0] != 'o':
        r = []
    else:
        op = t[2]
        a = t[3:]
        sa = support(a[0], cache)
        sb = support(a[1], cache) if len(a) > 1 else None
        if op in ('and', 'or', 'xor'):
            r = []
            for i in range(bits):
                x = sa[i] if i < len(sa) else frozenset()
                y = sb[i] if i < len(sb) else frozenset()
                if op == 'and' and a[1][0] == 'c' and not (a[1][2] >> i) & 1:
                    r.append(frozenset())
                elif op == 'and' and a[0][0] == 'c' and not (a[0][2] >> i) & 1:
                    r.append(frozenset())
                elif op == 'or' and a[1][0] == 'c' and (a[1][2] >> i) & 1:
                    r.append(frozenset())
                else:
                    r.append(x | y)
        elif op == 'not':
            r = list(sa[:bits])
        elif op in ('add', 'sub', 'neg', 'mul'):
            r = []
            acc = frozenset()
            for i in range(bits):
                acc = acc | (sa[i] if i < len(sa) else frozenset())
                if sb is not None:
                    acc = acc | (sb[i] if i < len(sb) else frozenset())
                r.append(acc)
        elif op in ('shl', 'shr', 'sar') and a[1][0] == 'c':
            s = a[1][2] % bits
            r = []
            for i in range(bits):
                j = i - s if op == 'shl' else i + s
                if 0 <= j < len(sa):
                    r.append(sa[j])
                elif op == 'sar':
                    r.append(sa[-1])
                else:
                    r.append(frozenset())
        elif op in ('zext', 'trunc'):
            r = [(sa[i] if i < len(sa) else frozenset()) for i in range(bits)]
        elif op == 'sext':
            r = [(sa[i] if i < len(sa) else sa[-1]) for i in range(bits)]
        else:
            allb = frozenset().union(*sa) if sa else frozenset()
            if sb:
                allb = allb | frozenset().union(*sb)
            for extra in a[2:]:
                se = support(extra, cache)
                if se:
                    allb = allb | frozenset().union(*se)
            r = [allb] * bits
    cache[t] = r
    return r


def all_support(t):
    s = support(t)
    return frozenset().union(*s) if s else frozenset()
