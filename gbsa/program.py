"""Program model over exported MIR: CFG, dominators, call graph, reachability."""
import collections

from .absint import PANIC_FNS


class Program:
    def __init__(self, facts):
        self.facts = facts
        self.fns = facts['functions']
        self.adts = facts['adts']
        self._cg = None
        self._dom = {}

    # ---------------------------------------------------------------- CFG
    def succs(self, fname, bb, include_cleanup=False):
        f = self.fns[fname]
        t = f['blocks'][bb]['term']
        k = t['k']
        out = []
        if k == 'goto':
            out = [t['target']]
        elif k == 'switch':
            out = [b for _, b in t['targets']] + [t['otherwise']]
        elif k in ('call', 'assert', 'drop'):
            if t.get('target', -1) >= 0:
                out = [t['target']]
        seen = []
        for b in out:
            if b not in seen and (include_cleanup or not f['blocks'][b]['cleanup']):
                seen.append(b)
        return seen

    def dominators(self, fname):
        """immediate-dominator-free simple iterative dominator sets: bb -> set of dominators"""
        if fname in self._dom:
            return self._dom[fname]
        f = self.fns[fname]
        n = len(f['blocks'])
        preds = collections.defaultdict(list)
        reach = set()
        stack = [0]
        while stack:
            b = stack.pop()
            if b in reach:
                continue
            reach.add(b)
            for s in self.succs(fname, b):
                preds[s].append(b)
                stack.append(s)
        dom = {b: set(reach) for b in reach}
        dom[0] = {0}
        changed = True
        order = sorted(reach)
        while changed:
            changed = False
            for b in order:
                if b == 0:
                    continue
                ps = [dom[p] for p in preds[b] if p in dom]
                new = set.intersection(*ps) if ps else set()
                new = new | {b}
                if new != dom[b]:
                    dom[b] = new
                    changed = True
        self._dom[fname] = dom
        return dom

    def reachable_blocks(self, fname, start=0, avoid=()):
        seen = set()
        stack = [start]
        while stack:
            b = stack.pop()
            if b in seen or b in avoid:
                continue
            seen.add(b)
            stack.extend(self.succs(fname, b))
        return seen

    # --------------------------------------------------------- call graph
    def call_sites(self, fname):
        """yield (bb, term, [callee names]) for every call terminator (non-cleanup blocks)"""
        f = self.fns[fname]
        for i, b in enumerate(f['blocks']):
            if b['cleanup']:
                continue
            t = b['term']
            if t['k'] != 'call':
                continue
            if t['ckind'] == 'virtual':
                names = list(t['impls'])
            else:
                names = [t['resolved'] or t['callee']]
            yield i, t, [n for n in names if n]

    def fn_refs(self, fname):
        """function items referenced other than by direct call (reified pointers, closures)"""
        f = self.fns[fname]
        out = []
        for i, b in enumerate(f['blocks']):
            if b['cleanup']:
                continue
            for s in b['stmts']:
                if s['k'] != 'assign':
                    continue
                rv = s['rv']
                if rv['k'] == 'cast' and rv.get('fn'):
                    out.append((i, s['line'], rv['fn'], 'reify'))
                if rv['k'] == 'aggregate' and rv['kind']['k'] == 'closure':
                    out.append((i, s['line'], rv['kind']['path'], 'closure'))
        return out

    def callgraph(self):
        if self._cg is None:
            cg = {}
            for fname in self.fns:
                edges = []
                for bb, t, names in self.call_sites(fname):
                    for n in names:
                        edges.append((n, bb, t['line'], 'call'))
                for bb, line, n, kind in self.fn_refs(fname):
                    edges.append((n, bb, line, kind))
                cg[fname] = edges
            self._cg = cg
        return self._cg

    def reachable_fns(self, roots, stop=()):
        """functions (crate or external names) reachable from roots; returns dict name -> parent edge"""
        cg = self.callgraph()
        parent = {}
        q = collections.deque()
        for r in roots:
            if r not in parent:
                parent[r] = None
                q.append(r)
        while q:
            f = q.popleft()
            if f in stop or f not in cg:
                continue
            for n, bb, line, kind in cg[f]:
                if n not in parent:
                    parent[n] = (f, bb, line, kind)
                    q.append(n)
        return parent

    def path_to(self, parent, target):
        out = []
        cur = target
        while cur is not None:
            p = parent.get(cur)
            out.append((cur, p[2] if p else None))
            cur = p[0] if p else None
        return list(reversed(out))

    def callers(self, target):
        cg = self.callgraph()
        out = []
        for f, edges in cg.items():
            for n, bb, line, kind in edges:
                if n == target:
                    out.append((f, bb, line, kind))
        return out

    # ------------------------------------------------------------- stores
    def field_stores(self, owner, field):
        """all (fname, bb, line, rvalue|None, kind) that store to `owner.field` by projection or construct `owner`"""
        out = []
        for fname, f in self.fns.items():
            for i, b in enumerate(f['blocks']):
                if b['cleanup']:
                    continue
                for s in b['stmts']:
                    if s['k'] != 'assign':
                        continue
                    pr = s['place']['proj']
                    for j, e in enumerate(pr):
                        if e['k'] == 'field' and e['owner'] == owner and e['name'] == field:
                            out.append((fname, i, s['line'], s['rv'], 'exact' if j == len(pr) - 1 else 'through'))
                    rv = s['rv']
                    if rv['k'] == 'aggregate' and rv['kind']['k'] == 'adt' and rv['kind']['name'] == owner:
                        if field in rv['kind']['fields']:
                            idx = rv['kind']['fields'].index(field)
                            out.append((fname, i, s['line'], {'k': 'use', 'op': rv['ops'][idx]}, 'construct'))
                    if rv['k'] in ('ref', 'rawptr') and (rv['k'] == 'rawptr' or rv.get('mut')):
                        pr2 = rv['place']['proj']
                        if pr2 and pr2[-1]['k'] == 'field' and pr2[-1]['owner'] == owner and pr2[-1]['name'] == field:
                            out.append((fname, i, s['line'], None, 'addr_taken'))
                # call destinations
                t = b['term']
                if t['k'] == 'call':
                    pr = t['dest']['proj']
                    for j, e in enumerate(pr):
                        if e['k'] == 'field' and e['owner'] == owner and e['name'] == field:
                            out.append((fname, i, t['line'], None, 'call_dest' if j == len(pr) - 1 else 'through'))
        return out

    def is_panic_callee(self, name):
        for p in PANIC_FNS:
            if name == p or name.startswith(p + '::') or name.startswith(p + '<'):
                return True
        return False
