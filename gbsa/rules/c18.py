"""C18 - serial transfers appear on stdout in order; nothing else writes that stream."""
from .. import absint, terms as T
from ..terms import C, S, O, fmt
from .common import *


def run(ctx, chk):
    chk.rule('C18.1', 'D', 'only SerialComms::set_control reaches a stdout sink from the step functions '
             '(both configurations)', floor=2)
    chk.rule('C18.2', 'D', 'set_control writes iff bit 7 of the value is set; payload is the data latch; '
             'flush follows; results discarded', floor=2)
    chk.rule('C18.3', 'D', 'set_data only stores the latch, and nothing else writes it (a transfer leaves SB as it is)', floor=2)
    chk.rule('C18.4', 'D', 'I/O offsets 1/2 (and only those) route to set_data/set_control; IO::set_byte is '
             'reached only from memory_write_byte; every SB/SC write path of memory_write_byte reaches it', floor=5)
    for cfg in ('default', 'jit'):
        prog = ctx.program(cfg)
        if not need(chk, prog, [r for r in STEP_ROOTS] + [SET_CONTROL, SET_DATA, IO_SET]):
            continue
        parent = prog.reachable_fns(STEP_ROOTS)
        writers = {}
        for f in parent:
            if f not in prog.fns:
                continue
            for bb, t, names in prog.call_sites(f):
                for n in names:
                    if is_stdout_sink(n):
                        writers.setdefault(f, []).append((t['line'], n))
        # set_control and the private helpers it is split into (functions of SerialComms called from nowhere else)
        fam = private_family(prog, SET_CONTROL)
        if not (set(writers) & fam):
            chk.error('[%s] stdout sink detector found no write in %s or its private helpers (positive control lost)'
                      % (cfg, SET_CONTROL))
        for f, sites in sorted(writers.items()):
            key = '%s:%s' % (cfg, f)
            if f in fam:
                chk.ok('C18.1', key, sample={'writer': f, 'sinks': sorted(set(n for _, n in sites))})
            else:
                path = prog.path_to(parent, f)
                file, line = loc(prog, f, sites[0][0])
                chk.fail('C18.1', key, 'function %s writes the standard output stream while a ROM is running '
                         '(call path: %s; sink %s)' % (f, ' -> '.join(p[0] for p in path), sites[0][1]),
                         file, line, {'path': path, 'sites': sites})
        chk.extra.setdefault('reachable_functions', {})[cfg] = len([f for f in parent if f in prog.fns])
        # diagnostic-feature code is reported as information
    prog = ctx.program('default')
    facts = ctx.facts('default')
    # ---- rule 2: guard and payload
    ip = absint.Interp(facts)
    st = ip.new_state()
    me = ip.arg_object(st, 'serial')
    val = S(8, 'value')
    rs = ip.run(SET_CONTROL, [me, val], st)
    for i, r in enumerate(rs):
        effs = [e for e in r.state.events if e[0] == 'effect']
        kinds = [e[1] for e in effs]
        av = r.state.env.av(val)
        key = 'set_control:path%d' % i
        file, line = loc(prog, SET_CONTROL)
        if r.status != 'ok':
            chk.fail('C18.2', key, 'set_control can diverge (%s: %s)' % (r.status, r.detail), file, line)
            continue
        writes = [e for e in effs if e[1] == 'stdout']
        from .. import bvproof as _bp
        bit7 = O(1, 'ne', O(8, 'and', val, C(8, 0x80)), C(8, 0))
        b7set = bool(av.m1 & 0x80) or r.state.env.const_of(bit7) == 1 or _bp.equal_under(bit7, C(1, 1), r.state.env, 1) is True
        b7clr = bool(av.m0 & 0x80) or r.state.env.const_of(bit7) == 0 or _bp.equal_under(bit7, C(1, 0), r.state.env, 1) is True
        if writes:
            okb = b7set
            payload_ok = False
            for e in writes:
                snap = e[6]
                if len(snap) > 1:
                    tgt = snap[1]
                    if tgt is not None and tgt[0] == 'agg' and len(tgt[2]) == 1:
                        el = tgt[2][0]
                        if el[0] == 's' and el[3] and el[3][0] == 'field' and el[3][2] == 'latch':
                            payload_ok = True
            flush_after = 'stdout_flush' in kinds and kinds.index('stdout_flush') > kinds.index('stdout')
            if not okb:
                chk.fail('C18.2', key, 'stdout write on a path where bit 7 of the control value is not known set',
                         file, line)
            elif len(writes) != 1:
                chk.fail('C18.2', key, '%d stdout writes for one control write' % len(writes), file, line)
            elif not payload_ok:
                chk.fail('C18.2', key, 'written buffer is not the one-byte data latch', file, line)
            elif not flush_after:
                chk.fail('C18.2', key, 'write is not followed by flush on the same path', file, line)
            else:
                chk.ok('C18.2', key, sample={'path': 'bit7=1', 'effects': kinds})
        else:
            if b7clr:
                chk.ok('C18.2', key, sample={'path': 'bit7=0', 'effects': kinds})
            else:
                chk.fail('C18.2', key, 'no stdout write on a path where bit 7 of the value may be set', file, line)
    # ---- rule 3
    st = ip.new_state()
    me = ip.arg_object(st, 'serial')
    rs = ip.run(SET_DATA, [me, S(8, 'value')], st)
    for i, r in enumerate(rs):
        stores = [e for e in r.state.events if e[0] == 'store']
        others = [e for e in r.state.events if e[0] in ('effect', 'extcall', 'call')]
        good = (r.status == 'ok' and not others and len(stores) == 1 and stores[0][2][-1][1] == 'latch'
                and stores[0][3] == S(8, 'value'))
        file, line = loc(prog, SET_DATA)
        if good:
            chk.ok('C18.3', 'set_data:path%d' % i, sample={'store': 'latch := value'})
        else:
            chk.fail('C18.3', 'set_data:path%d' % i, 'set_data does more than store the latch: %s'
                     % [(e[0], e[1]) for e in r.state.events], file, line)
    # the latch is SB: it changes only when the guest writes SB (a transfer does not consume or alter it)
    OWN = 'devices::serial::SerialComms'
    lw = sorted(set(w[0] for w in prog.field_stores(OWN, 'latch')))
    okw = families(prog, [OWN + '::new', SET_DATA])
    if lw and set(lw) <= okw:
        chk.ok('C18.3', 'latch-writers', sample={'latch writers': lw})
    else:
        chk.fail('C18.3', 'latch-writers', 'the data latch (SB) is written in %s: a byte written once to SB is not what every '
                 'later transfer sends' % [w_ for w_ in lw if w_ not in okw], 'src/devices/serial.rs', None)
    # ---- rule 4: routing
    iofam = private_family(prog, IO_SET)
    setters = [n for n in prog.fns if n.startswith('devices::') and n not in iofam]
    ip2 = absint.Interp(facts, opaque=setters)
    st = ip2.new_state()
    io = ip2.arg_object(st, 'io')
    addr = S(16, 'addr')
    rs = ip2.run(IO_SET, [io, addr, S(8, 'value')], st)
    low = O(16, 'and', addr, C(16, 0xff))
    route = {}
    for r in rs:
        calls = [e[1] for e in r.state.events if e[0] == 'call']
        off = r.state.env.const_of(low)
        if off is None:
            off = r.state.env.const_of(O(8, 'trunc', addr))
        if off is None:
            from .. import bvproof
            off = bvproof.const_diff_under(low, C(16, 0), r.state.env, 16)
        for c in calls:
            if c in (SET_CONTROL, SET_DATA):
                route.setdefault(c, []).append(off)
    file, line = loc(prog, IO_SET)
    for fn, want in ((SET_DATA, 1), (SET_CONTROL, 2)):
        got = route.get(fn, [])
        if got == [want]:
            chk.ok('C18.4', 'route:%s' % fn.split('::')[-1], sample={'offset': want})
        else:
            chk.fail('C18.4', 'route:%s' % fn.split('::')[-1],
                     'IO::set_byte reaches %s for offsets %s, expected exactly [%#x]' % (fn, got, want), file, line)
    # delivered: every path of memory_write_byte that serves SB / SC (0xff01, 0xff02) hands the write to IO::set_byte - no
    # state-dependent shortcut (an OAM DMA in flight, a controller mode) drops it
    from .. import busmodel as _bm
    nd, badd = 0, None
    for p in _bm.BusModel(facts).write_paths():
        if p.get('status') != 'ok' or p['lo'] is None or p['hi'] < 0xff01 or p['lo'] > 0xff02:
            continue
        nd += 1
        names = [str(e[1]) for e in p['result'].state.events if e[0] in ('call', 'dyn')]
        if not any(n == IO_SET or n.endswith('IO::set_byte') for n in names):
            badd = badd or ('a write to 0x%04x-0x%04x can return without calling IO::set_byte (calls on that path: %s)'
                            % (p['lo'], p['hi'], names or 'none'))
    if badd or not nd:
        chk.fail('C18.4', 'delivered', 'memory_write_byte: %s' % (badd or 'no write path serving 0xff01-0xff02 found'),
                 'src/mem.rs', None)
    else:
        chk.ok('C18.4', 'delivered', sample={'write paths serving SB/SC': nd, 'each calls': 'IO::set_byte(addr, value)'})
    for cfg in ('default', 'jit'):
        p2 = ctx.program(cfg)
        cs = sorted(set(c[0] for c in p2.callers(IO_SET)))
        cs2 = sorted(set(c[0] for c in p2.callers(SET_CONTROL)))
        if cs == ['mem::memory_write_byte'] and cs2 and set(cs2) <= private_family(p2, IO_SET):
            chk.ok('C18.4', 'callers:%s' % cfg, sample={'IO::set_byte callers': cs, 'set_control callers': cs2})
        else:
            chk.fail('C18.4', 'callers:%s' % cfg, 'IO::set_byte is called from %s, set_control from %s' % (cs, cs2),
                     file, line)
    # ---- rule 5: translated code makes the same ordered bus accesses as the interpreter (so SB/SC writes issued by
    # translated code arrive in program order); decided by the value-level comparison of gbsa/jitsem.py
    chk.rule('C18.5', 'D', 'both execution modes: for every encoding the byte accesses made by the emitted x86 code '
             '(kind, order, address, value) equal the interpreter\'s', floor=400)
    from .. import jitsem
    jitsem.apply_rule(ctx, chk, 'C18.5', lambda c: c == 'bus')
    chk.assumptions += ['std::io::stdout().write/flush are synchronous on the calling thread',
                        'eprintln!/stderr is a different stream and is not restricted']
    return chk.finish('Effect confinement over the resolved call graph of both build configurations '
                      '(dyn calls expanded to all impls, closures and reified fn pointers followed), plus '
                      'path enumeration of set_control/set_data/IO::set_byte with symbolic address and value.',
                      exhaustive=True)
