"""C15 - the presented frame equals the reference composition (necessary conditions on the building blocks only).

The frame is a function of ~16 KiB of VRAM/OAM data through data-dependent loops; the composition itself (scanline
pipeline, window switch, object mixing and priority) is NOT decided here.  What is decided are the loop-free building
blocks every pixel goes through, each compared bit-precisely with its definition: if one of them is wrong, some frame is
wrong.  They are necessary conditions, stated as such (level N)."""
from .. import absint, terms as T
from ..terms import C, S, O, AV, fmt
from .common import *
from .c03 import syms_of

V = 'devices::video::VideoState::'
OW = 'devices::video::VideoState'
INTER = 'devices::video::tile::interleave'


def _bits_equal(m, got, want):
    return all(g == w for g, w in zip(got, want)) and len(got) == len(want)


def run(ctx, chk):
    from .. import bvproof
    from ..bdd import BDD, BV, TermBV, Unsupported
    chk.rule('C15.1', 'D', 'tile::interleave(low, high): pixel i of a tile row is bit i of the low plane and bit i of the high '
             'plane, i.e. result bit 2i = low bit i, bit 2i+1 = high bit i', floor=1)
    chk.rule('C15.2', 'D', 'row fetch: a background / object row is the interleave of the two consecutive bytes at '
             '(tile address + 2 * row); a horizontally flipped object row has its 8 pixels reversed', floor=3)
    chk.rule('C15.3', 'D', 'LCDC decode and tile addressing: after a write of LCDC the BG / window map bases, object size, '
             'enables and the tile-data address of every tile number (unsigned from 0x8000, signed around 0x9000) equal the '
             'hardware definition', floor=8)
    chk.rule('C15.4', 'D', 'palettes: BGP / OBP0 / OBP1 map colour c to the shade selected by bits 2c+1..2c of the register, '
             'through one table of four distinct shades', floor=3)
    chk.rule('C15.6', 'D', 'pixel mixing, per pixel of the mode-3 loop: the background colour is the top pixel of the tile '
             'cache; an object pixel (present) replaces it iff the object has priority or the background colour is 0; the '
             'shade comes from the BG palette / the object palette selected by the cached palette number; the pixel goes to '
             'LY * 160 + x; tile cache, object cache and x advance by one pixel', floor=4)
    chk.rule('C15.8', 'D', 'tile fetch: the background fetches map cell (next tile x, ((LY + SCY) mod 256) / 8) of the BG map and '
             'row (LY + SCY) mod 8 of that tile; the window fetches cell (next tile x, (LY - WY) / 8) of the window map and row '
             '(LY - WY) mod 8; the tile x then advances by one, wrapping at 32', floor=2)
    chk.rule('C15.7', 'D', 'object line cache, per object pixel: a cell is written only while it is empty and the pixel colour '
             'is not 0; it then holds present | priority | palette << 2 | colour, with the colour taken from the top of the '
             'row data, which shifts by one pixel per step; the cell is the object X + pixel number', floor=3)
    chk.rule('C15.5', 'D', 'object selection, per OAM entry: an object is on the line iff 0 <= LY + 16 - Y < height; the row is '
             'mirrored for a vertically flipped object; in 8x16 mode bit 0 of the tile number is ignored; priority, palette '
             'and flip bits are taken from attribute bits 7, 4, 6, 5; entries are scanned in OAM order and at most ten are kept',
             floor=6)
    facts = ctx.facts('default')
    prog = ctx.program('default')
    file = 'src/devices/video/mod.rs'
    names = [INTER] + [V + n for n in ('get_tile_row', 'get_object_row', 'get_tile_address', 'set_lcd_control', 'set_bgp',
                                       'set_obj_palette', 'find_current_line_sprites')]
    if not need(chk, prog, names):
        return chk.finish('anchors missing')
    # ---- rule 1
    ip = absint.Interp(facts, trust_asserts=('overflow',))
    st = ip.new_state()
    lo, hi = S(8, 'low'), S(8, 'high')
    rs = ip.run(INTER, [lo, hi], st)
    try:
        bad = None
        n = 0
        for r in rs:
            if r.status != 'ok' or r.ret is None or not T.is_int(r.ret):
                bad = 'interleave does not return a value on every path (%s)' % r.status
                continue
            n += 1
            m = BDD()
            conv = TermBV(m)
            v, L, H = conv(r.ret), conv(lo), conv(hi)
            for i in range(8):
                if v.b[2 * i] != L.b[i] or v.b[2 * i + 1] != H.b[i]:
                    bad = bad or 'result bits %d/%d are not low bit %d / high bit %d' % (2 * i, 2 * i + 1, i, i)
        if bad or not n:
            chk.fail('C15.1', 'interleave', 'tile::interleave: %s' % (bad or 'no path'), 'src/devices/video/tile.rs', None)
        else:
            chk.ok('C15.1', 'interleave', sample={'result bit 2i': 'low bit i', 'result bit 2i+1': 'high bit i'})
    except Unsupported as e:
        chk.error('C15.1: outside the bit-vector fragment: %s' % e.why)
    # ---- rule 2: row fetch
    def interleave_bits(m, L, H, flip):
        out = []
        for i in range(8):
            j = 7 - i if flip else i
            out += [L.b[j], H.b[j]]
        return out

    def row_rule(key, fn, args_of, base_of, flips):
        ipr = absint.Interp(facts, trust_asserts=('bounds', 'overflow'))
        for flip in flips:
            st = ipr.new_state()
            me = ipr.arg_object(st, 'video')
            tile, row = S(64, 'tile'), S(64, 'row')
            st.env.assume(tile, AV(64, 0, 255))
            st.env.assume(row, AV(64, 0, 15))
            rs = ipr.run(fn, args_of(me, tile, row, flip), st)
            bad = None
            n = 0
            try:
                for r in rs:
                    if r.status != 'ok' or r.ret is None or not T.is_int(r.ret):
                        bad = bad or 'does not return a row on every path (%s %s)' % (r.status, r.detail)
                        continue
                    n += 1
                    el = sorted([s_ for s_ in syms_of(r.ret) if s_[3] and s_[3][0] == 'elem'], key=lambda s_: len(fmt(s_[3][2])))
                    if len(el) != 2:
                        bad = bad or 'the row is built from %d bytes of video RAM, expected 2' % len(el)
                        continue
                    a0, a1 = el[0][3][2], el[1][3][2]
                    env = r.state.env
                    from ..affine import diff_const
                    if diff_const(a1, a0, env, 64) != 1:
                        bad = bad or 'the two planes are read from %s and %s, not from consecutive bytes' % (fmt(a0)[:60], fmt(a1)[:60])
                        continue
                    want_a = base_of(ipr, r, me, tile, row)
                    if want_a is None or not (a0 == want_a or diff_const(a0, want_a, env, 64) == 0 or
                                              bvproof.equal_under(a0, want_a, env, 64) is True):
                        bad = bad or 'the row is read at %s, expected %s' % (fmt(a0)[:80], fmt(want_a)[:80] if want_a else '?')
                        continue
                    m = BDD()
                    conv = TermBV(m)
                    v = conv(r.ret)
                    if list(v.b) != interleave_bits(m, conv(el[0]), conv(el[1]), flip):
                        bad = bad or ('the pixels of the row are not %s' % ('the mirrored interleave of the two planes' if flip
                                                                              else 'the interleave of the two planes'))
            except Unsupported as e:
                chk.error('C15.2 %s: outside the bit-vector fragment: %s' % (key, e.why))
                continue
            k2 = '%s:%s' % (key, 'flip_x' if flip else 'plain')
            if bad or not n:
                chk.fail('C15.2', k2, '%s: %s' % (fn.split('::')[-1], bad or 'no path'), file, None)
            else:
                chk.ok('C15.2', k2, sample={'bytes': 'address, address + 1', 'pixels': 'mirrored' if flip else 'in order'})

    def tile_base(ipr, r, me, tile, row):
        # the address get_tile_address gives for the tile (decided in rule 3), plus two bytes per row
        st2 = ipr.new_state()
        st2.env = r.state.env.copy()
        me2 = ipr.arg_object(st2, 'video')
        rr = [x for x in ipr.run(V + 'get_tile_address', [me2, tile], st2) if x.status == 'ok' and x.ret is not None]
        if len(rr) != 1:
            return None
        return O(64, 'add', rr[0].ret, O(64, 'mul', row, C(64, 2)))
    row_rule('bg', V + 'get_tile_row', lambda me, tile, row, flip: [me, S(0, 'vram'), tile, row], tile_base, (0,))
    row_rule('obj', V + 'get_object_row', lambda me, tile, row, flip: [me, S(0, 'vram'), tile, row, C(1, flip)],
             lambda ipr, r, me, tile, row: O(64, 'add', O(64, 'shl', tile, C(64, 4)), O(64, 'mul', row, C(64, 2))), (0, 1))
    # ---- rule 3: LCDC decode
    adt = facts['adts'][OW]
    elems = {f_['name']: ('f', i, f_['name'], f_['ty'], OW) for i, f_ in enumerate(adt['fields'])}
    ipl = absint.Interp(facts, trust_asserts=('overflow',), opaque=['devices::video::lcd::LCD::set_enabled'])
    st = ipl.new_state()
    me = ipl.arg_object(st, 'video')
    val = S(8, 'lcdc')
    rs = ipl.run(V + 'set_lcd_control', [me, val], st)
    decode = {'bg_map_offset': (0x08, 64, 0x1c00, 0x1800), 'window_map_offset': (0x40, 64, 0x1c00, 0x1800),
              'object_double_height': (0x04, 1, 1, 0), 'object_enabled': (0x02, 1, 1, 0), 'window_enabled': (0x20, 1, 1, 0),
              'bg_window_enabled': (0x01, 1, 1, 0)}
    probs = {k: None for k in decode}
    taddr_bad = None
    npaths = 0
    idx8 = S(8, 'tile_number')
    idx = O(64, 'zext', idx8)
    for r in rs:
        if r.status != 'ok':
            taddr_bad = taddr_bad or 'set_lcd_control can diverge (%s)' % r.status
            continue
        npaths += 1
        env = r.state.env
        for fld_, (bit, w, on, off) in decode.items():
            if fld_ not in elems:
                probs[fld_] = 'field not found'
                continue
            v = ipl.read(r.state, ('O', 'video'), (elems[fld_],))
            isset = O(1, 'ne', O(8, 'and', val, C(8, bit)), C(8, 0))
            want_set = env.const_of(isset)
            if v is None or not T.is_int(v):
                probs[fld_] = 'value not readable after the write'
                continue
            if want_set is None:
                # the path does not fix the bit: both cases must hold
                for b_ in (0, 1):
                    e2 = env.copy()
                    if e2.assume_eq(isset, b_) and e2.const_of(v) != (on if b_ else off):
                        probs[fld_] = 'is %s when LCDC bit %#x is %d (expected %#x)' % (fmt(v)[:40], bit, b_, on if b_ else off)
            elif env.const_of(v) != (on if want_set else off):
                probs[fld_] = 'is %s when LCDC bit %#x is %d (expected %#x)' % (fmt(v)[:40], bit, want_set, on if want_set else off)
        # tile data addressing on the state this path leaves
        st2 = r.state.copy()
        unsigned_mode = env.const_of(O(1, 'ne', O(8, 'and', val, C(8, 0x10)), C(8, 0)))
        for rr in ipl.run(V + 'get_tile_address', [('ref', ('O', 'video'), ()), idx], st2):
            if rr.status != 'ok' or rr.ret is None:
                taddr_bad = taddr_bad or 'get_tile_address does not return (%s)' % rr.status
                continue
            ref_u = O(64, 'mul', idx, C(64, 16))
            ref_s = O(64, 'add', C(64, 0x1000), O(64, 'mul', O(64, 'sext', idx8), C(64, 16)))
            for mode, ref in ((1, ref_u), (0, ref_s)):
                if unsigned_mode is not None and unsigned_mode != mode:
                    continue
                e2 = rr.state.env.copy()
                if unsigned_mode is None and not e2.assume_eq(O(1, 'ne', O(8, 'and', val, C(8, 0x10)), C(8, 0)), mode):
                    continue
                if not (bvproof.equal_under(rr.ret, ref, e2, 64) is True):
                    d = bvproof.const_diff_under(rr.ret, ref, e2, 64)
                    taddr_bad = taddr_bad or ('with LCDC bit 4 = %d tile number n is fetched from %s, expected %s (VRAM offsets)'
                                              % (mode, fmt(rr.ret)[:80], 'n * 16' if mode else '0x1000 + signed(n) * 16'))
    for fld_, p_ in sorted(probs.items()):
        if p_ or not npaths:
            chk.fail('C15.3', 'lcdc:' + fld_, 'after an LCDC write %s %s' % (fld_, p_ or 'is not set'), file, None)
        else:
            chk.ok('C15.3', 'lcdc:' + fld_, sample={'field': fld_, 'LCDC bit': hex(decode[fld_][0])})
    for mode in ('unsigned', 'signed'):
        if taddr_bad or not npaths:
            chk.fail('C15.3', 'tile-address:' + mode, taddr_bad or 'no path', file, None)
        else:
            chk.ok('C15.3', 'tile-address:' + mode, sample={'LCDC.4 = 1': '0x8000 + n * 16', 'LCDC.4 = 0': '0x9000 + signed(n) * 16'})
    # ---- rule 4: palettes
    ipp = absint.Interp(facts, trust_asserts=('overflow', 'bounds'))
    pal_tables = []
    for key, fn, arr, args_of, base in (('BGP', V + 'set_bgp', 'bg_palette', lambda me, v: [me, v], 0),
                                        ('OBP0', V + 'set_obj_palette', 'object_palettes', lambda me, v: [me, C(64, 0), v], 0),
                                        ('OBP1', V + 'set_obj_palette', 'object_palettes', lambda me, v: [me, C(64, 1), v], 4)):
        st = ipp.new_state()
        me = ipp.arg_object(st, 'video')
        v = S(8, 'palette')
        rs = list(ipp.run(fn, args_of(me, v), st))
        bad = None
        table = None
        n = 0
        # the paths may already be split by selector value (a shade table indexed by the selector): a selector value that
        # is infeasible on one path is covered by another; the table is collected over all paths, then every colour of
        # every path is compared with it
        tb = {}
        per_path = []
        for r in rs:
            if r.status != 'ok':
                bad = bad or '%s can diverge (%s)' % (fn.split('::')[-1], r.status)
                continue
            n += 1
            ents = []
            for c_ in range(4):
                t_ = ipp.read(r.state, ('O', 'video'), (elems[arr], ('i', C(64, base + c_), 'u8')))
                ents.append(t_)
            if any(t_ is None or not T.is_int(t_) for t_ in ents):
                bad = bad or 'palette entries are not readable after the write'
                continue
            per_path.append((r, ents))
            # the shade table: what entry 0 becomes for each of the four 2-bit selectors
            for sel in range(4):
                e2 = r.state.env.copy()
                if not e2.assume_eq(O(8, 'and', v, C(8, 3)), sel) or not absint.feasible(e2):
                    continue
                got = e2.const_of(ents[0])
                if got is None:
                    got = bvproof.const_diff_under(ents[0], C(8, 0), e2, 8)
                if got is None or tb.setdefault(sel, got) != got:
                    bad = bad or 'colour 0 with register bits 1..0 = %d does not give one fixed shade (%s / %s)' % (
                        sel, got, tb.get(sel))
        if not bad and (sorted(tb) != [0, 1, 2, 3] or len(set(tb.values())) != 4):
            bad = 'colour 0 does not select one of four distinct shades by bits 1..0 (%s)' % [tb.get(k_) for k_ in range(4)]
        if not bad:
            table = [tb[k_] for k_ in range(4)]
            for r, ents in per_path:
                for c_ in range(4):
                    sel_t = O(8, 'and', O(8, 'shr', v, C(8, 2 * c_)), C(8, 3))
                    for sel in range(4):
                        e2 = r.state.env.copy()
                        if e2.assume_eq(sel_t, sel) and absint.feasible(e2):
                            got = e2.const_of(ents[c_])
                            if got is None:
                                got = bvproof.const_diff_under(ents[c_], C(8, 0), e2, 8)
                            if got != tb[sel]:
                                bad = bad or 'colour %d with register bits %d..%d = %d gives shade %s, colour 0 gives %s for ' \
                                    'the same selector' % (c_, 2 * c_ + 1, 2 * c_, sel, got, tb[sel])
        if bad or not n:
            chk.fail('C15.4', key, '%s: %s' % (key, bad or 'no path'), file, None)
        else:
            pal_tables.append(tuple(table))
            chk.ok('C15.4', key, sample={'register': key, 'shade of colour c': 'TABLE[(value >> 2c) & 3]', 'TABLE': table})
    if len(set(pal_tables)) > 1:
        chk.fail('C15.4', 'same-table', 'background and object palettes use different shade tables: %s' % sorted(set(pal_tables)),
                 file, None)
    # ---- rule 5: object selection (one iteration of the OAM scan)
    object_scan(ctx, chk, facts, prog, file, elems)
    # ---- rule 8: which tile row is fetched next (background with scroll, window)
    tile_fetch(ctx, chk, facts, prog, file)
    # ---- rule 7: the per-line object cache
    object_cache(ctx, chk, facts, prog, file)
    # ---- rule 6: one pixel of the mode-3 loop
    pixel_mix(ctx, chk, facts, prog, file)
    chk.assumptions += ['NOT decided: the scanline pipeline itself (tile fetch sequencing with SCX/SCY wrap-around, window '
                        'switch, mixing of the ten selected objects by X then OAM index, BG-over-OBJ) - data-dependent loops '
                        'over 16 KiB of symbolic memory; the clauses above are necessary conditions only',
                        'the shade bytes of the LCD buffer are an arbitrary injective encoding of the four DMG shades']
    return chk.finish('Bit-precise comparison (canonical ROBDD per bit) of the loop-free building blocks of the renderer with '
                      'their definitions: plane interleave, row fetch and horizontal flip, LCDC decode and tile addressing, '
                      'palette decode, and one symbolic iteration of the OAM scan.  The composition of a frame is not decided.',
                      exhaustive=False)


def object_scan(ctx, chk, facts, prog, file, elems):
    from .. import bvproof
    FN = V + 'find_current_line_sprites'
    GOR = V + 'get_object_row'
    log = []

    def push_model(ipx, st, fr, t, args, site, dest_ty):
        st.events.append(('pure', t['resolved'], tuple(args), T.UNIT, site))
        yield (T.UNIT, st, 'ok', None)

    def len_model(ipx, st, fr, t, args, site, dest_ty):
        ret = st.fresh(64, 'veclen')
        st.events.append(('pure', t['resolved'], tuple(args), ret, site))
        yield (ret, st, 'ok', None)
    ipx = absint.Interp(facts, loop_mode='havoc', opaque=[GOR], trust_asserts=('overflow', 'bounds'),
                        models={'std::vec::Vec::<T, A>::push': push_model, 'std::vec::Vec::<T, A>::len': len_model,
                                'std::vec::Vec::<T>::with_capacity': absint.m_pure('vecnew', 0)},
                        path_budget=4000, always_summarise=True)
    st = ipx.new_state()
    me = ipx.arg_object(st, 'video')
    rs = ipx.run(FN, [me, S(0, 'vram'), S(0, 'oam')], st)
    LY = S(8, 'video.current_line', ('field', OW, 'current_line', 'u8'))
    DH = S(1, 'video.object_double_height', ('field', OW, 'object_double_height', 'bool'))
    # iterations of the OAM scan: paths that read four consecutive OAM bytes at a loop-variable offset
    its = []
    for r in rs:
        if r.status not in ('loopback', 'ok'):
            continue
        oam = [s_ for d in r.state.decisions for s_ in syms_of(d[0]) if s_[3] and s_[3][0] == 'elem' and 'oam' in s_[2]]
        calls = [e for e in r.state.events if e[0] == 'call' and e[1] == GOR]
        pushes = [e for e in r.state.events if e[0] == 'pure' and e[1].endswith('::push')]
        if r.status == 'loopback' and (oam or calls or pushes):
            its.append((r, calls, pushes))
    if not its:
        chk.error('C15.5: no iteration of the OAM scan found in find_current_line_sprites (anchor lost)')
        return
    sel_bad = row_bad = tile_bad = attr_bad = None
    covered = set()
    order_bad = None
    limit_ok = False
    nsel = 0
    for r, calls, pushes in its:
        env = r.state.env
        # the loop variable that indexes OAM and the four bytes read through it
        elem = {}
        for e in r.state.events:
            pass
        allsyms = set()
        for d in r.state.decisions:
            allsyms |= syms_of(d[0])
        for c in calls:
            for a in c[2]:
                if isinstance(a, tuple):
                    allsyms |= syms_of(a)
        for p in pushes:
            for a in p[2]:
                if isinstance(a, tuple):
                    from .common import _collect_syms
                    _collect_syms(a, allsyms)
        oams = [s_ for s_ in allsyms if s_[3] and s_[3][0] == 'elem' and 'oam' in s_[2]]
        offs = set()
        byk = {}
        for s_ in oams:
            ix = s_[3][2]
            lv = [x for x in syms_of(ix) if x[2].startswith('loopvar:')]
            if len(lv) != 1:
                continue
            from ..affine import diff_const
            k = diff_const(ix, lv[0], env, 64)
            if k is not None and 0 <= k <= 3:
                byk[k] = s_
                offs.add(lv[0])
        if len(offs) != 1 or 0 not in byk:
            continue
        X = next(iter(offs))
        # coverage: which OAM entries the guard lets into an iteration (OAM is 0xa0 bytes: the fixed buffer size)
        lens_ = [y for y in allsyms | set(y2 for d in r.state.decisions for y2 in syms_of(d[0]))
                 if isinstance(y[2], str) and y[2].startswith('len(') and 'oam' in y[2]]
        for k_ in range(40):
            if k_ in covered:
                continue
            e2 = env.copy()
            if all(e2.assume_eq(l_, 0xa0) for l_ in lens_) and e2.assume_eq(X, 4 * k_) and absint.feasible(e2):
                covered.add(k_)
        # guard: offset < 160 and fewer than ten kept
        for d in r.state.decisions:
            t = d[0]
            if t[0] == 'o' and t[2] == 'ult' and t[4] == C(64, 10) and 'veclen' in fmt(t[3]) and env.const_of(t) == 1:
                limit_ok = True
        fin = None
        import re
        mloc = re.search(r':_(\d+)$', X[2])
        if mloc:
            fin = r.state.mem.get(('L', 1, int(mloc.group(1))))
        if fin is None or not (fin == O(64, 'add', X, C(64, 4)) or bvproof.equal_under(fin, O(64, 'add', X, C(64, 4)), env, 64)):
            order_bad = order_bad or 'the OAM offset advances to %s, expected offset + 4' % (fmt(fin)[:60] if fin else '?')
        init = [e[2] for e in r.state.events if e[0] == 'loopinit' and e[1] == X]
        if init and env.const_of(init[0]) != 0:
            order_bad = order_bad or 'the OAM scan starts at offset %s, not 0' % fmt(init[0])
        Y = byk[0]
        H = O(64, 'add', C(64, 8), O(64, 'mul', O(64, 'zext', DH), C(64, 8)))
        ol = O(64, 'sub', O(64, 'add', O(64, 'zext', LY), C(64, 16)), O(64, 'zext', Y))       # LY + 16 - Y (two's complement)
        on_line = O(1, 'ult', ol, H)                                                        # 0 <= ol < H  (unsigned trick)
        selected = bool(calls) or bool(pushes)
        cv = env.const_of(on_line)
        if cv is None:
            pv = bvproof.equal_under(on_line, C(1, 1 if selected else 0), env, 1)
            cv = (1 if selected else 0) if pv is True else None
        if selected and cv != 1:
            sel_bad = sel_bad or 'an object is kept although LY + 16 - Y need not lie in 0..height'
        if not selected and cv != 0:
            sel_bad = sel_bad or 'an object is skipped although LY + 16 - Y may lie in 0..height'
        if not selected:
            continue
        nsel += 1
        if len(calls) != 1 or len(pushes) != 1 or 2 not in byk or 3 not in byk or 1 not in byk:
            attr_bad = attr_bad or 'a kept object does not fetch exactly one row / is not pushed exactly once'
            continue
        A = byk[3]
        _, tile_a, row_a, flipx_a = calls[0][2][1:5] if len(calls[0][2]) >= 5 else (None, None, None, None)
        flip_y = O(1, 'ne', O(8, 'and', A, C(8, 0x40)), C(8, 0))
        h1 = O(64, 'sub', H, C(64, 1))
        want_row_plain, want_row_flip = ol, O(64, 'sub', h1, ol)
        fy = env.const_of(flip_y)
        for mode, want_row in ((0, want_row_plain), (1, want_row_flip)):
            if fy is not None and fy != mode:
                continue
            e2 = env.copy()
            if fy is None and not e2.assume_eq(flip_y, mode):
                continue
            if row_a is None or not T.is_int(row_a) or bvproof.equal_under(row_a, want_row, e2, 64) is not True:
                row_bad = row_bad or ('object row with attribute bit 6 = %d is %s, expected %s' % (
                    mode, fmt(row_a)[:60] if row_a is not None else '?', 'height - 1 - (LY + 16 - Y)' if mode else 'LY + 16 - Y'))
        # tile number: bit 0 ignored in 8x16 mode
        tnum = O(64, 'zext', byk[2])
        # (the loop summary may have given the unmodified field a fresh generation: all its generations agree)
        dhs = [DH] + [x for x in allsyms if x[3] and x[3][0] == 'field' and x[3][2] == 'object_double_height' and x != DH]
        for dh_ in (0, 1):
            e2 = env.copy()
            if not all(e2.assume_eq(x, dh_) for x in dhs):
                continue
            want_t = O(64, 'and', tnum, C(64, 0xfe)) if dh_ else tnum
            if tile_a is None or not T.is_int(tile_a) or bvproof.equal_under(tile_a, want_t, e2, 64) is not True:
                tile_bad = tile_bad or ('in %s mode the row is fetched from tile %s, expected %s' % (
                    '8x16' if dh_ else '8x8', fmt(tile_a)[:60] if tile_a is not None else '?',
                    'tile number & 0xfe (top tile even, bottom tile odd)' if dh_ else 'the tile number'))
        want_fx = O(1, 'ne', O(8, 'and', A, C(8, 0x20)), C(8, 0))
        if flipx_a is None or not T.is_int(flipx_a) or not (flipx_a == want_fx or
                                                            bvproof.equal_under(flipx_a, want_fx, env, 1) is True):
            attr_bad = attr_bad or 'horizontal flip is %s, expected attribute bit 5' % (fmt(flipx_a)[:60] if flipx_a is not None else '?')
        # pushed attributes
        pv_ = pushes[0][2][1] if len(pushes[0][2]) > 1 else None
        obj = pv_[2][0] if (pv_ is not None and pv_[0] == 'agg' and pv_[1][3] == 'Some' and pv_[2]) else pv_
        if obj is None or obj[0] != 'agg' or obj[1][0] != 'adt':
            attr_bad = attr_bad or 'the kept object is not recorded as an ObjectAttributes value'
            continue
        oadt = facts['adts'].get(obj[1][1])
        fn_ = [f_['name'] for f_ in oadt['fields']] if oadt else []
        vals = dict(zip(fn_, obj[2]))
        wants = {'has_priority': (O(1, 'eq', O(8, 'and', A, C(8, 0x80)), C(8, 0)), 1),
                 'palette': (O(8, 'and', O(8, 'shr', A, C(8, 4)), C(8, 1)), 8),
                 'x_coord': (byk[1], 8), 'row_data': (calls[0][3], 16)}
        for k_, (w_, bits_) in wants.items():
            g_ = vals.get(k_)
            if g_ is None or not T.is_int(g_) or not (g_ == w_ or bvproof.equal_under(g_, w_, env, bits_) is True):
                attr_bad = attr_bad or 'recorded %s is %s, expected %s' % (k_, fmt(g_)[:60] if g_ is not None else '?', fmt(w_)[:60])
    for key, bad, what in (('on-line', sel_bad, 'kept iff 0 <= LY + 16 - Y < height'),
                           ('row', row_bad, 'row = LY + 16 - Y, mirrored when attribute bit 6 is set'),
                           ('tile-8x16', tile_bad, 'bit 0 of the tile number ignored in 8x16 mode'),
                           ('attributes', attr_bad, 'priority = !bit 7, palette = bit 4, x flip = bit 5, X and row data recorded'),
                           ('oam-order', order_bad, 'offset 0, 4, 8, ...')):
        if bad or not nsel:
            chk.fail('C15.5', key, 'find_current_line_sprites: %s' % (bad or 'no iteration keeps an object'), file, None)
        else:
            chk.ok('C15.5', key, sample={'clause': what})
    missing = [k_ for k_ in range(40) if k_ not in covered]
    if missing:
        chk.fail('C15.5', 'scan-range', 'find_current_line_sprites: OAM entr%s %s never examined (the scan guard excludes offset '
                 '%s of the 0xa0-byte OAM)' % ('y' if len(missing) == 1 else 'ies', missing[:6], [hex(4 * k_) for k_ in missing[:6]]),
                 file, None)
    else:
        chk.ok('C15.5', 'scan-range', sample={'entries examined': '0..39 (offsets 0, 4, .., 0x9c)'})
    # the scan is made for the line being entered: after a call of find_current_line_sprites no store to LY follows within
    # the same step of the caller (a scan made before `current_line` is updated selects the objects of the previous line -
    # of line 153 for screen line 0)
    ipl = absint.Interp(facts)
    stale, ncall = None, 0
    for cf, cbb, cline, _k in prog.callers(FN):
        if cf not in prog.fns:
            continue
        ncall += 1
        heads = set(ipl.loops_of(cf).keys())
        t_ = prog.fns[cf]['blocks'][cbb]['term']
        nxt = t_.get('target', -1)
        if nxt is None or nxt < 0:
            continue
        after = set() if nxt in heads else prog.reachable_blocks(cf, nxt, avoid=heads)
        for w in prog.field_stores(OW, 'current_line'):
            if w[0] == cf and w[1] in after and w[4] in ('exact', 'addr_taken'):
                stale = stale or ('%s (line %s) scans OAM and then stores LY at line %s: the scan saw the previous line\'s LY'
                                  % (cf, cline, w[2]))
    if stale or not ncall:
        chk.fail('C15.5', 'scan-after-ly', stale or 'find_current_line_sprites is called from nowhere', file, None)
    else:
        chk.ok('C15.5', 'scan-after-ly', sample={'call sites': ncall, 'rule': 'no store to current_line after the scan within the step'})
    if limit_ok:
        chk.ok('C15.5', 'ten-per-line', sample={'guard': 'objects kept < 10'})
    else:
        chk.fail('C15.5', 'ten-per-line', 'the OAM scan is not guarded by "fewer than ten objects kept"', file, None)


def pixel_mix(ctx, chk, facts, prog, file):
    from .. import bvproof
    from ..affine import diff_const
    RCC = V + 'run_clock_cycles'
    opq = [V + n for n in ('find_current_line_sprites', 'cache_next_tile_row', 'cache_next_window_tile_row',
                           'check_mode_interrupt', 'check_current_line')] + ['devices::video::lcd::LCD::swap_buffers']
    opq = [o for o in opq if o in prog.fns]
    ipx = absint.Interp(facts, loop_mode='havoc', opaque=opq, opaque_havoc={o: [0] for o in opq},
                        trust_asserts=('overflow', 'bounds', 'slice_index'), path_budget=8000, always_summarise=True)
    st = ipx.new_state()
    me = ipx.arg_object(st, 'video')
    cyc = ('agg', ('adt', 'timing::ClockCycles', 0, 'ClockCycles'), (S(64, 'clocks'),))
    rs = ipx.run(RCC, [me, cyc, S(0, 'vram'), S(0, 'oam')], st)
    its = []
    for r in rs:
        if r.status != 'loopback':
            continue
        sts = [e for e in r.state.events if e[0] == 'store' and e[2] and e[2][-1][0] == 'i' and 'lcd' in str(e[1]) + str(e[2])]
        if sts:
            its.append((r, sts))
    if not its:
        chk.error('C15.6: no pixel-writing loop iteration found in VideoState::run_clock_cycles (anchor lost)')
        return

    def elem_of(t, what):
        return t[0] == 's' and t[3] and t[3][0] == 'elem' and what in t[3][1]
    mix_bad = pal_bad = pos_bad = adv_bad = None
    seen = set()
    for r, sts in its:
        env = r.state.env
        if len(sts) != 1:
            pos_bad = pos_bad or 'one pixel step writes %d cells of the line buffer' % len(sts)
            continue
        idx, val = sts[0][2][-1][1], sts[0][3]
        allsyms = set()
        for d in r.state.decisions:
            allsyms |= syms_of(d[0])
        allsyms |= syms_of(val) | syms_of(idx)
        for e in r.state.events:
            if e[0] == 'store' and e[2] and e[2][-1][1] == 'current_tile_cache' and e[3] is not None:
                allsyms |= syms_of(e[3])
        objs = [x for x in allsyms if elem_of(x, 'object_line_cache')]
        tcs = [x for x in allsyms if x[3] and x[3][0] == 'field' and x[3][2] == 'current_tile_cache']
        lys = [x for x in syms_of(idx) if x[3] and x[3][0] == 'field' and x[3][2] == 'current_line']
        xs = [x for x in syms_of(idx) if x[2].startswith('loopvar:')]
        if len(objs) != 1 or not tcs or len(lys) != 1 or len(xs) != 1:
            mix_bad = mix_bad or 'the pixel step does not read one object-cache pixel and the tile cache (%d / %d)' % (len(objs), len(tcs))
            continue
        OBJ, TC, LYs, X = objs[0], sorted(tcs, key=lambda x: x[2])[-1], lys[0], xs[0]
        want_idx = O(64, 'add', O(64, 'mul', O(64, 'zext', LYs), C(64, 160)), X)
        if not (idx == want_idx or diff_const(idx, want_idx, env, 64) == 0 or bvproof.equal_under(idx, want_idx, env, 64) is True):
            pos_bad = pos_bad or 'the pixel is written at %s, expected LY * 160 + x' % fmt(idx)[:80]
        # cached object pixels hold a palette number of 0 or 1 (C15.5 attributes + C15.7 cell format): bits 3 and 4 are 0
        env = env.copy()
        env.assume_eq(O(8, 'and', OBJ, C(8, 0x18)), 0)
        bgc = O(8, 'trunc', O(16, 'shr', TC, C(16, 14)))
        present = O(1, 'ne', O(8, 'and', OBJ, C(8, 0x80)), C(8, 0))
        prio = O(1, 'ne', O(8, 'and', OBJ, C(8, 0x40)), C(8, 0))
        wins = O(1, 'and', present, O(1, 'or', prio, O(1, 'eq', bgc, C(8, 0))))
        # which palette cell does the written value come from?
        src = val if (val[0] == 's' and val[3] and val[3][0] == 'elem') else None
        if src is None:
            pal_bad = pal_bad or 'the written shade %s is not a palette entry' % fmt(val)[:60]
            continue
        from_obj = 'object_palettes' in src[3][1]
        from_bg = 'bg_palette' in src[3][1]
        if not (from_obj or from_bg):
            pal_bad = pal_bad or 'the written shade comes from %s' % src[3][1][:60]
            continue
        cv = env.const_of(wins)
        if cv is None:
            pv = bvproof.equal_under(wins, C(1, 1 if from_obj else 0), env, 1)
            cv = (1 if from_obj else 0) if pv is True else None
        if from_obj and cv != 1:
            mix_bad = mix_bad or 'an object shade is written although the object pixel need not be present with priority / over BG colour 0'
        if from_bg and cv != 0:
            mix_bad = mix_bad or 'the background shade is written although a present object pixel with priority (or over BG colour 0) may exist'
        pidx = src[3][2]
        if from_bg:
            want_p = O(64, 'zext', bgc)
        else:
            want_p = O(64, 'add', O(64, 'mul', O(64, 'zext', O(8, 'and', O(8, 'shr', OBJ, C(8, 2)), C(8, 7))), C(64, 4)),
                       O(64, 'zext', O(8, 'and', OBJ, C(8, 3))))
        if not (T.is_int(pidx) and (bvproof.equal_under(O(64, 'zext', pidx) if pidx[1] < 64 else pidx, want_p, env, 64) is True)):
            pal_bad = pal_bad or ('the %s shade is taken from palette cell %s, expected %s' % (
                'object' if from_obj else 'background', fmt(pidx)[:70],
                'palette number * 4 + colour' if from_obj else 'the top pixel of the tile cache'))
        seen.add('obj' if from_obj else 'bg')
        # advance: tile cache << 2, x + 1, object cache position + 1
        import re
        mloc = re.search(r':_(\d+)$', X[2])
        fx = r.state.mem.get(('L', 1, int(mloc.group(1)))) if mloc else None
        if fx is None or not (fx == O(64, 'add', X, C(64, 1)) or bvproof.equal_under(fx, O(64, 'add', X, C(64, 1)), env, 64) is True):
            adv_bad = adv_bad or 'x advances to %s, expected x + 1' % (fmt(fx)[:60] if fx is not None else '?')
        tcst = [e for e in r.state.events if e[0] == 'store' and e[2] and e[2][-1][1] == 'current_tile_cache']
        if not tcst or not (bvproof.equal_under(tcst[-1][3], O(16, 'shl', TC, C(16, 2)), env, 16) is True):
            adv_bad = adv_bad or 'the tile cache is not shifted by one pixel (2 bits) per pixel'
        ocst = [e for e in r.state.events if e[0] == 'store' and e[2] and e[2][-1][1] == 'current_obj_line_cache_pixel']
        opos = OBJ[3][2]
        if not ocst or not (bvproof.equal_under(ocst[-1][3], O(64, 'add', opos, C(64, 1)), env, 64) is True):
            adv_bad = adv_bad or 'the object cache position does not advance by one per pixel'
    # ---- rule 9: which pixel of the 8-pixel tile row a 4-dot group starts on
    phase_bad = None
    nphase = 0
    phase_memo = set()
    SCX = S(8, 'video.scroll_x', ('field', OW, 'scroll_x', 'u8'))
    WX = S(8, 'video.window_x', ('field', OW, 'window_x', 'u8'))
    for r, sts in its:
        env = r.state.env
        inits = {}
        for e in r.state.events:
            if e[0] == 'loopinit' and e[1] not in inits and e[2] != e[1]:
                inits[e[1]] = e[2]
        # the pixel-in-tile counter is the loop variable tested against 8; x is the one that indexes the line buffer
        tvars = [d[0][3] for d in r.state.decisions if d[0][0] == 'o' and d[0][2] == 'ult' and d[0][4] == C(64, 8)
                 and d[0][3][0] == 's' and d[0][3][2].startswith('loopvar:')]
        xvars = [x for x in syms_of(sts[0][2][-1][1]) if x[2].startswith('loopvar:')] if len(sts) == 1 else []
        if not tvars or len(xvars) != 1 or tvars[0] not in inits or xvars[0] not in inits:
            continue
        def entry(v):
            # the value the variable has when the dot group starts: through the summaries of the nested loops
            for _ in range(4):
                if v in inits and inits[v] != v:
                    v = inits[v]
                else:
                    break
            return v
        T0, D0 = entry(tvars[0]), entry(xvars[0])
        if any(x[2].startswith('loopvar:') for x in syms_of(T0) | syms_of(D0)):
            continue
        wl = [x for d in r.state.decisions for x in syms_of(d[0]) if x[3] and x[3][0] == 'discr' and 'current_window_line' in x[2]]
        bg = O(64, 'and', O(64, 'add', D0, O(64, 'zext', O(8, 'and', SCX, C(8, 7)))), C(64, 7))
        win = O(64, 'and', O(64, 'sub', O(64, 'add', D0, C(64, 7)), O(64, 'zext', WX)), C(64, 7))
        inwin = O(1, 'uge', O(64, 'add', D0, C(64, 7)), O(64, 'zext', WX))
        cases = []
        if wl:
            cases.append(([(wl[0], 0)], bg, 'no window on this line'))
            cases.append(([(wl[0], 1), (inwin, 1)], win, 'window line, dot + 7 >= WX'))
            cases.append(([(wl[0], 1), (inwin, 0)], bg, 'window line, dot + 7 < WX'))
        else:
            cases.append(([], bg, 'background'))
        for assume, want, label in cases:
            e2 = env.copy()
            if not all(e2.assume_eq(t_, v_) for t_, v_ in assume):
                continue
            rel = bvproof.relevant(e2, (T0, D0, WX, SCX))
            mkey = (T0, D0, label, tuple(rel.log) if hasattr(rel, 'log') else None)
            if mkey in phase_memo:
                continue
            phase_memo.add(mkey)
            if not absint.feasible(rel):
                continue
            nphase += 1
            if not (bvproof.equal_under(T0, want, e2, 64) is True):
                phase_bad = phase_bad or ('a 4-dot group starting at dot d begins at tile pixel %s (%s), expected %s'
                                          % (fmt(T0)[:80], label, '(d + 7 - WX) & 7' if want is win else '(d + SCX) & 7'))
    if nphase:
        chk.rule('C15.9', 'D', 'pixel phase: a 4-dot group that starts at dot d begins on tile pixel (d + SCX) mod 8 of the '
                 'background, or (d + 7 - WX) mod 8 of the window once d + 7 >= WX on a window line', floor=1)
        if phase_bad:
            chk.fail('C15.9', 'phase', 'mode-3 dot group: %s' % phase_bad, file, None)
        else:
            chk.ok('C15.9', 'phase', sample={'cases decided': nphase})
    else:
        chk.rule('C15.9', 'D', 'pixel phase at the start of a 4-dot group', floor=1)
        chk.error('C15.9: the pixel-in-tile counter of the mode-3 loop was not identified (no verdict on the phase clause)')
    if seen != {'obj', 'bg'} and not mix_bad:
        mix_bad = 'pixel steps found only for %s' % sorted(seen)
    for key, bad, what in (('mix', mix_bad, 'object pixel wins iff present and (priority or BG colour 0)'),
                           ('palette', pal_bad, 'BG: bg_palette[colour]; object: object_palettes[palette * 4 + colour]'),
                           ('position', pos_bad, 'LY * 160 + x'),
                           ('advance', adv_bad, 'tile cache << 2, x + 1, object cache + 1')):
        if bad:
            chk.fail('C15.6', key, 'mode-3 pixel step: %s' % bad, file, None)
        else:
            chk.ok('C15.6', key, sample={'clause': what, 'iteration paths': len(its)})


def _scan_interp(facts):
    GOR = V + 'get_object_row'

    def push_model(ipx, st, fr, t, args, site, dest_ty):
        st.events.append(('pure', t['resolved'], tuple(args), T.UNIT, site))
        yield (T.UNIT, st, 'ok', None)

    def len_model(ipx, st, fr, t, args, site, dest_ty):
        ret = st.fresh(64, 'veclen')
        st.events.append(('pure', t['resolved'], tuple(args), ret, site))
        yield (ret, st, 'ok', None)
    return absint.Interp(facts, loop_mode='havoc', opaque=[GOR], trust_asserts=('overflow', 'bounds'),
                         models={'std::vec::Vec::<T, A>::push': push_model, 'std::vec::Vec::<T, A>::len': len_model,
                                 'std::vec::Vec::<T>::with_capacity': absint.m_pure('vecnew', 0)},
                         path_budget=4000, always_summarise=True)


def object_cache(ctx, chk, facts, prog, file):
    from .. import bvproof
    FN = V + 'find_current_line_sprites'
    ipx = _scan_interp(facts)
    st = ipx.new_state()
    me = ipx.arg_object(st, 'video')
    rs = ipx.run(FN, [me, S(0, 'vram'), S(0, 'oam')], st)

    def is_cell(t):
        return t[0] == 's' and t[3] and t[3][0] == 'elem' and 'object_line_cache' in t[3][1]
    # iterations of the innermost pixel loop: they test a cache cell for "present" (bit 7)
    its = []
    for r in rs:
        if r.status != 'loopback':
            continue
        cells = [x for d in r.state.decisions for x in syms_of(d[0]) if is_cell(x)]
        if cells:
            its.append((r, cells[0]))
    if not its:
        chk.error('C15.7: no iteration of the object pixel loop found in find_current_line_sprites (anchor lost)')
        return
    fmt_bad = guard_bad = shift_bad = None
    nst = 0
    for r, CELL in its:
        env = r.state.env
        sts = [e for e in r.state.events if e[0] == 'store' and e[2] and e[2][-1][0] == 'i' and
               any(x[1] == 'object_line_cache' for x in e[2] if isinstance(x, tuple) and len(x) > 1)]
        allsyms = set()
        for d in r.state.decisions:
            allsyms |= syms_of(d[0])
        for e in sts:
            allsyms |= syms_of(e[3])
        pds = [x for x in allsyms if x[1] == 16 and x[2].startswith('loopvar:')]
        PD = pds[0] if len(pds) == 1 else None
        if PD is not None:
            # the row data is a shift register carried by the loop: the pixel is its top two bits
            color = O(8, 'and', O(8, 'trunc', O(16, 'shr', PD, C(16, 14))), C(8, 3))
        else:
            # the pixel is picked out of the object's row data by the pixel number p (the loop counter, 0..7, which also
            # selects the cell X + p): bits 15-2p, 14-2p
            rds = [x for x in allsyms if x[1] == 16 and x[2].endswith('.row_data')]
            xs = [x for x in syms_of(CELL[3][2]) if x[1] == 64 and x[2].startswith('loopvar:')]
            rng = [e for e in r.state.events if e[0] == 'loopinit' and xs and e[1] == xs[0]]
            if len(pds) > 1 or len(rds) != 1 or len(xs) != 1 or not rng or rng[-1][2] != C(64, 0) or rng[-1][3] != C(64, 8):
                if sts:
                    fmt_bad = fmt_bad or ('the row data being shifted out is neither a single 16-bit loop variable nor the '
                                          'object row indexed by a pixel counter running from 0 to 8')
                continue
            XS = xs[0]
            base = bvproof.subst(CELL[3][2], {XS: C(64, 0)})
            if bvproof.equal_under(CELL[3][2], O(64, 'add', base, XS), env, 64) is not True:
                fmt_bad = fmt_bad or 'pixel number p does not go to cell X + p (%s)' % fmt(CELL[3][2])[:80]
            sh = O(16, 'trunc', O(64, 'sub', C(64, 14), O(64, 'shl', XS, C(64, 1))))
            color = O(8, 'and', O(8, 'trunc', O(16, 'shr', rds[0], sh)), C(8, 3))
        empty = O(1, 'eq', O(8, 'and', CELL, C(8, 0x80)), C(8, 0))
        may = O(1, 'and', empty, O(1, 'ne', color, C(8, 0)))
        wrote = bool(sts)
        cv = env.const_of(may)
        if cv is None:
            pv = bvproof.equal_under(may, C(1, 1 if wrote else 0), env, 1)
            cv = (1 if wrote else 0) if pv is True else None
        if wrote and cv != 1:
            guard_bad = guard_bad or 'a cell is written although it may already hold a pixel or the colour may be 0'
        if not wrote and cv != 0:
            guard_bad = guard_bad or 'a cell is left alone although it is empty and the pixel colour is not 0'
        # row data shifts by one pixel per step, written or not
        import re
        if PD is not None:
            mloc = re.search(r':_(\d+)$', PD[2])
            fpd = r.state.mem.get(('L', 1, int(mloc.group(1)))) if mloc else None
            if fpd is None or bvproof.equal_under(fpd, O(16, 'shl', PD, C(16, 2)), env, 16) is not True:
                shift_bad = shift_bad or 'the row data is not shifted by one pixel (2 bits) per step'
        if not wrote:
            continue
        nst += 1
        if len(sts) != 1:
            fmt_bad = fmt_bad or 'one pixel step writes %d cells' % len(sts)
            continue
        idx, val = sts[0][2][-1][1], sts[0][3]
        if idx != CELL[3][2] and bvproof.equal_under(idx, CELL[3][2], env, 64) is not True:
            fmt_bad = fmt_bad or 'the cell written (%s) is not the cell tested (%s)' % (fmt(idx)[:60], fmt(CELL[3][2])[:60])
        pr = [x for x in allsyms if x[2].endswith('.has_priority')]
        pl = [x for x in allsyms if x[2].endswith('.palette')]
        if len(pl) != 1 or len(pr) > 1:
            fmt_bad = fmt_bad or 'the cell value does not combine one palette field (and the priority flag) of the object'
            continue
        e2 = env.copy()
        e2.assume(pl[0], AV(8, 0, 1))
        pbit = O(8, 'shl', O(8, 'zext', pr[0]), C(8, 6)) if pr else None
        if pbit is None:
            # the path has fixed the priority flag: read it off the decisions
            fmt_bad = fmt_bad or 'priority flag not found on a writing path'
            continue
        want = O(8, 'or', O(8, 'or', O(8, 'or', C(8, 0x80), pbit), O(8, 'shl', pl[0], C(8, 2))), color)
        if not (T.is_int(val) and bvproof.equal_under(val, want, e2, 8) is True):
            fmt_bad = fmt_bad or 'a cell is set to %s, expected 0x80 | priority << 6 | palette << 2 | colour' % fmt(val)[:100]
    for key, bad, what in (('guard', guard_bad, 'written iff empty and colour != 0'),
                           ('format', fmt_bad, '0x80 | priority << 6 | palette << 2 | colour at X + pixel'),
                           ('shift', shift_bad, 'row data << 2 per pixel')):
        if bad or (key == 'format' and not nst):
            chk.fail('C15.7', key, 'object line cache: %s' % (bad or 'no writing iteration found'), file, None)
        else:
            chk.ok('C15.7', key, sample={'clause': what, 'iteration paths': len(its)})


def tile_fetch(ctx, chk, facts, prog, file):
    from .. import bvproof
    GTR = V + 'get_tile_row'

    def fld(name, bits, ty):
        return S(bits, 'video.' + name, ('field', OW, name, ty))
    LY, SCY, WY = fld('current_line', 8, 'u8'), fld('scroll_y', 8, 'u8'), fld('window_y', 8, 'u8')
    TX = fld('next_cached_tile_x', 64, 'usize')
    for key, fn, mapf, yline in (('background', V + 'cache_next_tile_row', 'bg_map_offset', O(8, 'add', LY, SCY)),
                                 ('window', V + 'cache_next_window_tile_row', 'window_map_offset', O(8, 'sub', LY, WY))):
        if fn not in prog.fns:
            chk.error('C15.8: %s not found' % fn)
            continue
        ipx = absint.Interp(facts, opaque=[GTR], trust_asserts=('overflow', 'bounds'))
        st = ipx.new_state()
        me = ipx.arg_object(st, 'video')
        st.env.assume(TX, AV(64, 0, 31))
        MAP = fld(mapf, 64, 'usize')
        st.env.assume(MAP, AV(64, 0x1800, 0x1c00))
        rs = ipx.run(fn, [me, S(0, 'vram')], st)
        bad = None
        n = 0
        for r in rs:
            if r.status != 'ok':
                bad = bad or '%s can diverge (%s)' % (fn.split('::')[-1], r.status)
                continue
            n += 1
            env = r.state.env
            calls = [e for e in r.state.events if e[0] == 'call' and e[1] == GTR]
            if len(calls) != 1:
                bad = bad or 'fetches %d tile rows' % len(calls)
                continue
            tile_a, row_a = calls[0][2][2], calls[0][2][3]
            y64 = O(64, 'zext', yline)
            want_row = O(64, 'and', y64, C(64, 7))
            if not (T.is_int(row_a) and bvproof.equal_under(row_a, want_row, env, 64) is True):
                bad = bad or 'fetches row %s of the tile, expected %s' % (fmt(row_a)[:70], fmt(want_row)[:70])
            cells = [x for x in syms_of(tile_a) if x[3] and x[3][0] == 'elem'] if T.is_int(tile_a) else []
            if len(cells) != 1 or not (bvproof.equal_under(tile_a, O(64, 'zext', cells[0]), env, 64) is True):
                bad = bad or 'the tile number is %s, not one byte of the tile map' % fmt(tile_a)[:70]
                continue
            want_cell = O(64, 'add', MAP, O(64, 'add', TX, O(64, 'mul', O(64, 'shr', y64, C(64, 3)), C(64, 32))))
            if not (bvproof.equal_under(cells[0][3][2], want_cell, env, 64) is True):
                bad = bad or 'reads map cell %s, expected %s + x + 32 * (line / 8)' % (fmt(cells[0][3][2])[:90], mapf)
            tcs = [e for e in r.state.events if e[0] == 'store' and e[2] and e[2][-1][1] == 'current_tile_cache']
            if not tcs or tcs[-1][3] != calls[0][3]:
                bad = bad or 'the fetched row is not what ends up in the tile cache'
            txs = [e for e in r.state.events if e[0] == 'store' and e[2] and e[2][-1][1] == 'next_cached_tile_x']
            want_tx = O(64, 'and', O(64, 'add', TX, C(64, 1)), C(64, 31))
            if not txs or not (bvproof.equal_under(txs[-1][3], want_tx, env, 64) is True):
                bad = bad or 'next tile x becomes %s, expected (x + 1) mod 32' % (fmt(txs[-1][3])[:60] if txs else 'unchanged')
        if bad or not n:
            chk.fail('C15.8', key, '%s: %s' % (fn.split('::')[-1], bad or 'no path'), file, None)
        else:
            chk.ok('C15.8', key, sample={'map cell': '%s + x + 32 * (line >> 3)' % mapf, 'row': 'line & 7', 'x': '(x + 1) mod 32'})
