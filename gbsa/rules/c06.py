"""C06 - interpreter control flow, instruction length and timing match the SM83."""
from .. import absint, sm83, opspec as osp, terms as T
from ..terms import C, S, O, AV, fmt
from ..affine import equal_mod, diff_const, aff
from .common import *

COND_BIT = {'Zero': ('Z', 1), 'NonZero': ('Z', 0), 'Carry': ('C', 1), 'NoCarry': ('C', 0)}


def canon_op(opv):
    """decoded Op aggregate -> (variant, [args]) with enum args as names and ints as terms"""
    if opv is None or opv[0] != 'agg' or not isinstance(opv[1], tuple) or len(opv[1]) < 4:
        raise absint.Abort('decode() does not yield an Op value the analysis can read (%s)' % (fmt(opv)[:80] if opv else None))
    kind = opv[1]
    args = []
    for f in opv[2]:
        if f[0] == 'agg' and f[1][0] == 'adt':
            args.append(f[1][3])
        else:
            args.append(f)
    return kind[3], args


def expect_arg(a):
    if a == 'd8' or a == 'e8':
        return osp.B1
    if a == 'd16':
        return osp.IMM16
    if a == 'a8':
        return O(16, 'or', O(16, 'zext', osp.B1), C(16, 0xff00))
    return a


def args_match(got, want):
    if len(got) != len(want):
        return False
    for g, w in zip(got, want):
        w = expect_arg(w)
        if isinstance(w, str):
            if g != w:
                return False
        elif isinstance(w, int):
            if not (isinstance(g, tuple) and g[0] == 'c' and g[2] == w):
                return False
        else:
            if g != w and not _same_value(g, w):
                return False
    return True


def _same_value(g, w):
    """operand terms denote the same function of the operand bytes (any spelling)"""
    from ..terms import Env
    from .. import bvproof
    if not (isinstance(g, tuple) and g and g[0] in ('c', 's', 'o') and g[1] and g[1] == w[1]):
        return False
    return bvproof.equal_under(g, w, Env(), g[1]) is True


def run(ctx, chk):
    chk.rule('C06.1', 'D', 'decoder length = SM83 length = interpreter fall-through advance (512 encodings)', floor=500)
    chk.rule('C06.2', 'D', 'decoder cycles/4 + path extras = SM83 machine cycles, taken and not-taken; polarity of '
             'conditions', floor=500)
    chk.rule('C06.3', 'D', 'taken paths load PC from the architectural source', floor=30)
    chk.rule('C06.4', 'D', 'stack protocol of PUSH/POP/CALL/RET/RETI/RST (addresses, byte order, SP update)', floor=25)
    chk.rule('C06.5', 'D', 'Op::is_block_end true exactly for control / halt / IME instructions', floor=90)
    chk.rule('C06.6', 'D', 'exactly the 11 undefined opcodes decode to Invalid and Invalid diverges untouched', floor=11)
    chk.rule('C06.7', 'D', 'status codes returned by HALT/STOP/EI/DI/RETI; NORMAL elsewhere', floor=500)
    chk.rule('C06.8', 'D', 'value level, all operands at once: per encoding and interpreter path, every bit of PC (mod 2^16) '
             'and, for PUSH/POP/CALL/RET/RETI/RST, of SP and of every stack address and byte is the same function of the '
             'input bits as in the SM83 reference semantics; no operand value makes run_op diverge', floor=500)
    chk.rule('C06.9', 'D', 'operand fetch stays inside the slice handed to the decoder for every fetch window',
             floor=500)
    facts = ctx.facts('default')
    prog = ctx.program('default')
    if not need(chk, prog, ['decoder::decode', 'interpreter::run_op', 'interpreter::run_next_op',
                            'decoder::ops::Op::is_block_end']):
        return chk.finish('anchors missing')
    sp = ctx.opspec('default')
    sm83.selfcheck()
    status_names = status_constants(facts)
    dec_file = prog.fns['decoder::decode']['file']
    int_file = prog.fns['interpreter::run_op']['file']
    invalid_found = []
    window_fails = {}
    win_lo = fetch_window_min(ctx, chk, prog)
    for enc in osp.all_encodings():
        ref = sm83.TABLE[enc]
        name = osp.enc_name(enc)
        try:
            opv, ln, cy = sp.decoded(enc)
        except absint.Abort as e:
            chk.fail('C06.1', name, 'decoder does not produce a single result: %s' % e.why, dec_file, None)
            continue
        variant, args = canon_op(opv)
        if variant == 'Invalid':
            invalid_found.append(enc)
        # ---- rule 6 (decode side)
        if ref['mn'] == 'INVALID':
            if variant == 'Invalid':
                rs = sp.ip_int.run('interpreter::run_op',
                                   [opv, sp.ip_int.arg_object(st := sp.ip_int.new_state(), 'regs'), S(0, 'mem'), C(32, 1)], st)
                bad = [r for r in rs if r.status != 'panic' or
                       any(e[0] in ('store', 'call') for e in r.state.events)]
                if bad or not rs:
                    chk.fail('C06.6', name, 'Op::Invalid does not diverge untouched in run_op', int_file, None)
                else:
                    chk.ok('C06.6', name, sample={'opcode': name, 'decodes_to': 'Invalid', 'run_op': 'panics'})
            else:
                chk.fail('C06.6', name, 'undefined opcode %s decodes to Op::%s' % (name, variant), dec_file, None)
            continue
        if variant == 'Invalid':
            chk.fail('C06.6', name, 'defined opcode %s (%s) decodes to Op::Invalid' % (name, ref['mn']), dec_file, None)
            continue
        # ---- rule 1: length
        paths = [osp.summarise_interp(r) for r in sp.interp(enc)]
        okpaths = [p for p in paths if p['result'].status == 'ok']
        badpaths = [p for p in paths if p['result'].status != 'ok']
        if ln != ref['length']:
            chk.fail('C06.1', name + ':decoder', 'decoder length %s, SM83 length %d (%s)' % (ln, ref['length'], ref['mn']),
                     dec_file, None, {'decoded': variant})
        else:
            chk.ok('C06.1', name + ':decoder', nontrivial=False)
        if badpaths:
            p = badpaths[0]['result']
            chk.fail('C06.1', name + ':paths', 'interpreter path does not complete: %s %s' % (p.status, p.detail),
                     int_file, p.where[1] if p.where else None)
        is_ctrl = variant in ('Jump', 'JumpHL', 'JumpRelative', 'Call', 'ResetVector', 'Return', 'ReturnFromInterrupt')
        cond = args[0] if variant in ('Jump', 'JumpRelative', 'Call', 'Return') else None
        # classify paths: taken = ip not a plain advance
        adv_bad = None
        for p in okpaths:
            p['taken'] = None
            if is_ctrl:
                if cond == 'Always' or variant in ('JumpHL', 'ResetVector', 'ReturnFromInterrupt'):
                    p['taken'] = True
                else:
                    bit, val = COND_BIT[cond]
                    have = p['cond'][bit]
                    if have is None:
                        p['taken'] = None
                    else:
                        p['taken'] = (have == val)
            if not is_ctrl or p['taken'] is False:
                if p['ip_delta'] != ref['length']:
                    adv_bad = p
        if adv_bad is not None:
            chk.fail('C06.1', name + ':advance', '%s: interpreter advances PC by %s on fall-through, instruction length is %d'
                     % (ref['mn'], adv_bad['ip_delta'], ref['length']), int_file, None,
                     {'ip': fmt(adv_bad['regs']['ip'])})
        else:
            chk.ok('C06.1', name + ':advance', sample=None)
        # ---- rule 2: cycles
        if cy is None or cy % 4 != 0:
            chk.fail('C06.2', name + ':mult4', 'decoder clock count %s is not a multiple of 4' % cy, dec_file, None)
        else:
            cyc_fail = None
            for p in okpaths:
                total = cy // 4 + (p['cycles_extra'] if p['cycles_extra'] is not None else -999)
                if is_ctrl and cond not in (None, 'Always'):
                    if p['taken'] is None:
                        cyc_fail = (p, 'path is not decided by the %s flag' % COND_BIT[cond][0])
                        break
                    want = ref['cycles'][1] if p['taken'] else ref['cycles'][0]
                    # the taken path must also actually redirect: ip is not a plain advance
                else:
                    want = ref['cycles'][0]
                if total != want:
                    cyc_fail = (p, 'charges %s machine cycles, SM83 %s case takes %d'
                                % (total, 'taken' if p.get('taken') else 'not-taken/unconditional', want))
                    break
            if cyc_fail:
                chk.fail('C06.2', name, '%s: %s' % (ref['mn'], cyc_fail[1]), int_file, None)
            else:
                chk.ok('C06.2', name, sample={'opcode': name, 'mn': ref['mn'], 'decoder_clocks': cy,
                                              'sm83_cycles': ref['cycles']} if enc[1] % 37 == 0 else None)
        # ---- rule 3: targets
        if is_ctrl:
            check_targets(chk, name, ref, variant, args, okpaths, int_file)
        # ---- rule 4: stack protocol
        if variant in ('Push', 'Pop', 'Call', 'ResetVector', 'Return', 'ReturnFromInterrupt'):
            check_stack(chk, name, ref, variant, args, okpaths, int_file)
        # ---- rule 7: status
        want_status = {'Halt': 'STATUS_HALT', 'Stop': 'STATUS_STOP', 'InterruptEnable': 'STATUS_INTERRUPT_ENABLE',
                       'InterruptDisable': 'STATUS_INTERRUPT_DISABLE',
                       'ReturnFromInterrupt': 'STATUS_INTERRUPT_ENABLE_IMMEDIATE'}.get(variant, 'STATUS_NORMAL')
        got = set(p['status'] for p in okpaths)
        if got == {status_names[want_status]}:
            chk.ok('C06.7', name, nontrivial=(want_status != 'STATUS_NORMAL'))
        else:
            chk.fail('C06.7', name, '%s returns status %s, expected %s=%d' % (ref['mn'], sorted(map(str, got)), want_status,
                                                                       status_names[want_status]), int_file, None)
        # ---- rule 9: fetch window
        win_fail = None
        for window in range(min(win_lo, 3), 4):
            rs = sp.decode(enc, window)
            pan = [r for r in rs if r.status == 'panic']
            if pan and window >= 1:
                win_fail = (window, pan[0])
                break
        if win_fail:
            w, r = win_fail
            site = r.where
            d = r.detail
            while isinstance(d, tuple) and d and isinstance(d[0], tuple):
                site = d[0]
                d = d[1]
            window_fails.setdefault(site[0], []).append((name, ref['mn'], ref['length'], w, site[1]))
            chk.rules['C06.9']['instances'] += 1
        else:
            chk.ok('C06.9', name, nontrivial=ref['length'] > 1)
    if sorted(e[1] for e in invalid_found if e[0] is None) != sm83.INVALID:
        chk.fail('C06.6', 'invalid-set', 'opcodes decoding to Invalid: %s, expected %s'
                 % ([hex(e[1]) for e in invalid_found], [hex(x) for x in sm83.INVALID]), dec_file, None)
    for fn, lst in sorted(window_fails.items()):
        chk.rules['C06.9']['instances'] -= 1
        chk.fail('C06.9', 'operand-fetch:' + fn,
                 '%d multi-byte encodings (e.g. %s %s, %d bytes) index past the fetch slice in %s and panic when the '
                 'slice handed to the decoder ends inside the instruction (fetch slices are cut at 0x3fff/0x7fff/'
                 '0xcfff/0xdfff/0xfffe)' % (len(lst), lst[0][0], lst[0][1], lst[0][2], fn), dec_file, lst[0][4],
                 {'encodings': [x[0] for x in lst]})
        chk.rules['C06.9']['instances'] += len(lst) - 1
        chk.rules['C06.9']['failures'] += len(lst) - 1
    check_block_end(ctx, chk, sp, prog)
    from .. import valsem
    valsem.apply_rule(ctx, chk, 'C06.8', lambda mn, c: c in ('PC', 'total') or
                      (c in ('SP', 'bus') and mn in valsem.STACK_OPS))
    valsem.suppress_subsumed(ctx, chk, ('C06.3', 'C06.4'))
    chk.assumptions += ['register pairs hold 16-bit values at instruction entry (established by C05.4)',
                        'PC above 0xffff is not reduced by the interpreter; reported as information only']
    return chk.finish('Per-opcode conditional constant propagation of decode() and run_op() for all 511 encodings '
                      '(first byte / CB byte fixed, operand bytes, registers, flags and memory symbolic); every '
                      'interpreter path is summarised (PC delta, cycle delta, bus events, status, flag condition) and '
                      'compared with SM83 reference tables generated from the x/y/z opcode structure.',
                      exhaustive=True)


def status_constants(facts):
    """values of cpu::STATUS_* as they appear in run_op's return paths are plain constants; take them from cpu.rs
    by evaluating where they are used: the emitter passes them to emit_return_code. Here: read from MIR consts of
    Core::run_interp's switch."""
    names = ['STATUS_NORMAL', 'STATUS_STOP', 'STATUS_HALT', 'STATUS_INTERRUPT_DISABLE', 'STATUS_INTERRUPT_ENABLE',
             'STATUS_INTERRUPT_ENABLE_IMMEDIATE']
    # constants are inlined in MIR; their definition order in src/cpu.rs is the documented protocol 0..5.
    # The C08 rule extracts the partition induced by Core's match; here we need only the numeric values.
    import os, re
    vals = {}
    repo = os.environ.get('GBSA_REPO', '/repo')
    try:
        src = open(os.path.join(repo, 'src', 'cpu.rs')).read()
        for m in re.finditer(r'pub const (STATUS_[A-Z_]+): u8 = (\d+);', src):
            vals[m.group(1)] = int(m.group(2))
    except OSError:
        pass
    for i, n in enumerate(names):
        vals.setdefault(n, i)
    return vals


def check_targets(chk, name, ref, variant, args, okpaths, file):
    ipe = osp.entry_reg('ip')
    for p in okpaths:
        if not p['taken']:
            continue
        env = p['env']
        ipt = p['regs']['ip']
        ok = False
        what = ''
        if variant in ('Jump', 'Call'):
            ok = ipt == O(32, 'zext', osp.IMM16)
            what = 'imm16'
        elif variant == 'JumpHL':
            ok = equal_mod(ipt, osp.entry_reg('hl'), env, 16) and env.av(ipt).hi <= 0xffff
            what = 'HL'
        elif variant == 'ResetVector':
            ok = ipt[0] == 'c' and ipt[2] == args[0][2] and ipt[2] == ref['op'][1][0]
            what = 'vector %#x' % ref['op'][1][0]
        elif variant == 'JumpRelative':
            b1 = env.av(osp.B1)
            if b1.m0 & 0x80:
                want = O(32, 'add', O(32, 'add', ipe, C(32, 2)), O(32, 'zext', osp.B1))
                ok = equal_mod(ipt, want, env, 32)
            elif b1.m1 & 0x80:
                want = O(32, 'sub', O(32, 'add', O(32, 'add', ipe, C(32, 2)), O(32, 'zext', osp.B1)), C(32, 256))
                ok = equal_mod(ipt, want, env, 32)
            else:
                # unsplit path: must be a 16-bit sign-extended add
                want = O(16, 'add', O(16, 'add', O(16, 'trunc', ipe), C(16, 2)), O(16, 'sext', osp.B1))
                ok = equal_mod(O(16, 'trunc', ipt), want, env, 16)
            what = 'PC+2+sext(e8)'
        elif variant in ('Return', 'ReturnFromInterrupt'):
            # popped word: high byte from second read, low from first
            reads = [b for b in p['bus'] if b['kind'] == 'r']
            if len(reads) == 2 and reads[0]['width'] == 8:
                lo, hi = reads[0]['value'], reads[1]['value']
                want = O(32, 'zext', O(16, 'or', O(16, 'shl', O(16, 'zext', hi), C(16, 8)), O(16, 'zext', lo)))
                ok = ipt == want
            elif len(reads) == 1 and reads[0]['width'] == 16:
                ok = ipt == O(32, 'zext', reads[0]['value'])
            what = 'popped word'
        key = '%s:%s' % (name, 'neg' if (variant == 'JumpRelative' and env.av(osp.B1).m1 & 0x80) else 'taken')
        if ok:
            chk.ok('C06.3', key, sample={'opcode': name, 'target': what} if variant != 'ResetVector' else None)
        else:
            chk.fail('C06.3', key, '%s: taken path sets PC to %s, expected %s' % (ref['mn'], fmt(ipt), what), file, None)


def check_stack(chk, name, ref, variant, args, okpaths, file):
    spe = osp.entry_reg('sp')
    sp16 = O(16, 'trunc', spe)
    for p in okpaths:
        if variant in ('Call', 'Return') and p['taken'] is False:
            # not taken: no bus traffic, SP unchanged
            if p['bus'] or p['regs']['sp'] != spe:
                chk.fail('C06.4', name + ':nottaken', '%s: not-taken path touches the stack' % ref['mn'], file, None)
            else:
                chk.ok('C06.4', name + ':nottaken', nontrivial=False)
            continue
        env = p['env']
        bus = p['bus']
        spf = O(16, 'trunc', p['regs']['sp'])
        hi16 = env.av(p['regs']['sp']).hi <= 0xffff
        if variant in ('Push', 'Call', 'ResetVector'):
            if variant == 'Push':
                src = osp.entry_reg(args[0].lower())
                val16 = O(16, 'trunc', src)
            else:
                ln = ref['length']
                val16 = O(16, 'trunc', O(32, 'add', osp.entry_reg('ip'), C(32, ln)))
            exp_hi = O(8, 'trunc', O(16, 'shr', val16, C(16, 8)))
            exp_lo = O(8, 'trunc', val16)

            def is_byte(v, exp, which):
                return v == exp or equal_mod(v, exp, env, 8) or value_is_byte(v, val16, which, env)
            ok = (len(bus) == 2 and all(b['kind'] == 'w' and b['width'] == 8 for b in bus)
                  and diff_const(bus[0]['addr'], sp16, env, 16) == 0xffff
                  and diff_const(bus[1]['addr'], sp16, env, 16) == 0xfffe
                  and is_byte(bus[0]['value'], exp_hi, 'hi')
                  and is_byte(bus[1]['value'], exp_lo, 'lo')
                  and diff_const(spf, sp16, env, 16) == 0xfffe and hi16)
            desc = 'write high byte at SP-1 then low byte at SP-2, SP -= 2 (mod 2^16)'
        else:
            ok = (len(bus) == 2 and all(b['kind'] == 'r' and b['width'] == 8 for b in bus)
                  and diff_const(bus[0]['addr'], sp16, env, 16) == 0
                  and diff_const(bus[1]['addr'], sp16, env, 16) == 1
                  and diff_const(spf, sp16, env, 16) == 2 and hi16)
            if ok and variant == 'Pop':
                dst = p['regs'][args[0].lower()]
                lo, hi = bus[0]['value'], bus[1]['value']
                word = O(16, 'or', O(16, 'shl', O(16, 'zext', hi), C(16, 8)), O(16, 'zext', lo))
                if args[0] == 'AF':
                    word = O(16, 'and', word, C(16, 0xfff0))
                ok = dst == O(32, 'zext', word)
            desc = 'read low byte at SP then high byte at SP+1, SP += 2 (mod 2^16)'
        if ok:
            chk.ok('C06.4', name, sample={'opcode': name, 'mn': ref['mn'], 'protocol': desc} if name in ('C5', 'C1', 'CD', 'C9', 'FF') else None)
        else:
            chk.fail('C06.4', name, '%s: stack transfer is not "%s": bus=%s sp=%s'
                     % (ref['mn'], desc, [(b['kind'], b['width'], fmt(b['addr']), fmt(b['value'])) for b in bus],
                        fmt(p['regs']['sp'])), file, None)


def value_is_byte(v, word16, which, env):
    """v (8-bit term) is the high/low byte of word16"""
    from ..terms import bit_provenance
    pv = bit_provenance(v, env)
    pw = bit_provenance(word16, env)
    off = 8 if which == 'hi' else 0
    for i in range(8):
        if pv[i] is None or pv[i] != pw[i + off]:
            return False
    return True


def check_block_end(ctx, chk, sp, prog):
    facts = ctx.facts('default')
    op_adt = facts['adts'].get('decoder::ops::Op')
    if not op_adt:
        chk.error('ADT decoder::ops::Op not found')
        return
    ip = absint.Interp(facts)
    file = prog.fns['decoder::ops::Op::is_block_end']['file']
    seen = set()
    for vi, v in enumerate(op_adt['variants']):
        fields = tuple(S(0, 'f%d' % i) for i in range(len(v['fields'])))
        opv = ('agg', ('adt', 'decoder::ops::Op', vi, v['name']), fields)
        st = ip.new_state()
        st.mem[('O', 'op')] = opv
        rs = ip.run('decoder::ops::Op::is_block_end', [('ref', ('O', 'op'), ())], st)
        vals = set(r.ret[2] for r in rs if r.status == 'ok' and r.ret and r.ret[0] == 'c')
        want = 1 if v['name'] in sm83.TERMINATOR_VARIANTS else 0
        seen.add(v['name'])
        if vals == {want}:
            chk.ok('C06.5', 'variant:' + v['name'], nontrivial=bool(want))
        else:
            chk.fail('C06.5', 'variant:' + v['name'], 'is_block_end(Op::%s) = %s, expected %s'
                     % (v['name'], sorted(vals), bool(want)), file, None)
    missing = sm83.TERMINATOR_VARIANTS - seen
    if missing:
        chk.error('terminator variants %s not present in Op' % sorted(missing))
    # the decoder-produced variant for every terminating encoding must be a terminator variant
    for enc, ref in sm83.TABLE.items():
        if ref['mn'] == 'INVALID':
            continue
        try:
            opv, _, _ = sp.decoded(enc)
        except absint.Abort:
            continue
        is_t = opv[1][3] in sm83.TERMINATOR_VARIANTS
        if is_t != ref['term']:
            chk.fail('C06.5', 'enc:' + osp.enc_name(enc), '%s decodes to Op::%s whose block-end status is %s, SM83 says %s'
                     % (ref['mn'], opv[1][3], is_t, ref['term']), prog.fns['decoder::decode']['file'], None)
        elif ref['term']:
            chk.ok('C06.5', 'enc:' + osp.enc_name(enc), nontrivial=False)


def fetch_window_min(ctx, chk, prog):
    """Smallest slice length that interpreter::run_next_op can hand to decode(), derived from the code:
    (a) the lengths get_executable_memory_slice can return, (b) what run_next_op does with a short slice."""
    facts = ctx.facts('default')
    FETCH = 'mem::get_executable_memory_slice'
    if not need(chk, prog, [FETCH]):
        return 1
    ip = absint.Interp(facts, trust_asserts=('slice_index', 'bounds', 'overflow'))
    st = ip.new_state()
    start = S(64, 'start')
    rs = ip.run(FETCH, [start, S(0, 'mem')], st)
    fetch_min = None
    for r in rs:
        if r.status == 'ok' and r.ret is not None and r.ret[0] == 'slice':
            lo = r.state.env.av(r.ret[4]).lo
            fetch_min = lo if fetch_min is None else min(fetch_min, lo)
    if fetch_min is None:
        chk.error('cannot derive the slice lengths returned by %s' % FETCH)
        return 1
    # (b) run_next_op with the fetch function and decode opaque
    ip2 = absint.Interp(facts, opaque=[FETCH, 'decoder::decode', 'interpreter::run_op',
                                       'decoder::ops::Op::is_block_end'] + BUS)
    st = ip2.new_state()
    regs = ip2.arg_object(st, 'regs')
    rs = ip2.run('interpreter::run_next_op', [regs, S(0, 'mem')], st)
    win_min = None
    ndec = 0
    win_bad = None
    nwin = 0
    PCs = S(32, 'regs.ip', ('field', 'cpu::Registers', 'ip', 'u32'))
    for r in rs:
        for e in r.state.events:
            if e[0] == 'call' and e[1] == 'decoder::decode':
                ndec += 1
                a = e[2][0]
                # a window assembled through the bus (instruction straddling the end of a fetch region): byte i of what
                # the decoder sees must be the bus byte at PC + i, for every byte of the window
                if a[0] == 'slice' and a[1][0] == 'L':
                    arr = r.state.mem.get(a[1])
                    n_ = r.state.env.const_of(a[4])
                    reads = [c for c in r.state.events if c[0] == 'call' and c[1] == 'mem::memory_read_byte']
                    if arr is not None and arr[0] == 'agg' and n_ is not None:
                        nwin += 1
                        from .. import bvproof as _bp
                        for i_ in range(n_):
                            el = arr[2][i_] if i_ < len(arr[2]) else None
                            src = [c for c in reads if c[3] == el]
                            want_a = O(16, 'add', O(16, 'trunc', PCs), C(16, i_))
                            if not src:
                                win_bad = win_bad or ('byte %d of the window handed to decode() is %s, not a byte read through the '
                                                      'bus' % (i_, fmt(el)[:40] if el is not None else None))
                            elif not (src[0][2][1] == want_a or equal_mod(src[0][2][1], want_a, r.state.env, 16) or
                                      _bp.equal_under(src[0][2][1], want_a, r.state.env, 16) is True):
                                win_bad = win_bad or 'byte %d of the window is read from %s, expected PC + %d' % (
                                    i_, fmt(src[0][2][1])[:60], i_)
                if a[0] == 'slice':
                    lo = r.state.env.av(a[4]).lo
                elif a[0] == 's' or (a[0] == 'ref' and a[1][0] == 'O' and not a[2]):
                    nm = a[2] if a[0] == 's' else a[1][1]
                    ln = S(64, 'len(%s)' % nm, ('len', nm))
                    lo = r.state.env.av(ln).lo
                else:
                    lo = 0
                win_min = lo if win_min is None else min(win_min, lo)
    if not ndec:
        chk.error('run_next_op does not call decoder::decode (anchor lost)')
        return 1
    chk.rules['C06.9']['instances'] += 1
    if win_bad:
        chk.fail('C06.9', 'window-contents', 'run_next_op: %s' % win_bad, 'src/interpreter/mod.rs', None)
        chk.rules['C06.9']['instances'] -= 1
    elif nwin:
        chk.ok('C06.9', 'window-contents', sample={'bus-assembled windows': nwin, 'byte i': 'memory_read_byte(PC + i)'})
        chk.rules['C06.9']['instances'] -= 1
    else:
        chk.rules['C06.9']['instances'] -= 1
    eff = max(win_min, 0)
    chk.info('get_executable_memory_slice returns slices cut at region ends (shortest provable lower bound %d byte(s)); '
             'run_next_op passes decode() a slice of at least %d byte(s)' % (fetch_min, eff))
    chk.extra['fetch_window'] = {'fetch_min_len': fetch_min, 'decode_window_min': eff}
    return max(1, eff)
