"""C05 - interpreter data semantics: decode table, flag classes, read/write sets, 16-bit range, F nibble,
carry dependence."""
from .. import absint, sm83, opspec as osp, terms as T
from ..terms import C, S, O, AV, fmt, bit_provenance
from ..support import support
from .common import *
from .c06 import canon_op, args_match

PAIRS = ('af', 'bc', 'de', 'hl', 'sp')
HALF = {'A': ('af', 'hi'), 'F': ('af', 'lo'), 'B': ('bc', 'hi'), 'C': ('bc', 'lo'), 'D': ('de', 'hi'),
        'E': ('de', 'lo'), 'H': ('hl', 'hi'), 'L': ('hl', 'lo'), 'SPh': ('sp', 'hi'), 'SPl': ('sp', 'lo')}
FLAGPOS = {'Z': 7, 'N': 6, 'H': 5, 'C': 4}


def halves(names):
    out = set()
    for n in names:
        if n in ('BC', 'DE', 'HL'):
            out |= {n[0], n[1]}
        elif n == 'SP':
            out |= {'SPh', 'SPl'}
        elif n == 'AF':
            out |= {'A', 'F'}
        elif n in HALF:
            out.add(n)
    return out


def changed_halves(paths):
    """register halves whose final value is not provably the entry value on some path"""
    out = set()
    for p in paths:
        env = p['env']
        for h, (pair, which) in HALF.items():
            if h == 'F':
                continue
            t = p['regs'][pair]
            e = osp.entry_reg(pair)
            if t == e:
                continue
            prov = bit_provenance(t, env)
            rng = range(8, 16) if which == 'hi' else range(0, 8)
            if any(prov[i] != ('in', e, i) for i in rng):
                out.add(h)
    return out


def flag_classes(paths):
    cls = {}
    e = osp.entry_reg('af')
    for fl, bit in FLAGPOS.items():
        seen = set()
        for p in paths:
            prov = bit_provenance(p['regs']['af'], p['env'])
            v = prov[bit]
            if v == ('in', e, bit):
                seen.add('-')
            elif v in (0, 1):
                seen.add(str(v))
            else:
                seen.add('*')
        if seen == {'-'}:
            cls[fl] = '-'
        elif seen == {'0'}:
            cls[fl] = '0'
        elif seen == {'1'}:
            cls[fl] = '1'
        else:
            cls[fl] = '*'
    return ''.join(cls[f] for f in 'ZNHC')


def used_entry_syms(paths):
    """entry register symbols that final registers / bus addresses / bus values depend on"""
    out = set()
    for p in paths:
        terms = [p['regs'][r] for r in PAIRS if p['regs'][r] != osp.entry_reg(r)]
        for b in p['bus']:
            terms.append(b['addr'])
            if b['kind'] == 'w':
                terms.append(b['value'])
        for t in terms:
            collect_syms(t, out)
    return out


def collect_syms(t, out):
    stack = [t]
    while stack:
        x = stack.pop()
        if not isinstance(x, tuple) or not x:
            continue
        if x[0] == 's':
            out.add(x)
        elif x[0] == 'o':
            stack.extend(x[3:])


def run(ctx, chk):
    chk.rule('C05.1', 'D', 'decoder output (variant, registers, immediates, bit masks) equals the x/y/z reference for '
             'every defined encoding', floor=500)
    chk.rule('C05.2', 'N', 'per-bit flag effect class (unchanged / 0 / 1 / computed) equals the SM83 flag column', floor=500)
    chk.rule('C05.3', 'N', 'registers written are exactly the architectural destinations; sources are the '
             'architectural sources (pure moves checked bit-exactly)', floor=500)
    chk.rule('C05.4', 'D', 'AF,BC,DE,HL,SP stay within 0..0xffff at every exit', floor=500)
    chk.rule('C05.5', 'D', 'low nibble of F is zero at every exit', floor=500)
    chk.rule('C05.7', 'D', 'value level, all operands at once: per encoding and interpreter path, every bit of A, F, BC, DE, '
             'HL (and SP / bus addresses and values of data instructions) is the same function of the input bits as in the '
             'SM83 reference semantics (canonical ROBDD per bit; a difference is reported with a concrete operand)', floor=500)
    chk.rule('C05.6', 'N', 'carry / half-carry decisions depend on every operand bit they must depend on', floor=40)
    facts = ctx.facts('default')
    prog = ctx.program('default')
    if not need(chk, prog, ['decoder::decode', 'interpreter::run_op']):
        return chk.finish('anchors missing')
    sp = ctx.opspec('default')
    sm83.selfcheck()
    dfile = prog.fns['decoder::decode']['file']
    ifile = prog.fns['interpreter::run_op']['file']
    for enc in osp.all_encodings():
        ref = sm83.TABLE[enc]
        if ref['mn'] == 'INVALID':
            continue
        name = osp.enc_name(enc)
        try:
            opv, ln, cy = sp.decoded(enc)
        except absint.Abort as e:
            chk.fail('C05.1', name, 'decoder does not produce a single result: %s' % e.why, dfile, None)
            continue
        variant, args = canon_op(opv)
        wv, wa = ref['op']
        if variant != wv or not args_match(args, wa):
            chk.fail('C05.1', name, '%s decodes to Op::%s(%s), expected Op::%s(%s)'
                     % (ref['mn'], variant, ', '.join(a if isinstance(a, str) else fmt(a) for a in args), wv,
                        ', '.join(map(str, wa))), dfile, None)
            continue
        chk.ok('C05.1', name, sample={'opcode': name, 'op': '%s(%s)' % (variant, ', '.join(
            a if isinstance(a, str) else fmt(a) for a in args))} if enc[1] % 29 == 0 else None)
        paths = [osp.summarise_interp(r) for r in sp.interp(enc)]
        okp = [p for p in paths if p['result'].status == 'ok']
        if not okp:
            chk.fail('C05.2', name, 'no completing interpreter path', ifile, None)
            continue
        # rule 2
        got = flag_classes(okp)
        same_operand = (enc[0] is None and (enc[1] >> 6) == 2 and (enc[1] & 7) == 7)
        if same_operand:
            # A op A: a computed flag may legitimately fold to a constant
            got = ''.join(w if (w == '*' and g in '01*') else g for g, w in zip(got, ref['flags']))
        if got == ref['flags']:
            chk.ok('C05.2', name, nontrivial=(got != '----'),
                   sample={'opcode': name, 'mn': ref['mn'], 'ZNHC': got} if got != '----' and enc[1] % 23 == 0 else None)
        else:
            chk.fail('C05.2', name, '%s: flag effect ZNHC is %s, SM83 defines %s' % (ref['mn'], got, ref['flags']), ifile, None)
        # rule 3
        ch = changed_halves(okp)
        want = halves(ref['writes']) - {'F'}
        extra = ch - want
        missing = want - ch
        if (ref['mn'] == 'LD r,r' and wa[0] == wa[1]) or same_operand:
            missing = set()
        used = used_entry_syms(okp)
        allowed_pairs = set()
        for r in list(ref['reads']) + list(ref['writes']):
            for h in halves([r]):
                allowed_pairs.add(HALF[h][0])
        allowed_pairs |= {'ip', 'cycles'}
        if ref['flags'] != '----' or ref['mn'] in ('JR cc,e8', 'JP cc,a16', 'CALL cc,a16', 'RET cc'):
            allowed_pairs.add('af')
        stray = sorted(s[2] for s in used if s[2].startswith('regs.') and s[2][5:] not in allowed_pairs)
        problem = None
        if extra:
            problem = 'writes %s which the instruction must not change' % sorted(extra)
        elif missing:
            problem = 'does not write %s' % sorted(missing)
        elif stray:
            problem = 'result depends on %s which is not an operand' % stray
        else:
            problem = check_pure_move(ref, wa, okp)
        if problem:
            chk.fail('C05.3', name, '%s: %s' % (ref['mn'], problem), ifile, None)
        else:
            chk.ok('C05.3', name, nontrivial=bool(want))
        # rule 4 / 5
        bad4 = None
        bad5 = None
        for p in okp:
            for r in PAIRS:
                av = p['env'].av(p['regs'][r])
                if av.hi > 0xffff:
                    bad4 = (r, p['regs'][r], av)
            avf = p['env'].av(p['regs']['af'])
            if avf.m0 & 0xf != 0xf:
                bad5 = (p['regs']['af'], avf)
        if bad4:
            chk.fail('C05.4', name, '%s: register %s can leave the 16-bit range: %s in [%#x, %#x]'
                     % (ref['mn'], bad4[0].upper(), fmt(bad4[1]), bad4[2].lo, bad4[2].hi), ifile, None)
        else:
            chk.ok('C05.4', name, nontrivial=bool(want))
        if bad5:
            chk.fail('C05.5', name, '%s: low nibble of F not provably zero: AF = %s' % (ref['mn'], fmt(bad5[0])), ifile, None)
        else:
            chk.ok('C05.5', name, nontrivial=('A' in want or ref['flags'] != '----'))
        # rule 6
        if not same_operand:
            check_carry_dependence(chk, name, ref, variant, wa, okp, ifile)
    from .. import valsem
    valsem.apply_rule(ctx, chk, 'C05.7', lambda mn, c: c in ('A', 'F', 'AF', 'BC', 'DE', 'HL') or
                      (c in ('SP', 'bus') and mn not in valsem.STACK_OPS))
    valsem.suppress_subsumed(ctx, chk, ('C05.2', 'C05.3', 'C05.4', 'C05.5', 'C05.6'))
    chk.assumptions += ['entry state: register pairs within 16 bits and F low nibble zero (the invariant rules 4/5 re-establish)',
                        'value-level arithmetic (e.g. the DAA adjustment table) is not decided; rule 6 checks only that '
                        'required operand bits reach the carry decisions (syntactic support, a necessary condition)']
    return chk.finish('Per-opcode abstract interpretation of run_op for all 500 defined encodings with registers, flags, '
                      'operand bytes and memory symbolic: decoded operands vs the x/y/z reference, per-bit provenance of F, '
                      'changed register halves, interval/known-bit bounds of the register file at every exit, and '
                      'bit-level support of the carry decisions.', exhaustive=True)


def half_bits(pair, which):
    e = osp.entry_reg(pair)
    rng = range(8, 16) if which == 'hi' else range(0, 8)
    return [('in', e, i) for i in rng]


def check_pure_move(ref, wa, okp):
    mn = ref['mn']
    for p in okp:
        env = p['env']
        if mn == 'LD r,r':
            dp, dw = HALF[wa[0]]
            sp_, sw = HALF[wa[1]]
            prov = bit_provenance(p['regs'][dp], env)
            got = prov[8:16] if dw == 'hi' else prov[0:8]
            if got != half_bits(sp_, sw):
                return 'destination %s is not a copy of %s' % (wa[0], wa[1])
        elif mn == 'LD r,d8':
            dp, dw = HALF[wa[0]]
            prov = bit_provenance(p['regs'][dp], env)
            got = prov[8:16] if dw == 'hi' else prov[0:8]
            if got != [('in', osp.B1, i) for i in range(8)]:
                return 'destination %s is not the immediate byte' % wa[0]
        elif mn == 'LD rp,d16':
            t = p['regs'][wa[0].lower()]
            if t != O(32, 'zext', osp.IMM16):
                return 'destination %s is not the little-endian immediate word' % wa[0]
        elif mn == 'LD SP,HL':
            prov = bit_provenance(p['regs']['sp'], env)
            e = osp.entry_reg('hl')
            if prov[:16] != [('in', e, i) for i in range(16)]:
                return 'SP is not a copy of HL'
        elif mn in ('LD r,(HL)', 'LD A,(rr)', 'LDH A,(a8)', 'LD A,(C)', 'LD A,(a16)'):
            dst = wa[0] if mn in ('LD r,(HL)', 'LD A,(rr)') else 'A'
            dp, dw = HALF[dst]
            reads = [b for b in p['bus'] if b['kind'] == 'r']
            if len(reads) != 1:
                return 'expected exactly one bus read'
            prov = bit_provenance(p['regs'][dp], env)
            got = prov[8:16] if dw == 'hi' else prov[0:8]
            if got != [('in', reads[0]['value'], i) for i in range(8)]:
                return 'destination %s is not the byte read from the bus' % dst
    return None


def decisive_conditions(okp, bit):
    """Condition terms of decisions that are decisive for flag `bit`: two paths share the decision prefix, meet the
    same condition term, choose differently there, choose identically afterwards, and end with different values of
    the flag bit."""
    out = []
    info = []
    for p in okp:
        prov = bit_provenance(p['regs']['af'], p['env'])
        dec = [(d[0], d[1]) for d in p['result'].state.decisions]
        info.append((dec, prov[bit]))
    for i in range(len(info)):
        for j in range(i + 1, len(info)):
            a, b = info[i], info[j]
            if a[1] == b[1] or len(a[0]) != len(b[0]):
                continue
            k = 0
            while k < len(a[0]) and a[0][k] == b[0][k]:
                k += 1
            if k == len(a[0]) or a[0][k][0] != b[0][k][0]:
                continue
            if all(a[0][m][1] == b[0][m][1] for m in range(k + 1, len(a[0]))):
                if a[0][k][0] not in out:
                    out.append(a[0][k][0])
    return out


def need_bits(sym, lo, hi):
    return set((sym, i) for i in range(lo, hi))


def check_carry_dependence(chk, name, ref, variant, wa, okp, ifile):
    mn = ref['mn']
    base = mn.split(' ')[0]
    if base not in ('ADD', 'ADC', 'SUB', 'SBC', 'CP', 'INC', 'DEC') or mn in ('INC rp', 'DEC rp'):
        if mn not in ('ADD HL,rp', 'ADD SP,e8', 'LD HL,SP+e8'):
            return
    af = osp.entry_reg('af')
    req = {'H': set(), 'C': set()}
    a_hi = need_bits(af, 8, 16)
    a_lo4 = need_bits(af, 8, 12)
    # the second operand
    def operand_bits(lo, hi):
        if mn.endswith(' r') and base not in ('INC', 'DEC'):
            r = wa[-1]
            pair, which = HALF[r]
            off = 8 if which == 'hi' else 0
            return need_bits(osp.entry_reg(pair), off + lo, off + hi), None
        if mn.endswith(' d8'):
            return need_bits(osp.B1, lo, hi), None
        if mn.endswith(' (HL)'):
            return None, (lo, hi)   # bus read value
        return set(), None
    if mn in ('ADD HL,rp',):
        hl = osp.entry_reg('hl')
        rp = osp.entry_reg(wa[0].lower())
        req['H'] = need_bits(hl, 0, 12) | need_bits(rp, 0, 12)
        req['C'] = need_bits(hl, 0, 16) | need_bits(rp, 0, 16)
    elif mn in ('ADD SP,e8', 'LD HL,SP+e8'):
        spr = osp.entry_reg('sp')
        req['H'] = need_bits(spr, 0, 4) | need_bits(osp.B1, 0, 4)
        req['C'] = need_bits(spr, 0, 8) | need_bits(osp.B1, 0, 8)
    elif base in ('INC', 'DEC'):
        if mn.endswith('(HL)'):
            req['H'] = None
        else:
            pair, which = HALF[wa[0]]
            off = 8 if which == 'hi' else 0
            req['H'] = need_bits(osp.entry_reg(pair), off, off + 4)
        req['C'] = set()
    else:
        ob_h, bus_h = operand_bits(0, 4)
        ob_c, bus_c = operand_bits(0, 8)
        req['H'] = a_lo4 | (ob_h or set())
        req['C'] = a_hi | (ob_c or set())
        req['_bus'] = (bus_h, bus_c)
        if base in ('ADC', 'SBC'):
            # carry-in: some decision of the path set must read F bit 4
            seen = False
            for p in okp:
                for d in p['result'].state.decisions:
                    for sset in support(d[0]):
                        if (af, 4) in sset:
                            seen = True
            if seen:
                chk.ok('C05.6', name + ':cin')
            else:
                chk.fail('C05.6', name + ':cin', '%s: no decision reads the incoming carry flag' % mn, ifile, None)
    for fl in ('H', 'C'):
        if ref['flags']['ZNHC'.index(fl)] != '*':
            continue
        want = req.get(fl)
        conds = decisive_conditions(okp, FLAGPOS[fl])
        sup = set()
        for c in conds:
            for s in support(c):
                sup |= set(s)
        key = '%s:%s' % (name, fl)
        if want is None:
            want = set()
        busreq = req.get('_bus')
        if busreq:
            rng = busreq[0] if fl == 'H' else busreq[1]
            if rng:
                reads = [b['value'] for b in okp[0]['bus'] if b['kind'] == 'r']
                if reads:
                    want = set(want) | need_bits(reads[0], rng[0], rng[1])
        if mn in ('INC (HL)', 'DEC (HL)') and fl == 'H':
            reads = [b['value'] for b in okp[0]['bus'] if b['kind'] == 'r']
            if reads:
                want = need_bits(reads[0], 0, 4)
        miss = sorted((s[2], i) for (s, i) in (want - sup))
        if miss:
            chk.fail('C05.6', key, '%s: the %s flag decision does not depend on operand bits %s'
                     % (mn, fl, miss[:8]), ifile, None)
        else:
            chk.ok('C05.6', key, sample={'opcode': name, 'flag': fl, 'required_bits': len(want),
                                         'decisions': [fmt(c)[:120] for c in conds]} if name in ('80', '88', 'E8', '09', '34') else None)
