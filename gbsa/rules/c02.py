"""C02 - translated code and the interpreter charge identical machine cycles."""
from .. import absint, sm83, opspec as osp, emitmodel as em
from ..terms import fmt
from .common import *

FLAGBIT = {0x80: 'Z', 0x10: 'C'}


def emitter_cycles_for(summ, cond):
    """machine cycles the emitted code adds to R15 when the guest flags satisfy `cond` ({'Z':0/1/None,'C':...})"""
    base, extra, bad = em.emitted_cycles(summ)
    if bad:
        return None, 'cycle increment with a non-constant amount'
    sp = summ['span']
    if sp is None:
        return base, None
    bit = FLAGBIT.get(sp['mask'])
    if bit is None:
        return None, 'host branch tests mask %r which is not a single guest flag' % sp['mask']
    v = cond.get(bit)
    if v is None:
        return None, 'interpreter path does not fix flag %s but emitted code branches on it' % bit
    runs = (v == 1) == sp['runs_when_set']
    return base + (extra if runs else 0), None


def run(ctx, chk):
    chk.rule('C02.1', 'D', 'per encoding and branch outcome: cycles added by emitted code = cycles added by the '
             'interpreter (decoder clocks/4 + taken extras)', floor=516)
    chk.rule('C02.2', 'D', 'decoder clock counts are multiples of 4; emitted increments fit the sign-extended imm8', floor=500)
    chk.rule('C02.4', 'D', 'value level: abstract execution of the emitted x86-64 bytes changes R15W by exactly the machine '
             'cycles the interpreter path charges, for every encoding, operand value and branch outcome', floor=500)
    chk.rule('C02.5', 'D', 'the cycle counter survives the call frame: the entry trampoline loads Registers.cycles (with the '
             'cycles a preceding interrupt dispatch left pending) into R15W and the exit trampoline stores R15W back',
             floor=2)
    chk.rule('C02.3', 'D', 'per-instruction constants only: who may write Registers.cycles', floor=5)
    facts = ctx.facts('jit')
    prog = ctx.program('jit')
    if not need(chk, prog, ['emitter::x86_64::Emitter::encode_op', 'interpreter::run_op', 'decoder::decode']):
        return chk.finish('anchors missing')
    sp = ctx.opspec('jit')
    rm = em.RegMaps(facts)
    efile = prog.fns['emitter::x86_64::Emitter::encode_op']['file']
    for enc in osp.all_encodings():
        name = osp.enc_name(enc)
        try:
            opv, ln, cy = sp.decoded(enc)
        except absint.Abort as e:
            chk.error('decode(%s): %s' % (name, e.why))
            continue
        variant = opv[1][3]
        if variant == 'Invalid':
            continue
        cases, bad = sp.emit_cases(enc)
        if bad or not cases:
            chk.fail('C02.1', name + ':emit', 'encode_op does not complete for every operand value (%s)'
                     % [(r.status, str(r.detail)[:80]) for r in bad][:2], efile, None)
        if cy is None or cy % 4:
            chk.fail('C02.2', name, 'decoder clock count %s not a multiple of 4' % cy, None, None)
            fits = False
        else:
            fits = True
        for label, er, cons in cases:
            cname = name + label
            try:
                summ = em.summarise_emit(er, rm)
            except absint.Abort as e:
                chk.error('emitter summary for %s: %s' % (cname, e.why))
                continue
            over = [t for t in summ['templates'] if t['spec']['kind'] == 'cycles' and
                    (t['args'][0][0] != 'c' or t['args'][0][2] > 127)]
            if over:
                fits = None
                chk.fail('C02.2', cname, 'cycle increment does not fit a sign-extended imm8', efile, over[0]['site'][1])
            paths = [osp.summarise_interp(r) for r in sp.interp(enc, cons, label)]
            okp = [p for p in paths if p['result'].status == 'ok']
            if not okp:
                chk.fail('C02.1', cname, 'interpreter has no completing path', None, None)
                continue
            groups = {}
            for p in okp:
                if p['cycles_extra'] is None:
                    chk.fail('C02.1', cname, 'interpreter cycle delta is not a constant: %s' % fmt(p['regs']['cycles']),
                             None, None)
                    continue
                icyc = cy // 4 + p['cycles_extra']
                ecyc, why = emitter_cycles_for(summ, p['cond'])
                outcome = 'uncond'
                if summ['span'] is not None:
                    bit = FLAGBIT.get(summ['span']['mask'])
                    outcome = '%s=%s' % (bit, p['cond'].get(bit))
                groups.setdefault(outcome, set()).add((icyc, ecyc, why))
            for outcome, vals in sorted(groups.items()):
                key = cname if outcome == 'uncond' else '%s:%s' % (cname, outcome)
                badv = [v for v in vals if v[2] or v[0] != v[1]]
                ref = sm83.TABLE[enc]
                if badv:
                    i, e, why = badv[0]
                    line = None
                    for t in summ['templates']:
                        if t['spec']['kind'] == 'cycles':
                            line = t['site'][1]
                    chk.fail('C02.1', key, '%s%s: interpreter charges %s machine cycles, emitted code charges %s%s'
                             % (ref['mn'], (' (operands ' + label[1:] + ')') if label else '', i, e,
                                (' (' + why + ')') if why else ''), efile, line,
                             {'interp': i, 'emitter': e, 'outcome': outcome, 'operands': label})
                else:
                    i, e, _ = next(iter(vals))
                    chk.ok('C02.1', key, sample={'opcode': cname, 'outcome': outcome, 'interp_cycles': i,
                                                 'emitter_cycles': e} if (enc[1] % 41 == 0 or outcome != 'uncond') else None)
            # an emitted conditional span with an interpreter that never depends on the flag (or vice versa)
            if summ['span'] is None and len(set(p['cycles_extra'] for p in okp)) > 1:
                chk.fail('C02.1', cname + ':shape', 'interpreter cycles depend on a condition, emitted code has no branch',
                         efile, None)
        if fits:
            chk.ok('C02.2', name, nontrivial=False)
    from .. import jitsem
    jitsem.apply_rule(ctx, chk, 'C02.4', lambda c: c == 'cycles')
    jitsem.apply_frame_rule(ctx, chk, 'C02.5', lambda c: c in ('load:cycles', 'store:cycles'))
    jitsem.suppress_subsumed(ctx, chk, ('C02.1',))
    # rule 3: writers of Registers.cycles
    allowed = {'interpreter::run_next_op', 'interpreter::interp_jump', 'interpreter::interp_jump_relative',
               'interpreter::interp_call', 'interpreter::interp_return', 'emulator::Core::handle_interrupt',
               'cpu::Registers::get_consumed_cycles', 'cpu::Registers::new', 'cpu::Registers::after_boot'}
    for cfg in ('default', 'jit'):
        pr = ctx.program(cfg)
        ws = pr.field_stores('cpu::Registers', 'cycles')
        fns = sorted(set(w[0] for w in ws))
        def writer_ok(f, depth=0):
            # a helper that does the store on behalf of the known writers only (all its callers are known writers, or
            # such helpers themselves) does not add a source of cycles: the per-encoding comparison inlines it
            if f in allowed:
                return True
            cs = set(c[0] for c in pr.callers(f))
            return bool(cs) and depth < 4 and all(c_ in pr.fns and writer_ok(c_, depth + 1) for c_ in cs)
        for f in fns:
            key = '%s:%s' % (cfg, f)
            if writer_ok(f):
                chk.ok('C02.3', key, nontrivial=False)
            else:
                w = [x for x in ws if x[0] == f][0]
                chk.fail('C02.3', key, 'Registers.cycles is written in %s (cycle accounting is no longer a sum of '
                         'per-instruction constants known to this check)' % f, pr.fns[f]['file'], w[2])
    chk.assumptions += ['x86-64 semantics of the `add r15, imm8` template bytes (49 83 c7 ib) are not interpreted; '
                        'the amount parameter of emit_cycle_increment is taken as the increment',
                        'host branch span membership is derived from the emitted displacement byte and template offsets']
    return chk.finish('For every defined encoding the interpreter path set (flags symbolic) gives decoder_clocks/4 + '
                      'taken extras per outcome; the emitted code gives the sum of emit_cycle_increment amounts outside '
                      'the host-branch span plus those inside it on the outcome for which the span executes. Both '
                      'are compared per (encoding, outcome).', exhaustive=True)
