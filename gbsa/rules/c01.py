"""C01 - composition layer of the emitter agrees with the interpreter; host protocol is well formed.

The bytes inside the emit_* templates are not interpreted (no x86 semantics): the rules compare which template is
instantiated with which registers / masks / constants, in which order, and which bus helper it references, against
the interpreter's per-opcode summary."""
from .. import absint, sm83, opspec as osp, emitmodel as em, terms as T
from ..terms import C, S, O, AV, fmt, bit_provenance
from ..affine import equal_mod, diff_const
from .common import *
from .c05 import flag_classes, changed_halves, HALF, halves
from .c06 import canon_op

FLAGBIT = {0x80: 'Z', 0x10: 'C'}
H8 = {'AH': ('af', 'hi'), 'AL': ('af', 'lo'), 'BH': ('bc', 'hi'), 'BL': ('bc', 'lo'), 'CH': ('hl', 'hi'),
      'CL': ('hl', 'lo'), 'DH': ('de', 'hi'), 'DL': ('de', 'lo')}
H16 = {'AX': 'af', 'BX': 'bc', 'CX': 'hl', 'DX': 'de', 'R12': 'sp', 'R13': 'ip'}
H64 = {'RAX': 'af', 'RBX': 'bc', 'RCX': 'hl', 'RDX': 'de'}
GUEST8 = {('af', 'hi'): 'A', ('af', 'lo'): 'F', ('bc', 'hi'): 'B', ('bc', 'lo'): 'C', ('de', 'hi'): 'D',
          ('de', 'lo'): 'E', ('hl', 'hi'): 'H', ('hl', 'lo'): 'L'}


def reg8_term(host):
    pair, which = H8[host]
    e = osp.entry_reg(pair)
    if which == 'hi':
        return O(8, 'trunc', O(32, 'shr', e, C(32, 8)))
    return O(8, 'trunc', e)


def byte_of(word16, which):
    if which == 'hi':
        return O(8, 'trunc', O(16, 'shr', word16, C(16, 8)))
    return O(8, 'trunc', word16)


def helper_shape(facts, helper):
    """(rw, width, [(address offset, 'lo'|'hi'|'byte')]) of a bus helper, derived from its body"""
    if helper == 'mem::memory_read_byte':
        return ('r', 8, [(0, 'byte')])
    if helper == 'mem::memory_write_byte':
        return ('w', 8, [(0, 'byte')])
    fn = facts['functions'].get(helper)
    if fn is None:
        raise absint.Abort('unknown bus helper ' + helper)
    rw = 'w' if len(fn['locals']) > fn['arg_count'] and fn['arg_count'] == 3 else 'r'
    return (rw, 16, word_order(facts, helper, rw))


def word_order(facts, helper, rw=None):
    """byte order of mem::memory_write_word / memory_read_word: list of (address offset, 'lo'|'hi')"""
    if rw is None:
        rw = 'w' if facts['functions'][helper]['arg_count'] == 3 else 'r'
    is_w = (rw == 'w')
    inner = 'mem::memory_write_byte' if is_w else 'mem::memory_read_byte'
    ip = absint.Interp(facts, opaque=['mem::memory_write_byte', 'mem::memory_read_byte'], trust_asserts=('overflow',))
    st = ip.new_state()
    addr = S(16, 'addr')
    val = S(16, 'value')
    args = [S(0, 'areas'), addr] + ([val] if is_w else [])
    rs = [r for r in ip.run(helper, args, st) if r.status == 'ok']
    if len(rs) != 1:
        raise absint.Abort('%s has %d ok paths' % (helper, len(rs)))
    r = rs[0]
    calls = [e for e in r.state.events if e[0] == 'call' and e[1] == inner]
    other = [e for e in r.state.events if e[0] == 'call' and e[1] != inner]
    if other or not calls:
        raise absint.Abort('%s mixes reads and writes or performs no access' % helper)
    out = []
    for i, e in enumerate(calls):
        off = diff_const(e[2][1], addr, r.state.env, 16)
        if is_w:
            prov = bit_provenance(e[2][2], r.state.env)
            if prov == [('in', val, k) for k in range(8)]:
                which = 'lo'
            elif prov == [('in', val, k + 8) for k in range(8)]:
                which = 'hi'
            else:
                which = '?'
        else:
            # which half of the result does this read feed
            prov = bit_provenance(r.ret, r.state.env)
            if prov[0:8] == [('in', e[3], k) for k in range(8)]:
                which = 'lo'
            elif prov[8:16] == [('in', e[3], k) for k in range(8)]:
                which = 'hi'
            else:
                which = '?'
        out.append((off, which))
    return out


class EmitSim:
    """symbolic walk over the template list of one encoding for one outcome (span runs or not)"""

    def __init__(self, summ, rm, shapes, run_span):
        self.summ = summ
        self.rm = rm
        self.shapes = shapes
        self.run_span = run_span
        self.ip = O(16, 'trunc', osp.entry_reg('ip'))
        self.sp = O(16, 'trunc', osp.entry_reg('sp'))
        self.status = 0
        self.bus = []          # (rw, addr16 term, value term|None, desc)
        self.writes = set()    # guest halves written
        self.flags = {'Z': '-', 'N': '-', 'H': '-', 'C': '-'}
        self.hstack = []       # host stack model: list of tags
        self.scratch = set()   # host 64-bit registers currently saved on the host stack (their guest value is protected)
        self.errors = []
        self.ip_kind = 'advance'
        self.cycles = 0

    def host8(self, v):
        return em.enum_name(v)

    def run(self):
        for t in self.summ['templates']:
            if t['in_span'] and not self.run_span:
                continue
            self.step(t)
        return self

    def mark_write8(self, host):
        if host is None:
            return
        pair, which = H8.get(host, (None, None))
        if pair is None:
            return
        r64 = {'af': 'RAX', 'bc': 'RBX', 'hl': 'RCX', 'de': 'RDX'}[pair]
        if r64 in self.scratch:
            return
        self.writes.add(GUEST8[(pair, which)])

    def mark_write16(self, host):
        pair = H16.get(host)
        if pair is None or pair == 'ip':
            return
        if pair == 'sp':
            self.writes |= {'SPh', 'SPl'}
            return
        r64 = {'af': 'RAX', 'bc': 'RBX', 'hl': 'RCX', 'de': 'RDX'}[pair]
        if r64 in self.scratch:
            return
        self.writes |= {GUEST8[(pair, 'hi')], GUEST8[(pair, 'lo')]}

    def step(self, t):
        sp_ = t['spec']
        k = sp_['kind']
        a = t['args']
        nm = t['name']
        if k == 'cycles':
            self.cycles += a[0][2] if a[0][0] == 'c' else 0
        elif k == 'ip_inc':
            self.ip = O(16, 'add', self.ip, O(16, 'trunc', a[0]))
        elif k == 'ip_set':
            self.ip = a[0]
            self.ip_kind = 'imm'
        elif k == 'ip_hl':
            self.ip = O(16, 'trunc', osp.entry_reg('hl'))
            self.ip_kind = 'hl'
        elif k == 'ip_rel':
            self.ip = O(16, 'add', self.ip, O(16, 'sext', a[0]))
            self.ip_kind = 'rel'
        elif k == 'status':
            self.status = a[0][2] if a[0][0] == 'c' else None
        elif k in ('flagtest', 'jcc'):
            pass
        elif k == 'hpush':
            r = em.enum_name(a[0])
            self.hstack.append(r)
            self.scratch.add(r)
        elif k == 'hpop':
            r = em.enum_name(a[0])
            if not self.hstack or self.hstack[-1] != r:
                self.errors.append('emit_pop_register(%s) does not match the host stack top %s' % (r, self.hstack[-1:] or 'empty'))
            else:
                self.hstack.pop()
            self.scratch.discard(r)
        elif k == 'data':
            if nm == 'emit_move_16' and em.enum_name(a[0]) == 'R13':
                self.ip = a[1]
                self.ip_kind = 'imm'
                return
            for i in sp_.get('writes8', []):
                self.mark_write8(em.enum_name(a[i]))
            for i in sp_.get('writes16', []):
                self.mark_write16(em.enum_name(a[i]))
            for h in sp_.get('writes8f', []):
                self.mark_write8(h)
            for h in sp_.get('writes16f', []):
                self.mark_write16(h)
            if nm == 'emit_add_hl':
                pass
        elif k == 'flags':
            self.flag_step(t)
            for h in sp_.get('writes8f', []):
                self.mark_write8(h)
        elif k == 'bus':
            self.bus_step(t)

    def flag_step(self, t):
        fn = t['spec']['fn']
        a = t['args']
        F = self.flags
        bits = {'Z': 0x80, 'N': 0x40, 'H': 0x20, 'C': 0x10}
        if fn == 'store':
            m = a[0][2] if a[0][0] == 'c' else None
            neg = a[1][2] if a[1][0] == 'c' else None
            if m is None or neg is None:
                self.errors.append('emit_store_flags with non-constant arguments')
                return
            for f in 'ZHC':
                if m & bits[f]:
                    F[f] = '*'
            if m & 0x40:
                F['N'] = '1' if neg else '0'
        elif fn in ('off', 'on'):
            m = a[0][2] if a[0][0] == 'c' else None
            if m is None:
                self.errors.append('emit_force_flags with non-constant mask')
                return
            for f in 'ZNHC':
                if m & bits[f]:
                    F[f] = '0' if fn == 'off' else '1'
        elif fn == 'ztest':
            F['Z'] = '*' if F['Z'] in ('0', '*', 'X') else '?'
        elif fn == 'bittest':
            F['Z'] = '*'
            F['N'] = '0'
            F['H'] = '1'
        elif fn == 'ccf':
            F['C'] = '*'
        elif fn == 'restore_carry':
            for f in 'ZNHC':
                F[f] = 'X'
        elif fn == 'daa':
            F['Z'] = '*'
            F['H'] = '0'
            F['C'] = '*'

    def bus_step(self, t):
        sp_ = t['spec']
        a = t['args']
        nm = t['name']
        if 'hstack' in sp_:
            if sp_['hstack'] > 0:
                self.hstack += ['RAX*', 'RCX*', 'RDX*']
                self.scratch.add('RDX')
            else:
                if self.hstack[-3:] != ['RAX*', 'RCX*', 'RDX*']:
                    self.errors.append('emit_hl_indirect_partial_write without a matching partial_read on the host stack')
                else:
                    del self.hstack[-3:]
                self.scratch.discard('RDX')
        ad = sp_['addr']
        if ad[0] == 'reg16':
            host = em.enum_name(a[ad[1]])
            pair = H16.get(host)
            addr = O(16, 'trunc', osp.entry_reg(pair)) if pair else None
            if pair == 'hl' and 'HLpost' in self.__dict__:
                pass
        elif ad[0] == 'fixed16':
            addr = O(16, 'trunc', osp.entry_reg(H16[ad[1]]))
        elif ad[0] == 'imm':
            addr = a[ad[1]]
        elif ad[0] == 'himem':
            addr = O(16, 'or', O(16, 'zext', O(8, 'trunc', osp.entry_reg('bc'))), C(16, 0xff00))
        elif ad[0] == 'sp':
            if sp_.get('sp_delta', 0) < 0:
                self.sp = O(16, 'add', self.sp, C(16, sp_['sp_delta'] & 0xffff))
            addr = self.sp
        else:
            addr = None
        helper = t.get('helper') or sp_['helper']
        shape = self.shapes(helper)
        rw, width = shape[0], shape[1]
        if rw != sp_['rw']:
            self.errors.append('%s embeds %s (a %s helper) but the template table says it performs a %s'
                               % (nm, helper, rw, sp_['rw']))
        val = None
        vdesc = None
        if rw == 'w':
            v = sp_['value']
            if v[0] == 'reg8':
                val = reg8_term(em.enum_name(a[v[1]]))
            elif v[0] == 'imm':
                val = a[v[1]]
            elif v[0] == 'fixed8':
                val = None if v[1].endswith('*') else reg8_term(v[1])
                vdesc = 'computed' if v[1].endswith('*') else None
            elif v[0] == 'fixed16':
                val = self.sp if v[1] == 'R12' else O(16, 'trunc', osp.entry_reg(H16[v[1]]))
            elif v[0] == 'reg16':
                host = em.enum_name(a[v[1]])
                val = self.ip if host == 'R13' else O(16, 'trunc', osp.entry_reg(H16[host]))
        if width == 8:
            self.bus.append((rw, addr, val, vdesc, nm))
        else:
            if rw == 'w' and val is not None and val[1] != 16:
                self.errors.append('%s passes an 8-bit value to the word helper %s' % (nm, helper))
            for off, which in shape[2]:
                ai = O(16, 'add', addr, C(16, off)) if addr is not None else None
                vi = byte_of(val, which) if (rw == 'w' and val is not None) else None
                self.bus.append((rw, ai, vi, which, nm))
        if sp_.get('sp_delta', 0) > 0:
            self.sp = O(16, 'add', self.sp, C(16, sp_['sp_delta']))
        if sp_.get('sp_delta'):
            self.writes |= {'SPh', 'SPl'}
        # destinations of reads
        if 'dest8' in sp_:
            self.mark_write8(em.enum_name(a[sp_['dest8']]))
        if 'dest8f' in sp_ and not sp_['dest8f'].endswith('*'):
            self.mark_write8(sp_['dest8f'])
        if 'dest16' in sp_:
            host = em.enum_name(a[sp_['dest16']])
            if host == 'R13':
                self.ip_kind = 'popped'
                self.ip = None
            else:
                self.mark_write16(host)
                if host == 'AX':
                    for f in 'ZNHC':
                        self.flags[f] = '*'


def run(ctx, chk):
    chk.rule('C01.1', 'N', 'guest registers written by the emitted templates = registers changed by the interpreter; '
             'register maps are the documented injective assignment', floor=500)
    chk.rule('C01.2', 'N', 'per-bit flag effect class of the emitted flag templates = class of the interpreter', floor=500)
    chk.rule('C01.3', 'D', 'PC effect per outcome (advance constant / target source) agrees', floor=516)
    chk.rule('C01.4', 'D', 'status code agrees modulo the partition Core::run_code_block induces', floor=500)
    chk.rule('C01.5', 'D', 'bus accesses agree per outcome: kind, address, value, order (word helpers expanded with '
             'their analysed byte order); embedded helper addresses match the template table', floor=516)
    chk.rule('C01.6', 'D', 'host stack discipline: pushes/pops balanced and LIFO, partial read/write paired, spans '
             'balanced', floor=500)
    chk.rule('C01.7', 'D', 'host conditional branch lands exactly at the end of the instruction code, on a template '
             'boundary; polarity matches the interpreter condition', floor=16)
    chk.rule('C01.8', 'D', 'Registers layout (repr, offsets) = displacements and host registers of prologue loads and '
             'epilogue stores; prologue pushes mirror epilogue pops', floor=14)
    chk.rule('C01.9', 'D', 'encode_op produces exactly one code sequence for every defined encoding and diverges for '
             'Invalid', floor=500)
    chk.rule('C01.12', 'D', 'call frame, value level: abstract execution of the entry trampoline, the block exit and the exit '
             'trampoline: every Registers field reaches its host register (32 bits for AF BC DE HL, 16 for SP IP cycles) '
             'and is stored back from it, R14 starts at 0 and is returned in AL, the block exit reaches the exit '
             'trampoline, callee-saved host registers and the host stack are restored', floor=20)
    chk.rule('C01.11', 'D', 'translation is total: every slice translate_code_block hands to decode() - for a block start '
             'accepted by can_dynarec and for every index the loop can reach - is at least as long as the longest '
             'instruction (no out-of-bounds index / host panic for an instruction at the end of a ROM bank)', floor=2)
    chk.rule('C01.10', 'D', 'value level, all operands at once: the emitted x86-64 bytes of every encoding, abstractly '
             'executed from the documented register assignment, leave every bit of EAX/EBX/EDX/ECX (AF BC DE HL), SP and PC '
             '(mod 2^16) equal to the interpreter, perform the same byte accesses (kind, address, value, order) through '
             'the embedded helper addresses with RDI = the MemoryAreas pointer, keep the host stack balanced and never '
             'branch on an undefined or clobbered value', floor=500)
    facts = ctx.facts('jit')
    prog = ctx.program('jit')
    ENC = 'emitter::x86_64::Emitter::encode_op'
    if not need(chk, prog, [ENC, 'interpreter::run_op', 'decoder::decode', 'mem::memory_write_word',
                            'mem::memory_read_word', 'emulator::Core::run_code_block',
                            'emitter::x86_64::Emitter::write_prelude_function',
                            'emitter::x86_64::Emitter::write_epilogue_function']):
        return chk.finish('anchors missing')
    sp = ctx.opspec('jit')
    rm = em.RegMaps(facts)
    efile = prog.fns[ENC]['file']
    # register maps
    for nm, got, want in (('map_register_8', rm.r8, em.RegMaps.DOCUMENTED_8),
                          ('map_register_16', rm.r16, em.RegMaps.DOCUMENTED_16),
                          ('map_indirect_location_to_register', rm.ind, em.RegMaps.DOCUMENTED_IND)):
        if got == want:
            chk.ok('C01.1', 'map:' + nm, sample={'map': nm, 'assignment': got})
        else:
            chk.fail('C01.1', 'map:' + nm, '%s is %s, documented assignment is %s' % (nm, got, want), efile,
                     prog.fns['emitter::x86_64::' + nm]['line'])
    shape_cache = {}

    def shapes(helper):
        if helper not in shape_cache:
            shape_cache[helper] = helper_shape(facts, helper)
        return shape_cache[helper]
    try:
        shapes('mem::memory_write_word')
        shapes('mem::memory_read_word')
    except absint.Abort as e:
        chk.error('cannot derive the byte order of the word helpers: %s' % e.why)
        return chk.finish('anchors missing')
    partition = status_partition(ctx, chk)
    grouped = {}

    def per_case(enc, cname, ref, variant, args, er, cons, label):
        try:
            summ = em.summarise_emit(er, rm)
        except absint.Abort as e:
            chk.error('emitter summary for %s: %s' % (cname, e.why))
            return
        # which helper each bus template embeds (from the emitted bytes, not from the table)
        refs = em.fn_addr_refs(summ)
        helpers_ok = True
        for t in summ['templates']:
            if t['spec']['kind'] != 'bus':
                continue
            inside = [(o, h, ok) for (o, h, ok) in refs if t['off'] <= o < t['off'] + t['size']]
            if len(inside) != 1 or not inside[0][2]:
                helpers_ok = False
                chk.fail('C01.5', cname + ':helpers', '%s: template %s embeds %d bus helper addresses (expected one '
                         'complete 8-byte address)' % (ref['mn'], t['name'], len(inside)), efile, t['site'][1])
            else:
                t['helper'] = inside[0][1]
        stray = [h for (o, h, ok) in refs if not any(t['spec']['kind'] == 'bus' and t['off'] <= o < t['off'] + t['size']
                                                     for t in summ['templates'])]
        if stray:
            helpers_ok = False
            chk.fail('C01.5', cname + ':helpers', '%s: code outside the bus templates embeds helper addresses %s'
                     % (ref['mn'], stray), efile, None)
        if not helpers_ok:
            return
        paths = [osp.summarise_interp(r) for r in sp.interp(enc, cons, label)]
        okp = [p for p in paths if p['result'].status == 'ok']
        same_operand = (enc[0] is None and (enc[1] >> 6) == 2 and (enc[1] & 7) == 7)
        span = summ['span']
        # group interpreter paths by outcome
        outcomes = {}
        if span is None:
            outcomes['uncond'] = (okp, True)
        else:
            bit = FLAGBIT.get(span['mask'])
            for p in okp:
                v = p['cond'].get(bit) if bit else None
                if v is None:
                    chk.fail('C01.7', cname, '%s: emitted code branches on flag mask %r but an interpreter path is not '
                             'decided by that flag' % (ref['mn'], span['mask']), efile, None)
                    continue
                runs = (v == 1) == span['runs_when_set']
                key = '%s=%d' % (bit, v)
                outcomes.setdefault(key, ([], runs))[0].append(p)
            # rule 7
            bounds = set(t['off'] for t in summ['templates']) | {summ['total']}
            if span['end'] != summ['total'] or span['end'] not in bounds or span['start'] not in bounds:
                chk.fail('C01.7', cname, '%s: host branch displacement %d skips to offset %d, instruction code ends at %d'
                         % (ref['mn'], span['disp'], span['end'], summ['total']), efile,
                         [t for t in summ['templates'] if t['spec']['kind'] == 'jcc'][0]['site'][1])
            else:
                chk.ok('C01.7', cname, sample={'opcode': cname, 'mask': span['mask'], 'jcc': span['jcc'],
                                              'disp': span['disp'], 'code_len': summ['total']})
        if span is None and len(set(p['taken'] for p in okp if 'taken' in p)) > 1:
            pass
        all_writes = set()
        all_flags = []
        for okey, (plist, runs) in sorted(outcomes.items()):
            sim = EmitSim(summ, rm, shapes, runs).run()
            key = cname if okey == 'uncond' else '%s:%s' % (cname, okey)
            # ---- rule 3: PC
            bad = None
            for p in plist:
                env = p['env']
                ipt = p['regs']['ip']
                if sim.ip_kind == 'popped':
                    reads = [b for b in p['bus'] if b['kind'] == 'r']
                    okk = False
                    if len(reads) == 2:
                        lo, hi = reads[0]['value'], reads[1]['value']
                        okk = ipt == O(32, 'zext', O(16, 'or', O(16, 'shl', O(16, 'zext', hi), C(16, 8)), O(16, 'zext', lo)))
                    if not okk:
                        bad = 'emitted code loads PC from the popped word, interpreter sets PC = %s' % fmt(ipt)
                elif not equal_mod(O(16, 'trunc', ipt), sim.ip, env, 16):
                    # JR: interpreter paths are split by the sign of e8
                    bad = 'interpreter PC = %s, emitted code PC = %s' % (fmt(ipt), fmt(sim.ip))
            if bad:
                chk.fail('C01.3', key, '%s: %s' % (ref['mn'], bad), efile, None)
            else:
                chk.ok('C01.3', key, sample={'opcode': cname, 'outcome': okey, 'pc': fmt(sim.ip) if sim.ip else 'popped'}
                       if sim.ip_kind != 'advance' and enc[1] % 8 == 0 else None)
            # ---- rule 4: status
            ist = set(p['status'] for p in plist)
            if len(ist) == 1 and partition.get(next(iter(ist)), 'other') == partition.get(sim.status, 'other'):
                chk.ok('C01.4', key, nontrivial=(sim.status != 0))
            else:
                chk.fail('C01.4', key, '%s: interpreter returns status %s, emitted code returns %s (different classes in '
                         'Core::run_code_block)' % (ref['mn'], sorted(map(str, ist)), sim.status), efile, None)
            # ---- rule 5: bus
            bad = compare_bus(plist, sim)
            if bad and bad[0]:
                grouped.setdefault(bad[0], []).append((key, ref['mn'], bad[1]))
                chk.rules['C01.5']['instances'] += 1
                chk.rules['C01.5']['failures'] += 1
            elif bad:
                chk.fail('C01.5', key, '%s: %s' % (ref['mn'], bad[1]), efile, None)
            else:
                chk.ok('C01.5', key, nontrivial=bool(sim.bus),
                       sample={'opcode': cname, 'bus': [(b[0], fmt(b[1]) if b[1] else None) for b in sim.bus]}
                       if sim.bus and enc[1] % 16 == 5 else None)
            # ---- rule 6: host stack
            if sim.errors or sim.hstack:
                chk.fail('C01.6', key, '%s: %s' % (ref['mn'], '; '.join(sim.errors) or
                                                   'host stack not empty at the end of the instruction: %s' % sim.hstack),
                         efile, None)
            else:
                chk.ok('C01.6', key, nontrivial=any(t['spec']['kind'] in ('hpush', 'bus') for t in summ['templates']))
            all_writes |= sim.writes
            all_flags.append(dict(sim.flags))
        # ---- rule 1: register targets (union over outcomes)
        ch = changed_halves(okp)
        missing = ch - all_writes
        extra = all_writes - ch
        if same_operand or (ref['mn'] == 'LD r,r' and args[0] == args[1]):
            extra = set()
        if ref['mn'] in ('POP rp',) and args[0] == 'AF':
            extra -= {'F'}
        extra -= {'F'}
        if missing or extra:
            chk.fail('C01.1', cname, '%s: interpreter changes %s, emitted templates write %s'
                     % (ref['mn'], sorted(ch), sorted(all_writes)), efile, None)
        else:
            chk.ok('C01.1', cname, nontrivial=bool(ch))
        # ---- rule 2: flags
        icls = flag_classes(okp)
        ecls = ''
        for f in 'ZNHC':
            vals = set(fl[f] for fl in all_flags)
            ecls += vals.pop() if len(vals) == 1 else '*'
        if same_operand:
            icls = ''.join(e if (e == '*' and i in '01*') else i for i, e in zip(icls, ecls))
        if icls == ecls:
            chk.ok('C01.2', cname, nontrivial=(icls != '----'))
        else:
            chk.fail('C01.2', cname, '%s: interpreter flag effect ZNHC = %s, emitted flag templates give %s'
                     % (ref['mn'], icls, ecls), efile, None)

    for enc in osp.all_encodings():
        name = osp.enc_name(enc)
        ref = sm83.TABLE[enc]
        try:
            opv, ln, cy = sp.decoded(enc)
        except absint.Abort as e:
            chk.error('decode(%s): %s' % (name, e.why))
            continue
        variant, args = canon_op(opv)
        if variant == 'Invalid':
            if any(r.status == 'ok' for r in sp.emit(enc)):
                chk.fail('C01.9', name, 'encode_op emits code for Op::Invalid', efile, None)
            continue
        cases, badp = sp.emit_cases(enc)
        if badp or not cases:
            chk.fail('C01.9', name, '%s: encode_op does not complete for every operand value: %s'
                     % (ref['mn'], [(r.status, str(r.detail)[:80]) for r in badp][:3]), efile, None)
            continue
        chk.ok('C01.9', name, nontrivial=False)
        for label, er, cons in cases:
            per_case(enc, name + label, ref, variant, args, er, cons, label)
    for gk, lst in sorted(grouped.items()):
        chk.rules['C01.5']['instances'] -= 1
        chk.rules['C01.5']['failures'] -= 1
        chk.fail('C01.5', gk, '%d encodings (%s): e.g. %s %s: %s' % (len(lst), ' '.join(x[0] for x in lst)[:160],
                                                                 lst[0][0], lst[0][1], lst[0][2]), efile, None,
                 {'encodings': [x[0] for x in lst]})
        chk.rules['C01.5']['instances'] += len(lst) - 1
        chk.rules['C01.5']['failures'] += len(lst) - 1
    check_layout(ctx, chk, prog, facts)
    decoder_window(ctx, chk, prog, facts)
    from .. import jitsem
    jitsem.apply_rule(ctx, chk, 'C01.10', lambda c: c != 'cycles')
    jitsem.apply_frame_rule(ctx, chk, 'C01.12', lambda c: True)
    if not any(v['rule'] == 'C01.12' for v in chk.violations) and not chk.errors:
        # C01.8 pattern-matches the trampoline bytes; when the abstract execution (C01.12) proves the frame right, an
        # unmatched pattern is an unrecognised but equivalent encoding, not a defect
        keep = []
        for v in chk.violations:
            if v['rule'] == 'C01.8' and v['key'] != 'repr':
                chk.rules['C01.8']['failures'] -= 1
                chk.info('C01.8 %s: byte pattern not recognised (%s) but C01.12 proves the call frame correct; not reported'
                         % (v['key'], v['what'][:100]))
            else:
                keep.append(v)
        chk.violations[:] = keep
    jitsem.suppress_subsumed(ctx, chk, ('C01.1', 'C01.2', 'C01.3', 'C01.5', 'C01.6', 'C01.7'))
    # ---- rule 13: what a "block" is must be the same for both engines, or equal instructions do not add up to equal blocks
    from ..report import borrow
    borrow(ctx, chk, 'C01.13', 'D', 'block extent: the translator and the interpreter cut a block at the same instruction '
           '(same terminators, same region ends: a block that starts in the fixed bank never runs on into the switchable '
           'one) - the clauses C04.3 and C03.5, evaluated here as well', 'c04', ['C04.3'], floor=8)
    borrow(ctx, chk, 'C01.13', 'D', 'block extent: the translator and the interpreter cut a block at the same instruction '
           '(same terminators, same region ends: a block that starts in the fixed bank never runs on into the switchable '
           'one) - the clauses C04.3 and C03.5, evaluated here as well', 'c03', ['C03.5'], floor=8)
    # ---- rule 14: the translation that is entered was made from the bytes mapped now (a block cached for another bank of
    # the switchable window is another program: its effect is not that of the instructions the interpreter would execute)
    borrow(ctx, chk, 'C01.14', 'D', 'the translated block that is entered belongs to the code mapped now: the cache key used '
           'for lookup and insertion follows the bank read from the controller in the same activation - clause C03.1, '
           'evaluated here as well', 'c03', ['C03.1'], floor=2)
    chk.assumptions += ['x86-64 semantics of the template bytes are not interpreted: a wrong opcode byte inside an emit_* '
                        'template is outside the reach of this check (DESIGN 2.4); the 60-entry effect table in '
                        'gbsa/emitmodel.py is trusted and fails closed on unknown templates',
                        'value-level equality of computed results (ALU outputs, flag values) is not decided']
    return chk.finish('Per-opcode abstract interpretation of Emitter::encode_op yields the exact template sequence, '
                      'arguments, offsets and emitted byte string (operand bytes symbolic) for all 500 defined encodings; '
                      'a symbolic walk over the templates (per branch outcome) gives PC, status, bus accesses, written '
                      'registers, flag classes and host stack depth, compared with the interpreter path summaries.',
                      exhaustive=True)


def compare_bus(plist, sim):
    """-> None or (group key or None, message). Group keys collect instances of one defect in one template."""
    for p in plist:
        env = p['env']
        ib = []
        for b in p['bus']:
            if b['width'] == 8:
                ib.append((b['kind'], b['addr'], b['value'] if b['kind'] == 'w' else None))
            else:
                for off, which in sim.shapes(b['site_helper'])[2]:
                    ib.append((b['kind'], O(16, 'add', b['addr'], C(16, off)),
                               byte_of(b['value'], which) if b['kind'] == 'w' else None))
        eb = sim.bus

        def same(x, y):
            if x[0] != y[0] or y[1] is None or not equal_mod(x[1], y[1], env, 16):
                return False
            if x[0] == 'w' and y[2] is not None and x[2] != y[2] and not same_byte(x[2], y[2], env):
                return False
            return True
        if len(ib) == len(eb) and all(same(x, y) for x, y in zip(ib, eb)):
            continue
        show_i = [(x[0], fmt(x[1])) for x in ib]
        show_e = [(x[0], fmt(x[1]) if x[1] else '?') for x in eb]
        # same accesses in a different order?
        if len(ib) == len(eb):
            used = set()
            perm = True
            for x in ib:
                hit = None
                for j, y in enumerate(eb):
                    if j not in used and same(x, y):
                        hit = j
                        break
                if hit is None:
                    perm = False
                    break
                used.add(hit)
            if perm:
                tn = sorted(set(y[4] for y in eb))
                return ('order:' + '+'.join(tn), 'same bus accesses in a different order: interpreter %s, emitted code %s'
                        % (show_i, show_e))
        if len(eb) > len(ib):
            # emitted code performs the interpreter's accesses plus extra ones
            j = 0
            extras = []
            for y in eb:
                if j < len(ib) and same(ib[j], y):
                    j += 1
                else:
                    extras.append(y)
            if j == len(ib):
                return ('extra:' + '+'.join(sorted(set('%s(%s)' % (y[4], y[0]) for y in extras))),
                        'emitted code performs extra bus accesses: interpreter %s, emitted code %s' % (show_i, show_e))
        return (None, 'bus accesses differ: interpreter %s, emitted code %s' % (show_i, show_e))
    return None


def same_byte(a, b, env):
    pa = bit_provenance(a, env)
    pb = bit_provenance(b, env)
    if None not in pa and pa == pb:
        return True
    return equal_mod(a, b, env, 8)


def status_partition(ctx, chk):
    """classes of status codes as Core::run_code_block treats them: value -> signature of its effect"""
    facts = ctx.facts('jit')
    opaque = ['cache::CodeCache::call', 'cache::CodeCache::translate_code_block', 'cache::CodeCache::get_address_for_ip',
              'interpreter::run_code_block', 'emulator::Core::handle_interrupt', 'mem::MemoryAreas::run_clock_cycles',
              'cpu::Registers::get_consumed_cycles', 'mem::can_dynarec', 'mem::MemoryAreas::as_ptr']
    ip = absint.Interp(facts, opaque=opaque, trust_asserts=('overflow',))
    st = ip.new_state()
    core = ip.arg_object(st, 'core')
    rs = ip.run('emulator::Core::run_code_block', [core], st)
    part = {}
    for r in rs:
        if r.status != 'ok':
            continue
        rets = [e[3] for e in r.state.events if e[0] == 'call' and e[1] in ('cache::CodeCache::call',
                                                                             'interpreter::run_code_block')]
        if not rets:
            continue
        res = rets[-1]
        sig = tuple(sorted((e[2][-1][1], fmt(e[3])) for e in r.state.events
                           if e[0] == 'store' and e[1] == 'core' and e[2] and e[2][-1][1] in ('run_state', 'interrupts_enabled')))
        av = r.state.env.av(res)
        for v in range(0, 8):
            if av.contains(v) and av.is_const():
                part[v] = sig
        if not av.is_const():
            for v in range(0, 8):
                if av.contains(v) and v not in part:
                    part.setdefault(v, sig)
    if len(part) < 6:
        chk.error('could not extract the status partition of Core::run_code_block (%s)' % part)
    chk.extra['status_partition'] = {str(k): [list(x) for x in v] for k, v in part.items()}
    return part


def decode_moves(code):
    """(opcode 0x8b load / 0x89 store, host register number, displacement, operand size) for mov r,[rdi+disp8] forms"""
    out = []
    i = 0
    n = len(code)
    while i < n:
        j = i
        opsize = 32
        rex = 0
        if code[j] == 0x66:
            opsize = 16
            j += 1
        if j < n and 0x40 <= code[j] <= 0x4f:
            rex = code[j]
            j += 1
        if j + 1 < n and code[j] in (0x8b, 0x89):
            modrm = code[j + 1]
            mod, reg, rmf = modrm >> 6, (modrm >> 3) & 7, modrm & 7
            if rmf == 7 and not (rex & 1) and mod in (0, 1):
                disp = 0
                ln = 2
                if mod == 1:
                    if j + 2 >= n:
                        break
                    disp = code[j + 2]
                    ln = 3
                if rex & 8:
                    opsize = 64
                out.append((code[j], reg | ((rex >> 2) & 1) << 3, disp, opsize, i))
                i = j + ln
                continue
        i += 1
    return out


def const_array(fn):
    """bytes of the first all-constant u8 array aggregate in a function"""
    for b in fn['blocks']:
        for s in b['stmts']:
            if s['k'] == 'assign' and s['rv']['k'] == 'aggregate' and s['rv']['kind']['k'] == 'array':
                ops = s['rv']['ops']
                if ops and all(o['k'] == 'const' for o in ops):
                    return [o['val'] for o in ops], s['line']
            if s['k'] == 'assign' and s['rv']['k'] == 'use' and s['rv']['op'].get('bytes'):
                return list(s['rv']['op']['bytes']), s['line']
    return None, None


HOSTNUM = {0: 'af', 3: 'bc', 2: 'de', 1: 'hl', 12: 'sp', 13: 'ip', 15: 'cycles'}


def check_layout(ctx, chk, prog, facts):
    adt = facts['adts'].get('cpu::Registers')
    pro = prog.fns['emitter::x86_64::Emitter::write_prelude_function']
    epi = prog.fns['emitter::x86_64::Emitter::write_epilogue_function']
    if not adt:
        chk.error('ADT cpu::Registers not found')
        return
    offs = {f['name']: f['offset'] for f in adt['fields']}
    file = pro['file']
    if 'pack: Some' in adt['repr'] and 'IS_C' in adt['repr']:
        chk.ok('C01.8', 'repr', sample={'repr': 'C, packed'})
    else:
        chk.fail('C01.8', 'repr', 'cpu::Registers is not repr(C, packed): %s' % adt['repr'], 'src/cpu.rs', None)
    pcode, pline = const_array(pro)
    ecode, eline = const_array(epi)
    if not pcode or not ecode:
        chk.error('prologue/epilogue byte arrays not found as constant aggregates')
        return
    for label, code, opc, line in (('prologue', pcode, 0x8b, pline), ('epilogue', ecode, 0x89, eline)):
        mv = [m for m in decode_moves(code) if m[0] == opc]
        seen = {}
        for op, reg, disp, size, pos in mv:
            fld = HOSTNUM.get(reg)
            if fld is None:
                continue
            seen[fld] = (disp, size)
        for fld, off in sorted(offs.items()):
            key = '%s:%s' % (label, fld)
            if fld not in seen:
                chk.fail('C01.8', key, '%s does not %s register-file field %s' %
                         (label, 'load' if opc == 0x8b else 'store', fld), file, line)
            elif seen[fld][0] != off:
                chk.fail('C01.8', key, '%s accesses %s at displacement %d, rustc lays the field out at offset %d'
                         % (label, fld, seen[fld][0], off), file, line)
            else:
                chk.ok('C01.8', key, sample={'field': fld, 'offset': off, 'operand_bits': seen[fld][1], 'in': label})
    # callee-saved pushes mirrored by pops
    def pushes(code):
        out = []
        i = 0
        while i < len(code):
            b = code[i]
            if 0x50 <= b <= 0x57:
                out.append(('push', b - 0x50))
            elif 0x58 <= b <= 0x5f:
                out.append(('pop', b - 0x58))
            elif b == 0x41 and i + 1 < len(code) and 0x50 <= code[i + 1] <= 0x5f:
                c = code[i + 1]
                out.append(('push' if c < 0x58 else 'pop', 8 + (c & 7)))
                i += 1
            elif b in (0x8b, 0x89, 0x31) or b == 0xff:
                i += 1  # skip modrm of the simple forms used here
            i += 1
        return out
    pp = [r for k, r in pushes(pcode) if k == 'push']
    ep = [r for k, r in pushes(ecode) if k == 'pop']
    # prologue pushes: rbx rbp r12 r13 r14 r15 rdi rdx ; block epilogue pops rdi (jmp), function epilogue pops rdi?..
    saved = pp[:6]
    restored = [r for r in ep if r in saved]
    if saved and restored == list(reversed(saved)):
        chk.ok('C01.8', 'callee-saved', sample={'pushed': saved, 'popped': restored})
    else:
        chk.fail('C01.8', 'callee-saved', 'prologue pushes host registers %s, epilogue pops %s (not mirror images)'
                 % (saved, restored), file, pline)


# ---------------------------------------------------------------------------------------------------------------
# C01.11 - the translator hands the decoder enough bytes

TCB = 'cache::CodeCache::translate_code_block'
SEG = 'cache::CodeCache::get_executable_memory_segment'
CDY = 'mem::can_dynarec'


def decoder_window(ctx, chk, prog, facts):
    """Every slice translate_code_block passes to decode() must be at least as long as the longest instruction (the
    decoder indexes operand bytes unconditionally).  The index of the first iteration is the block start, which
    Core::run_code_block only hands over when can_dynarec(ip); later iterations have passed the loop's own exits.
    For both index sets the length of get_executable_memory_segment(index) is computed as a term and compared with the
    window bit-precisely (ROBDD), so masks like (addr & 0x3fff) < 0x3ffe are understood exactly."""
    from ..bdd import BDD, BV, TermBV, Unsupported
    from .. import valsem
    if not need(chk, prog, [TCB, SEG, CDY, 'decoder::decode']):
        return
    sp = ctx.opspec('jit')
    window = 0
    for enc in osp.all_encodings():
        try:
            _, ln, _ = sp.decoded(enc)
        except absint.Abort:
            continue
        window = max(window, ln or 0)
    if window < 1:
        chk.error('cannot derive the decoder window')
        return
    file = 'src/cache/mod.rs'

    def seg_short(env, idx, what, key):
        """run SEG from `env` with index term idx; report inputs for which the returned slice is shorter than window"""
        # slice bounds against the ROM length are C11's obligation (with the header invariants); here only the length
        # of the returned view matters
        ip = absint.Interp(facts, trust_asserts=('overflow', 'bounds', 'slice_index'), sym_facts=env.sym_facts,
                           opaque=['mem::MemoryAreas::get_rom_bank'])
        st = ip.new_state()
        st.env = env.copy()
        cache = ip.arg_object(st, 'cache')
        rs = ip.run(SEG, [cache, idx, S(0, 'mem')], st)
        m = BDD()
        conv = TermBV(m)
        bad = None
        n_ok = 0
        try:
            for r in rs:
                K = 1
                for kind, t, v in r.state.env.log:
                    if not (isinstance(t, tuple) and t and t[0] in ('c', 's', 'o') and t[1]):
                        continue
                    # a conjunct whose canonical form is large (bounds assumptions relating a shifted bank number to
                    # a length) is dropped: a weaker K can only make the obligation harder to discharge
                    m.limit = len(m.node) + 60000
                    try:
                        e = conv(t).eq(v)
                        K2 = m.AND(K, e if kind == 'eq' else m.NOT(e))
                    except Unsupported:
                        conv.memo.pop(t, None)
                        continue
                    finally:
                        m.limit = 3000000
                    K = K2
                for t, av in r.state.env.ref.items():
                    if t[0] == 's' and t[1]:
                        x = conv(t)
                        if av.lo > 0:
                            K = m.AND(K, m.NOT(x.ult(BV.const(m, len(x), av.lo))))
                        if av.hi < (1 << len(x)) - 1:
                            K = m.AND(K, x.ule(BV.const(m, len(x), av.hi)))
                if K == 0:
                    continue
                if r.status != 'ok':
                    # e.g. the panic arm for addresses outside ROM, or a failing slice bound
                    w = m.witness(K)
                    bad = bad or ('%s: get_executable_memory_segment does not return (%s) for index %#x'
                                  % (what, str(r.detail)[:50], valsem.eval_bv(m, conv(idx), w)))
                    continue
                if r.ret is None or r.ret[0] != 'slice':
                    chk.error('C01.11: get_executable_memory_segment does not return a slice view')
                    return
                n_ok += 1
                from ..affine import simplify as _simplify
                ln = conv(_simplify(r.ret[4], r.state.env))
                D = m.AND(K, ln.ult(BV.const(m, len(ln), window)))
                if D != 0:
                    w = m.witness(D)
                    bad = bad or ('%s: decode() receives a slice of %d byte(s) for index %#x but reads up to %d '
                                  '(instruction straddling the end of the ROM bank: index out of bounds, host panic)'
                                  % (what, valsem.eval_bv(m, ln, w), valsem.eval_bv(m, conv(idx), w), window))
        except Unsupported as e:
            chk.error('C01.11 %s: outside the bit-vector fragment: %s' % (key, e.why))
            return
        if bad:
            chk.fail('C01.11', key, bad, file, prog.fns[TCB]['line'])
        elif not n_ok:
            chk.error('C01.11 %s: no completing path of get_executable_memory_segment' % key)
        else:
            chk.ok('C01.11', key, sample={'index set': what, 'decoder window': window, 'segment paths': n_ok})

    # (a) first iteration: index = ip with can_dynarec(ip)
    ipv = S(64, 'ip')
    ipc = absint.Interp(facts)
    st = ipc.new_state()
    rs = ipc.run(CDY, [ipv], st)
    truths = [r for r in rs if r.status == 'ok' and r.ret is not None and r.state.env.const_of(r.ret) == 1]
    und = [r for r in rs if r.status == 'ok' and (r.ret is None or r.state.env.const_of(r.ret) is None)]
    if und or not truths:
        # a single boolean expression: assume it true
        truths = []
        for r in rs:
            if r.status == 'ok' and r.ret is not None and r.ret[0] != 'c':
                e2 = r.state.env.copy()
                if e2.assume_eq(r.ret, 1):
                    truths.append((r, e2))
            elif r.status == 'ok' and r.ret is not None and r.state.env.const_of(r.ret) == 1:
                truths.append((r, r.state.env))
    else:
        truths = [(r, r.state.env) for r in truths]
    if not truths:
        chk.error('C01.11: can_dynarec has no accepting path')
        return
    for i, (r, env) in enumerate(truths):
        seg_short(env, ipv, 'block start accepted by can_dynarec', 'first:%d' % i)
    # (b) later iterations: index after the loop's own exit tests
    snaps = []

    def oc(st_, callee, args, site):
        if callee == SEG:
            snaps.append((args[1], st_.env.copy()))
    ip = absint.Interp(facts, opaque=['decoder::decode', 'emitter::x86_64::Emitter::encode_op', SEG,
                                      'emitter::x86_64::Emitter::encode_epilogue', 'cache::CodeCache::insert_code_block',
                                      'decoder::ops::Op::is_block_end',
                                      'cache::linux::ExecutableMemory::make_writable',
                                      'cache::linux::ExecutableMemory::make_executable',
                                      'cache::linux::ExecutableMemory::get_memory_area_mut'],
                       loop_mode='havoc', trust_asserts=('overflow', 'bounds', 'slice_index'))
    ip.on_call = oc
    st = ip.new_state()
    cache = ip.arg_object(st, 'cache')
    st.env.assume(ipv, AV(64, 0, 0x7fff))
    ip.run(TCB, [cache, S(0, 'code'), ipv, S(0, 'mem')], st)
    ip.on_call = None
    later = 0
    seen = set()
    for idx, env in snaps:
        if idx == ipv:
            continue
        same = any(k == 'eq' and ((t == O(1, 'ne', idx, ipv) and v == 0) or (t == O(1, 'eq', idx, ipv) and v == 1))
                   for k, t, v in env.log)
        if same:
            continue            # index == ip: covered by (a)
        from .. import bvproof as _bp
        if T.is_int(idx) and _bp.equal_under(idx, ipv, env, 64) is True:
            continue            # index == ip follows from the path condition (e.g. `index > ip` is false): covered by (a)
        # the sub-case index == ip of this call is (a)'s; what remains is index != ip
        env = env.copy()
        if T.is_int(idx) and not env.assume_eq(O(1, 'ne', idx, ipv), 1):
            continue
        sig = (idx, tuple(env.log))
        if sig in seen:
            continue
        seen.add(sig)
        later += 1
        seg_short(env, idx, 'index of a later loop iteration', 'later:%d' % later)
    if not later:
        chk.error('C01.11: no later-iteration call of get_executable_memory_segment found in translate_code_block')
