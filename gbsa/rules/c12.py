"""C12 - MBC1/MBC3 bank selection follows the controller's register protocol."""
from .. import absint, busmodel as bm, headercfg, terms as T
from ..terms import C, S, O, AV, fmt, bit_provenance
from ..invariants import FieldInvariants
from .common import *
from ..terms import int_type

IMPL = {'cart::MBC1CartState': 'MBC1', 'cart::MBC3CartState': 'MBC3', 'cart::NullCartState': 'ROM-only'}
# window -> (field, mask of value bits that are stored, kind)
PROTOCOL = {
    'MBC1': [(0x0000, 0x1fff, 'ram_enabled', None), (0x2000, 0x3fff, 'rom_bank', 0x1f),
             (0x4000, 0x5fff, 'ram_bank', 0x03), (0x6000, 0x7fff, 'select_ram', 0x01)],
    'MBC3': [(0x0000, 0x1fff, 'ram_enabled', None), (0x2000, 0x3fff, 'rom_bank', 0x7f),
             (0x4000, 0x5fff, 'ram_bank', 0x03), (0x6000, 0x7fff, None, None)],
    'ROM-only': [(0x0000, 0x7fff, None, None)],
}


def method(ty, name):
    return '<%s as cart::CartState>::%s' % (ty, name)


def run(ctx, chk):
    chk.rule('C12.1', 'D', 'write_rom: four 8 KiB register windows, each storing value & mask into its own register '
             'only; ROM-only ignores writes', floor=9)
    chk.rule('C12.2', 'D', 'the ROM bank mapped at 0x4000-0x7fff is never bank 0 by controller decision (0 -> 1 '
             'translation on every path)', floor=3)
    chk.rule('C12.3', 'D', 'MBC1 upper bits and mode select: ROM bank = (ram_bank << 5) | low in mode 0; RAM bank = '
             'ram_bank iff mode 1; MBC3 RAM bank = register', floor=4)
    chk.rule('C12.4', 'D', 'bank numbers are reduced to the cartridge size at every ROM / cartridge-RAM access site '
             '(index provably inside the buffer for every header configuration)', floor=3)
    chk.rule('C12.7', 'D', 'a bank number that exists in the cartridge selects that bank: at every ROM / cartridge-RAM access '
             'site the reduction to the cartridge size is the identity on bank numbers below the bank count, for every '
             'ROM and RAM size a header can declare (so every bank is reachable)', floor=20)
    chk.rule('C12.5', 'D', '0x0000-0x3fff always shows bank 0 (index is the address, no controller term)', floor=1)
    chk.rule('C12.6', 'D', 'Header::get_cart_type and Header::create_cart_state agree on controller families', floor=3)
    facts = ctx.facts('default')
    prog = ctx.program('default')
    cfile = 'src/cart.rs'
    inv = FieldInvariants(facts)
    for ty in ('cart::MBC1CartState', 'cart::MBC3CartState'):
        inv.track(ty, 'rom_bank')
        inv.track(ty, 'ram_bank')
    ip = absint.Interp(facts, sym_facts=inv.sym_facts)
    types = ip.trait_impl_types('cart::CartState::write_rom')
    for ty in sorted(IMPL):
        if ty not in types:
            chk.error('controller type %s does not implement cart::CartState (found %s)' % (ty, types))
    for ty in types:
        if ty not in IMPL:
            chk.info('controller type %s has no reference protocol in this check' % ty)
    # the register fields this check reads by name: when a controller keeps its state differently (the MBC1 mode select as
    # an enum instead of the bool `select_ram`, say) the clauses about that controller cannot be evaluated - no verdict
    for ty, fam in sorted(IMPL.items()):
        adt_ = facts['adts'].get(ty)
        have_ = {f_['name']: f_['ty'] for f_ in (adt_ or {}).get('fields', [])}
        for _, _, fld_, msk_ in PROTOCOL[fam]:
            if fld_ is not None and (fld_ not in have_ or (msk_ is not None and not (int_type(have_[fld_]) or have_[fld_] == 'bool'))):
                chk.error('%s has no integer / bool register field `%s` (anchor lost: the controller state is kept in another '
                          'form, which this check does not read)' % (ty, fld_))
                return chk.finish('anchors missing')
    for ty, fam in sorted(IMPL.items()):
        wr = method(ty, 'write_rom') if method(ty, 'write_rom') in prog.fns else 'cart::CartState::write_rom'
        addr = S(16, 'addr')
        val = S(8, 'value')
        st = ip.new_state()
        st.env.assume(addr, AV(16, 0, 0x7fff))
        me = ip.arg_object(st, 'cart')
        rs = ip.run(wr, [me, addr, val], st)
        wins = []
        for r in rs:
            if r.status != 'ok':
                chk.fail('C12.1', '%s:diverge' % fam, 'write_rom can diverge: %s' % (r.detail,), cfile, None)
                continue
            av = r.state.env.av(addr)
            stores = [e for e in r.state.events if e[0] == 'store']
            wins.append((av.lo, av.hi, stores, r))
        for lo, hi, field, mask_ in PROTOCOL[fam]:
            key = '%s:%04x-%04x' % (fam, lo, hi)
            inside = [w for w in wins if w[0] >= lo and w[1] <= hi]
            cover = sorted((w[0], w[1]) for w in inside)
            straddle = [w for w in wins if (w[0] < lo <= w[1]) or (w[0] <= hi < w[1])]
            if straddle and not (fam == 'ROM-only'):
                chk.fail('C12.1', key, '%s write_rom handles 0x%04x-0x%04x with one arm; the register window is 0x%04x-0x%04x'
                         % (fam, straddle[0][0], straddle[0][1], lo, hi), cfile, None)
                continue
            if not inside or min(c[0] for c in cover) != lo or max(c[1] for c in cover) != hi:
                chk.fail('C12.1', key, '%s: register window 0x%04x-0x%04x is not covered exactly (%s)'
                         % (fam, lo, hi, cover), cfile, None)
                continue
            bad = None
            stored_any = False
            for wlo, whi, stores, r in inside:
                for e in stores:
                    fld = e[2][-1][1]
                    if field is None or fld != field:
                        bad = 'a write to 0x%04x-0x%04x stores to %s' % (wlo, whi, fld)
                        continue
                    stored_any = True
                    if mask_ is not None and T.is_int(e[3]):
                        # value level first: the stored register is (value & mask) - as a number, or as "non-zero" for a
                        # one-bit (bool) register - for every value on this path
                        from ..affine import equal_mod as _eqm
                        sb = e[3][1]
                        masked = O(8, 'and', val, C(8, mask_))
                        want_t = O(1, 'ne', masked, C(8, 0)) if sb == 1 else (O(sb, 'zext', masked) if sb > 8 else masked)
                        if _eqm(e[3], want_t, r.state.env, sb):
                            continue
                    if mask_ is not None:
                        prov = bit_provenance(e[3], r.state.env)
                        for i in range(len(prov)):
                            want = ('in', val, i) if (i < 8 and (mask_ >> i) & 1) else 0
                            if prov[i] != want:
                                # MBC3 RAM bank: value < 4 is checked by a branch instead of a mask
                                vav = r.state.env.av(val)
                                if i < 8 and not (mask_ >> i) & 1 and prov[i] == ('in', val, i) and (vav.m0 >> i) & 1:
                                    continue
                                bad = 'bit %d of %s is %s, protocol stores value & %#x' % (i, fld, prov[i], mask_)
                                break
            if field is not None and not stored_any:
                bad = 'no store to %s for this window' % field
            if bad:
                chk.fail('C12.1', key, '%s: %s' % (fam, bad), cfile, None)
            else:
                chk.ok('C12.1', key, sample={'controller': fam, 'window': '%04x-%04x' % (lo, hi), 'register': field,
                                             'mask': mask_})
        # ---- rule 2 / 3: getters
        grb = method(ty, 'get_rom_bank') if method(ty, 'get_rom_bank') in prog.fns else 'cart::CartState::get_rom_bank'
        gra = method(ty, 'get_ram_bank') if method(ty, 'get_ram_bank') in prog.fns else 'cart::CartState::get_ram_bank'
        # value level: the getters as functions of the controller registers (bounded by their field invariants),
        # compared bit-precisely with the register protocol - any way of writing them is accepted
        if fam in ('MBC1', 'MBC3'):
            getter_values(chk, ip, fam, grb, gra, cfile, prog)
        if fam == 'ROM-only':
            st = ip.new_state()
            me = ip.arg_object(st, 'cart')
            rr = ip.run(gra, [me], st)
            rb = ip.run(grb, [me], st)
            okk = all(r.status == 'ok' and r.ret == C(64, 0) for r in rr) and all(r.ret == C(64, 1) for r in rb)
            if all(r.status == 'ok' and r.ret is not None and T.is_int(r.ret) and r.state.env.av(r.ret).lo > 0 for r in rb):
                chk.ok('C12.2', 'ROM-only', nontrivial=False)
            else:
                chk.fail('C12.2', 'ROM-only', 'ROM-only get_rom_bank can return bank 0', cfile, None)
            if okk:
                chk.ok('C12.3', 'ROM-only:constants', sample={'rom_bank': 1, 'ram_bank': 0})
            else:
                chk.fail('C12.3', 'ROM-only:constants', 'ROM-only cartridge does not report ROM bank 1 / RAM bank 0', cfile, None)
    reduction(ctx, chk, facts, prog)
    identity_on_valid_banks(ctx, chk, facts, prog)
    # ---- rule 5
    model = bm.BusModel(facts)
    for p in model.read_paths():
        if p.get('status') == 'ok' and p['hi'] <= 0x3fff and p['kind'] == 'buffer':
            same = p['index'] == O(64, 'zext', bm.ADDR)
            if not same and p['index'] is not None and p.get('env') is not None:
                # any way of writing it: the index equals the address for every address of the path (bit-precise)
                from .. import bvproof
                same = bvproof.equal_under(p['index'], O(64, 'zext', bm.ADDR), p['env'], 64) is True
            if same and p['buffer'] == 'rom':
                chk.ok('C12.5', 'bank0', sample={'range': '%04x-%04x' % (p['lo'], p['hi']), 'index': fmt(p['index'])})
            else:
                chk.fail('C12.5', 'bank0', '0x%04x-0x%04x reads %s[%s]: not the fixed bank 0'
                         % (p['lo'], p['hi'], p['buffer'], fmt(p['index'])), 'src/mem.rs', None)
    # ---- rule 8: every write into the ROM area reaches the controller
    chk.rule('C12.8', 'D', 'register writes are delivered: every path of memory_write_byte for an address in 0x0000-0x7fff '
             'calls the controller\'s write_rom with that address and the byte written - no size- or state-dependent shortcut '
             'drops them', floor=1)
    bad8 = None
    n8 = 0
    for p in model.write_paths():
        if p.get('status') != 'ok' or p['lo'] is None or p['lo'] > 0x7fff:
            continue
        n8 += 1
        r8 = p['result']
        dyn = [e for e in r8.state.events if e[0] == 'dyn']
        if p['hi'] > 0x7fff:
            bad8 = bad8 or 'a write path serves 0x%04x-0x%04x: ROM-area writes are not separated from the rest' % (p['lo'], p['hi'])
        elif not any('write_rom' in str(e[1:3]) for e in dyn):
            bad8 = bad8 or ('a write to 0x%04x-0x%04x can return without calling the controller\'s write_rom' % (p['lo'], p['hi']))
    if bad8 or not n8:
        chk.fail('C12.8', 'delivered', 'memory_write_byte: %s' % (bad8 or 'no write path for the ROM area found'), 'src/mem.rs', None)
    else:
        chk.ok('C12.8', 'delivered', sample={'ROM-area write paths': n8, 'each calls': 'cart_state.write_rom(addr, value)'})
    # ---- rule 6
    cs = headercfg.configuration_space(facts)
    fam_of_type = {}
    for ty, lst in cs['cart_types'].items():
        for v in lst:
            fam_of_type[v] = IMPL.get(ty, ty)
    gct = headercfg.table(facts, 'cart::Header::get_cart_type', 'cart_type')
    # get_cart_type returns an enum aggregate: read variant names
    ipx = absint.Interp(facts)
    names = {}
    for v in range(256):
        st, ref = headercfg._hdr_state(ipx, 'cart_type', v)
        rs = ipx.run('cart::Header::get_cart_type', [ref], st)
        for r in rs:
            if r.status == 'ok' and r.ret is not None and r.ret[0] == 'agg':
                names[v] = r.ret[1][3]
    want = {'MBC1': 'MBC1', 'MBC3': 'MBC3', 'ROM-only': 'None'}
    for fam in ('MBC1', 'MBC3', 'ROM-only'):
        codes = sorted(v for v, f in fam_of_type.items() if f == fam)
        conflict = [v for v in codes if names.get(v) not in (want[fam], 'Unknown')]
        if conflict:
            chk.fail('C12.6', fam, 'type byte(s) %s build a %s controller but get_cart_type reports %s'
                     % ([hex(v) for v in conflict], fam, [names.get(v) for v in conflict]), cfile, None)
        else:
            chk.ok('C12.6', fam, sample={'family': fam, 'type_bytes': codes})
        unk = [v for v in codes if names.get(v) == 'Unknown']
        if unk:
            chk.info('type bytes %s build a %s controller although get_cart_type reports Unknown (display only)'
                     % ([hex(v) for v in unk], fam))
    chk.assumptions += ['RAM-enable gating is not part of the statement and is not checked',
                        'in MBC1 mode 1 both documented conventions for the upper ROM bank bits are accepted']
    return chk.finish('Abstract interpretation of every CartState implementation (write_rom with address and value '
                      'symbolic; getters with registers bounded by field invariants) gives the per-write register update '
                      'table and the register -> bank function; since every register is overwritten (not accumulated) by '
                      'a write, the table decides all write histories. Use sites are discharged per header configuration.',
                      exhaustive=True)


def path_cond(r):
    out = []
    for d in r.state.decisions:
        v = r.state.env.const_of(d[0]) if T.is_int(d[0]) else None
        out.append('%s = %s' % (fmt(d[0])[:60], v))
    return ', '.join(out) or 'always'


def is_field(t, name):
    return t is not None and t[0] == 's' and t[3] and t[3][0] == 'field' and t[3][2] == name


def check_mbc1(chk, ip, ty, rom_paths, gra, cfile):
    # mode 0: (ram_bank << 5) | low
    ok0 = False
    for r in rom_paths:
        if r.status != 'ok':
            continue
        sel = [d for d in r.state.decisions if 'select_ram' in fmt(d[0])]
        mode1 = any(r.state.env.const_of(d[0]) == 1 for d in sel)
        prov = bit_provenance(r.ret, r.state.env)
        if not mode1:
            hi_ok = all(prov[5 + i] is not None and prov[5 + i] != 0 and prov[5 + i][0] == 'in' and
                        prov[5 + i][1][3][2] == 'ram_bank' and prov[5 + i][2] == i for i in range(2))
            lo_ok = all((prov[i] in (0, 1)) or (prov[i][0] == 'in' and prov[i][1][3][2] == 'rom_bank' and prov[i][2] == i)
                        for i in range(5))
            if hi_ok and lo_ok:
                ok0 = True
            else:
                chk.fail('C12.3', 'MBC1:mode0', 'MBC1 mode 0 ROM bank is %s, expected (ram_bank << 5) | low' % fmt(r.ret),
                         cfile, None)
                return
    if ok0:
        chk.ok('C12.3', 'MBC1:mode0', sample={'rom_bank': '(ram_bank << 5) | (rom_bank or 1)'})
    else:
        chk.fail('C12.3', 'MBC1:mode0', 'no mode-0 path found in MBC1 get_rom_bank', cfile, None)
    st = ip.new_state()
    me = ip.arg_object(st, 'cart')
    rr = ip.run(gra, [me], st)
    good = True
    for r in rr:
        sel = [d for d in r.state.decisions if 'select_ram' in fmt(d[0])]
        mode1 = any(r.state.env.const_of(d[0]) == 1 for d in sel)
        if mode1 and not is_field(r.ret, 'ram_bank'):
            good = False
        if not mode1 and r.ret != C(64, 0):
            good = False
    if good and len(rr) == 2:
        chk.ok('C12.3', 'MBC1:ram_bank', sample={'ram_bank': 'ram_bank iff mode 1 else 0'})
    else:
        chk.fail('C12.3', 'MBC1:ram_bank', 'MBC1 get_ram_bank is not "ram_bank iff select_ram else 0"', cfile, None)


def reduction(ctx, chk, facts, prog):
    cs = headercfg.configuration_space(facts)
    fixed = headercfg.fixed_buffer_sizes(facts)
    inv = FieldInvariants(facts)
    for ty in ('cart::MBC1CartState', 'cart::MBC3CartState'):
        inv.track(ty, 'rom_bank')
        inv.track(ty, 'ram_bank')
    inv.track('mem::MemoryAreas', 'wram_bank')
    sites = [('default', bm.RD, [S(0, 'areas'), S(16, 'addr')]),
             ('default', bm.WR, [S(0, 'areas'), S(16, 'addr'), S(8, 'value')]),
             ('default', bm.FETCH, [S(64, 'start'), S(0, 'areas')])]
    jf = ctx.facts('jit')
    if 'cache::CodeCache::get_executable_memory_segment' in jf['functions']:
        sites.append(('jit', 'cache::CodeCache::get_executable_memory_segment', [S(0, 'cache'), S(64, 'start'), S(0, 'areas')]))
    for cfg, fn, args in sites:
        fx = ctx.facts(cfg)
        fails = {}
        nconf = 0
        for cart in sorted(cs['cart_types']):
            for banks in cs['bank_counts']:
                for ram in cs['ram_sizes']:
                    nconf += 1
                    lens = {'rom': banks * cs['rom_factor'], 'cart_ram': ram}
                    for b, v in fixed.items():
                        if v[0] == 'const':
                            lens[b] = v[1]

                    def sf(t, lens=lens):
                        m = t[3]
                        if m and m[0] == 'len':
                            b = bm.buffer_of(m[1])
                            if b in lens:
                                return AV.const(64, lens[b])
                        return inv.sym_facts(t)
                    ip = absint.Interp(fx, sym_facts=sf, dyn_filter=(lambda mth, ty, cart=cart: ty == cart),
                                       opaque=[IO_GET, IO_SET])
                    st = ip.new_state()
                    for r in ip.run(fn, list(args), st):
                        for e in r.state.events:
                            if e[0] == 'assert' and e[3] in ('may_fail', 'fails'):
                                d = e[4]
                                txt = ' '.join(fmt(x) for x in d[1:] if x is not None) if d else ''
                                txt = txt.replace('vram_bank', '').replace('wram_bank', '')
                                if '.rom.' in txt or 'cart_ram' in txt or 'rom_bank' in txt or 'ram_bank' in txt:
                                    fails.setdefault('%s@bb%d' % (e[1], e[2][2]), []).append((cart, banks, ram))
        key = 'site:' + fn
        if fails:
            k, lst = sorted(fails.items())[0]
            chk.fail('C12.4', key, '%s: bank-derived index not reduced to the buffer size (%s) for %d of %d configurations, '
                     'e.g. %s with %d ROM banks and %d bytes of RAM' % (fn, k, len(set(lst)), nconf,
                                                                       lst[0][0].split('::')[-1], lst[0][1], lst[0][2]),
                     prog.fns[fn]['file'] if fn in prog.fns else 'src/cache/mod.rs', None)
        else:
            chk.ok('C12.4', key, sample={'site': fn, 'configurations': nconf})


def identity_on_valid_banks(ctx, chk, facts, prog):
    """The controller's bank number B (result of get_rom_bank / get_ram_bank, any value) is reduced to the image size by
    the access site.  For each declared size: B < bank count  =>  the bank actually indexed is B.  The indexed bank is
    read off the affine form of the buffer index (coefficient = bank stride); B is kept symbolic by making the
    controller getter opaque; the implication is decided bit-precisely (division by the concrete count included)."""
    from ..affine import aff
    from ..bdd import BDD, BV, TermBV, Unsupported
    cs = headercfg.configuration_space(facts)
    fixed = headercfg.fixed_buffer_sizes(facts)
    getters = {}
    for ty in ('cart::MBC1CartState', 'cart::MBC3CartState'):
        for g in ('get_rom_bank', 'get_ram_bank'):
            getters[(ty, g)] = '<%s as cart::CartState>::%s' % (ty, g)
    mfile = 'src/mem.rs'
    jobs = []
    for banks in cs['bank_counts']:
        jobs.append(('rom', banks, 0x4000, 0x7fff, 'get_rom_bank', {'rom': banks * cs['rom_factor'], 'cart_ram': 0x8000}))
    for ram in cs['ram_sizes']:
        if ram >= 0x4000:
            jobs.append(('cart_ram', ram // 0x2000, 0xa000, 0xbfff, 'get_ram_bank', {'rom': 0x8000, 'cart_ram': ram}))
    for buf, count, lo, hi, getter, lens in jobs:
        for b, v in fixed.items():
            if v[0] == 'const':
                lens.setdefault(b, v[1])
        for ty in ('cart::MBC1CartState', 'cart::MBC3CartState'):
            key = '%s:%s:%d-banks' % (buf, ty.split('::')[-1], count)

            def sf(t, lens=lens):
                m_ = t[3]
                if m_ and m_[0] == 'len':
                    b_ = bm.buffer_of(m_[1])
                    if b_ in lens:
                        return AV.const(64, lens[b_])
                return None
            ip = absint.Interp(facts, sym_facts=sf, dyn_filter=(lambda mth, t_, ty=ty: t_ == ty),
                               opaque=[IO_GET, IO_SET, getters[(ty, getter)]], trust_asserts=('overflow', 'bounds', 'slice_index'))
            st = ip.new_state()
            st.env.assume(bm.ADDR, AV(16, lo, hi))
            found = 0
            bad = None
            for r in ip.run(bm.RD, [S(0, 'areas'), bm.ADDR], st):
                calls0 = [e for e in r.state.events if e[0] == 'call' and e[1] == getters[(ty, getter)]]
                served = (r.status == 'ok' and r.ret is not None and r.ret[0] == 's' and r.ret[3] and r.ret[3][0] == 'elem'
                          and bm.buffer_of(r.ret[3][1]) == buf)
                if r.status == 'ok' and calls0 and not served and \
                        any(calls0[-1][3] in _syms_of(d[0]) for d in r.state.decisions):
                    # reduced, not rejected: whether the window is backed by the buffer must not depend on the bank number
                    bad = bad or ('with %d banks of %s, some controller bank numbers are not served from the buffer at all '
                                  '(the access returns %s on a path whose condition tests the bank number): the bank is '
                                  'rejected instead of reduced to the cartridge\'s size' % (count, buf, fmt(r.ret)[:40]))
                    found += 1
                    continue
                if r.status != 'ok' or r.ret is None or r.ret[0] != 's' or not r.ret[3] or r.ret[3][0] != 'elem':
                    continue
                if bm.buffer_of(r.ret[3][1]) != buf:
                    continue
                idx = r.ret[3][2]
                calls = [e for e in r.state.events if e[0] == 'call' and e[1] == getters[(ty, getter)]]
                if not calls:
                    continue
                B = calls[-1][3]
                co, c0, w = aff(idx, r.state.env)
                atoms = [(a, k) for a, k in co.items() if B in _syms_of(a)]
                if len(atoms) != 1:
                    bad = bad or 'index %s does not contain the controller bank number exactly once' % fmt(idx)[:100]
                    continue
                EB, stride = atoms[0]
                found += 1
                try:
                    m = BDD()

                    def known(t, sf=sf):
                        av = sf(t)
                        if av is not None and av.is_const():
                            return ((~av.lo) & ((1 << t[1]) - 1), av.lo)
                        return (0, 0)
                    conv = TermBV(m, known)
                    vb = conv(B)
                    ve = conv(EB)
                    if len(ve) != len(vb):
                        ve = ve.zext(len(vb)) if len(ve) < len(vb) else ve.trunc(len(vb))
                    D = m.AND(vb.ult(BV.const(m, len(vb), count)), ve.diff(vb))
                    if D != 0:
                        wv = m.witness(D)
                        bsel = wv.get(B[2], 0)
                        got = 0
                        for i_, n_ in enumerate(ve.b):
                            while n_ > 1:
                                v_, lo_, hi_ = m.node[n_]
                                sy, bit = m.names[v_]
                                n_ = hi_ if (wv.get(sy, 0) >> bit) & 1 else lo_
                            got |= n_ << i_
                        bad = bad or ('with %d banks of %s, the controller selects bank %d (which exists) but bank %d is '
                                      'indexed (reduction %s)' % (count, buf, bsel, got, fmt(EB)[:80]))
                except Unsupported as e:
                    chk.error('C12.7 %s: outside the bit-vector fragment: %s' % (key, e.why))
                    bad = None
                    found = -1
                    break
            if found < 0:
                continue
            if bad:
                chk.fail('C12.7', key, bad, mfile, None)
            elif not found:
                chk.error('C12.7 %s: no banked access path found' % key)
            else:
                chk.ok('C12.7', key, sample={'buffer': buf, 'controller': ty, 'banks': count} if count in (72, 4) else None)


def _syms_of(t):
    out = set()
    stack = [t]
    while stack:
        x = stack.pop()
        if isinstance(x, tuple) and x:
            if x[0] == 's':
                out.add(x)
            elif x[0] == 'o':
                stack.extend(x[3:])
    return out


def getter_values(chk, ip, fam, grb, gra, cfile, prog):
    from .. import bvproof
    from ..bdd import BV, Unsupported

    def field_syms(r):
        out = {}
        seen = set()
        stack = [r.ret] + [t for k, t, v in r.state.env.log]
        while stack:
            x = stack.pop()
            if not isinstance(x, tuple) or not x or x in seen:
                continue
            seen.add(x)
            if x[0] == 's' and x[3] and x[3][0] == 'field':
                out[x[3][2]] = x
            elif x[0] == 'o':
                stack.extend(x[3:])
        return out

    def run(fn):
        st = ip.new_state()
        me = ip.arg_object(st, 'cart')
        return ip.run(fn, [me], st)

    def reg(m, conv, syms, name, width=64):
        t = syms.get(name)
        if t is None:
            return BV.sym(m, 'unused:' + name, width)
        v = conv(t)
        return v.zext(width) if len(v) < width else v.trunc(width)

    def boolean(m, conv, syms, name):
        t = syms.get(name)
        if t is None:
            return m.var_of('unused:' + name, 0)
        return conv(t).nonzero()
    results = {'rom': [], 'ram': []}
    for kind, fn in (('rom', grb), ('ram', gra)):
        for r in run(fn):
            key = '%s:%s' % (fam, kind)
            if r.status != 'ok' or r.ret is None or not T.is_int(r.ret):
                chk.fail('C12.3', key, '%s get_%s_bank does not return on some path (%s)' % (fam, kind, r.detail), cfile, None)
                return
            try:
                m, conv, K = bvproof.setup(r.state.env)
                syms = field_syms(r)
                got = conv(r.ret)
                got = got.zext(64) if len(got) < 64 else got
                rb = reg(m, conv, syms, 'rom_bank')
                ab = reg(m, conv, syms, 'ram_bank')
                low = BV.mux(m, m.NOT(rb.nonzero()), BV.const(m, 64, 1), rb)
                if fam == 'MBC1':
                    mode1 = boolean(m, conv, syms, 'select_ram')
                    if kind == 'rom':
                        full = ab.shl(5) | low
                        want = [BV.mux(m, mode1, low, full), full]       # both documented conventions for mode 1
                    else:
                        want = [BV.mux(m, mode1, ab, BV.const(m, 64, 0))]
                else:
                    want = [low] if kind == 'rom' else [ab]
                ds = [m.AND(K, got.diff(w_)) for w_ in want]
                zero = m.AND(K, m.NOT(got.nonzero())) if kind == 'rom' else 0
            except Unsupported as e:
                chk.error('C12.3 %s: outside the bit-vector fragment: %s' % (key, e.why))
                return
            results[kind].append((m, ds, zero, r, syms))
    # rule 2: never bank 0
    bad0 = [x for x in results['rom'] if x[2] != 0]
    if bad0:
        m, ds, zero, r, syms = bad0[0]
        w = m.witness(zero)
        chk.fail('C12.2', fam, '%s get_rom_bank selects bank 0 for the switchable window when %s'
                 % (fam, ', '.join('%s=%#x' % (k.split('.')[-1], v) for k, v in sorted(w.items()))), cfile,
                 prog.fns[grb]['line'] if grb in prog.fns else None)
    else:
        chk.ok('C12.2', fam, sample={'controller': fam, 'paths': len(results['rom'])})
    # rule 3: the register -> bank functions
    for kind, key, what in (('rom', '%s:mode0' % fam if fam == 'MBC1' else '%s:rom_bank' % fam,
                             '(ram_bank << 5) | (rom_bank or 1) in mode 0' if fam == 'MBC1' else 'rom_bank or 1'),
                            ('ram', '%s:ram_bank' % fam, 'ram_bank iff mode 1 else 0' if fam == 'MBC1' else 'ram_bank')):
        bad = None
        for m, ds, zero, r, syms in results[kind]:
            # one convention must hold on the whole path set: find a convention index that every path satisfies
            pass
        nconv = len(results[kind][0][1]) if results[kind] else 0
        okc = [ci for ci in range(nconv) if all(x[1][ci] == 0 for x in results[kind])]
        if results[kind] and okc:
            chk.ok('C12.3', key, sample={'controller': fam, 'bank': kind, 'function': what})
        elif not results[kind]:
            chk.fail('C12.3', key, 'no completing path of %s get_%s_bank' % (fam, kind), cfile, None)
        else:
            m, ds, zero, r, syms = [x for x in results[kind] if x[1][0] != 0][0]
            w = m.witness(ds[0])
            chk.fail('C12.3', key, '%s get_%s_bank is not %s: differs for %s (returns %s)'
                     % (fam, kind, what, ', '.join('%s=%#x' % (k.split('.')[-1], v) for k, v in sorted(w.items())),
                        fmt(r.ret)[:80]), cfile, None)
