"""C03 - the translation cache is transparent, including across ROM bank switches (tag coherence)."""
from .. import absint, busmodel as bm, terms as T
from ..terms import C, S, O, AV, fmt, bit_provenance
from ..affine import equal_mod
from .common import *
from .c10 import rename, rename_prefix

RCB = CORE + 'run_code_block'
TCB = 'cache::CodeCache::translate_code_block'
ICB = 'cache::CodeCache::insert_code_block'
SEG = 'cache::CodeCache::get_executable_memory_segment'
BGET = 'std::collections::BTreeMap::<K, V, A>::get'
BINS = 'std::collections::BTreeMap::<K, V, A>::insert'
IPREG = S(32, 'core.registers.ip', ('field', 'cpu::Registers', 'ip', 'u32'))


def syms_of(t, out=None):
    out = set() if out is None else out
    stack = [t]
    while stack:
        x = stack.pop()
        if not isinstance(x, tuple) or not x:
            continue
        if x[0] == 's':
            out.add(x)
        elif x[0] == 'o':
            stack.extend(x[3:])
        elif x[0] == 'agg':
            stack.extend(x[2])
    return out


def bank_bits_syms(key, env):
    """symbols that bits 16..31 of the u32 key depend on (bit provenance; falls back to all symbols of the term)"""
    prov = bit_provenance(key, env)
    out = set()
    unknown = False
    for i in range(16, 32):
        p = prov[i]
        if p is None:
            unknown = True
        elif p not in (0, 1):
            out.add(p[1])
    if unknown:
        out |= syms_of(key)
    return out


def depends_on_live_bank(syms, events_before):
    """does any symbol denote the controller's live ROM bank: a cartridge register field, the result of a
    get_rom_bank call, or a cache tag that was stored in this activation from such a value"""
    for s in syms:
        m = s[3]
        name = s[2]
        if 'ret:get_rom_bank' in name:
            return True
        if m and m[0] == 'field' and m[1].startswith('cart::') and m[2] in ('rom_bank', 'ram_bank', 'select_ram'):
            return True
    return False


def run(ctx, chk):
    chk.rule('C03.1', 'D', 'the bank component of the cache key used for lookup and for insertion in the switchable ROM '
             'window depends on the bank mapped now (read from the controller in the same run_code_block activation)',
             floor=2)
    chk.rule('C03.2', 'D', 'translation reads the same bytes the interpreter would fetch: get_executable_memory_segment = '
             'get_executable_memory_slice on ROM', floor=2)
    chk.rule('C03.3', 'D', 'only never-written memory is cached: can_dynarec accepts ROM addresses only and blocks are '
             'inserted only under that guard', floor=2)
    chk.rule('C03.4', 'D', 'insert and lookup use the same injective key function (bank << 16 | address)', floor=2)
    chk.rule('C03.5', 'D', 'a translated block does not extend past the end of the region its key belongs to', floor=1)
    facts = ctx.facts('jit')
    prog = ctx.program('jit')
    if not need(chk, prog, [RCB, TCB, SEG, 'cache::blocks::CacheRegion::get', 'cache::blocks::CacheRegion::insert',
                            'mem::can_dynarec']):
        return chk.finish('anchors missing')
    file = 'src/cache/blocks.rs'
    # premise: the bank can change
    ip0 = absint.Interp(facts)
    changeable = []
    for ty in ip0.trait_impl_types('cart::CartState::get_rom_bank'):
        g = '<%s as cart::CartState>::get_rom_bank' % ty
        w = '<%s as cart::CartState>::write_rom' % ty
        if g in prog.fns and w in prog.fns:
            st = ip0.new_state()
            me = ip0.arg_object(st, 'cart')
            reads = set()
            for r in ip0.run(g, [me], st):
                if r.ret is not None:
                    reads |= set(s[3][2] for s in syms_of(r.ret) if s[3] and s[3][0] == 'field')
                for d in r.state.decisions:
                    reads |= set(s[3][2] for s in syms_of(d[0]) if s[3] and s[3][0] == 'field')
            st = ip0.new_state()
            me = ip0.arg_object(st, 'cart')
            writes = set()
            for r in ip0.run(w, [me, S(16, 'a'), S(8, 'v')], st):
                writes |= set(e[2][-1][1] for e in r.state.events if e[0] == 'store')
            if reads & writes:
                changeable.append(ty)
    chk.extra['controllers_with_switchable_bank'] = changeable
    if not changeable:
        chk.info('no controller can change the mapped bank: rule 1 is vacuous')
    # ---- rule 1: lookup key
    heavy = ['cache::CodeCache::call', HI_(), 'mem::MemoryAreas::run_clock_cycles', 'interpreter::run_code_block',
             'cache::linux::ExecutableMemory::make_writable', 'cache::linux::ExecutableMemory::make_executable',
             'emitter::x86_64::Emitter::encode_op', 'emitter::x86_64::Emitter::encode_epilogue', 'decoder::decode',
             'decoder::ops::Op::is_block_end']
    ip = absint.Interp(facts, opaque=[h for h in heavy if h in facts['functions']], trust_asserts=('overflow', 'bounds', 'slice_index'),
                       loop_mode='havoc', models={BGET: ev_model('btree_get'), BINS: ev_model('btree_insert')})
    st = ip.new_state()
    core = ip.arg_object(st, 'core')
    st.env.assume(IPREG, AV(32, 0x4000, 0x7fff))
    rs = ip.run(RCB, [core], st)
    lookups = inserts = 0
    seen = set()
    for r in rs:
        if r.status not in ('ok', 'loopback'):
            continue
        evs = r.state.events
        for i, e in enumerate(evs):
            if e[0] == 'effect' and e[1] in ('btree_get', 'btree_insert'):
                snap = e[6]
                key = snap[1] if e[1] == 'btree_get' else None
                if e[1] == 'btree_insert':
                    key = e[3][1]
                if key is None or not T.is_int(key):
                    chk.fail('C03.1', e[1] + ':key', 'cannot read the key passed to BTreeMap::%s' % e[1][6:], file, None)
                    continue
                sy = bank_bits_syms(key, r.state.env)
                # tags stored earlier in this activation
                live = depends_on_live_bank(sy, evs[:i])
                if not live:
                    # control dependence: the path fixed the controller registers by branching on them
                    for d in r.state.decisions:
                        if depends_on_live_bank(syms_of(d[0]), evs) and tag_store_before(evs[:i]):
                            live = True
                if not live:
                    for s_ in sy:
                        if s_[3] and s_[3][0] == 'field' and s_[3][2] == 'current_bank':
                            pass
                    # was current_bank stored in this activation from a live value?
                    for e2 in evs[:i]:
                        if e2[0] == 'store' and e2[2] and e2[2][-1][1] == 'current_bank':
                            if depends_on_live_bank(syms_of(e2[3]), evs):
                                live = True
                kind = 'lookup' if e[1] == 'btree_get' else 'insert'
                if kind == 'lookup':
                    lookups += 1
                else:
                    inserts += 1
                carts = [x[2] for x in evs if x[0] == 'dyn']
                cart = carts[0] if carts else 'any'
                switchable = (cart == 'any' and bool(changeable)) or cart in changeable
                k = '%s:rom_high:%s' % (kind, cart.split('::')[-1])
                if (k, live) in seen:
                    continue
                seen.add((k, live))
                if live or not switchable:
                    chk.ok('C03.1', k, sample={'access': kind, 'key': fmt(key)[:200]})
                else:
                    chk.fail('C03.1', k, 'cache %s for PC in 0x4000-0x7fff uses key %s: its bank component (%s) does not depend '
                             'on the ROM bank mapped now, so after a bank switch a block translated from another bank is '
                             '%s' % (kind, fmt(key)[:120], ', '.join(sorted(s_[2].split('.')[-1] for s_ in sy)) or 'constant',
                                     'executed' if kind == 'lookup' else 'filed under the wrong bank'), file, None,
                             {'key': fmt(key)})
    if not lookups:
        chk.error('no BTreeMap::get reached from run_code_block for PC in the switchable window (anchor lost)')
    if not inserts:
        chk.error('no BTreeMap::insert reached from run_code_block (anchor lost)')
    # ---- rule 1, second half: the tag is an *injective* function of the mapped bank (two banks never share a tag)
    tag_injective(ctx, chk, facts, file)
    # ---- rule 2
    model = bm.BusModel(facts)
    slice_paths = [p for p in model.fetch_paths() if p['status'] == 'ok' and p['hi'] <= 0x7fff]
    ipseg = absint.Interp(facts, sym_facts=model.sym_facts, trust_asserts=('overflow', 'bounds', 'slice_index'))
    st = ipseg.new_state()
    start = S(64, 'start')
    segs = []
    for r in ipseg.run(SEG, [S(0, 'cache'), start, S(0, 'mem')], st):
        if r.status == 'ok' and r.ret is not None and r.ret[0] == 'slice':
            av = r.state.env.av(start)
            segs.append({'lo': av.lo, 'hi': av.hi, 'buffer': bm.buffer_of(r.ret[1][1]), 'offset': r.ret[3], 'len': r.ret[4],
                         'env': r.state.env, 'cart': [e[2] for e in r.state.events if e[0] == 'dyn']})
        elif r.status == 'ok':
            chk.fail('C03.2', 'segment:shape', 'get_executable_memory_segment returns %s' % fmt(r.ret), 'src/cache/mod.rs', None)
    for name, lo, hi in (('ROM0', 0, 0x3fff), ('ROMn', 0x4000, 0x7fff)):
        ss = [s for s in segs if s['lo'] >= lo and s['hi'] <= hi]
        pp = [p for p in slice_paths if p['lo'] >= lo and p['hi'] <= hi]
        bad = None
        n = 0
        for s in ss:
            match = False
            for p in pp:
                if s['cart'] != p['cart']:
                    continue
                if s['buffer'] == p['buffer'] and equal_mod(s['offset'], p['offset'], p['env'], 64) and \
                        equal_mod(s['len'], p['len'], p['env'], 64):
                    match = True
            n += 1
            if not match:
                bad = '%s: translator reads %s[%s..+%s] which matches no interpreter fetch slice' % (
                    name, s['buffer'], fmt(s['offset'])[:100], fmt(s['len'])[:60])
        if bad or not n:
            chk.fail('C03.2', name, bad or '%s: no translator fetch path' % name, 'src/cache/mod.rs', None)
        else:
            chk.ok('C03.2', name, sample={'region': name, 'paths': n})
    # ---- rule 3
    ipc = absint.Interp(facts)
    a = S(64, 'addr')
    rr = ipc.run('mem::can_dynarec', [a])
    # every accepted address is a ROM address (anything at or above 0x8000 is writable by the guest and is never
    # invalidated in the cache); decided bit-precisely so that masks in the predicate are understood
    from .. import bvproof
    from ..bdd import BV, Unsupported
    outside = None
    accepted = 0
    try:
        for r in rr:
            if r.status != 'ok' or r.ret is None:
                outside = 'can_dynarec does not return on some path'
                continue
            m, conv, K = bvproof.setup(r.state.env)
            acc = m.AND(K, conv(r.ret).b[0])
            if acc != 0:
                accepted += 1
            x = conv(a)
            D = m.AND(acc, m.NOT(x.ult(BV.const(m, 64, 0x8000))))
            if D != 0:
                outside = 'can_dynarec accepts address %#x, which is not in ROM' % m.witness(D).get('addr', 0)
    except Unsupported as e:
        chk.error('C03.3: can_dynarec is outside the bit-vector fragment: %s' % e.why)
    if outside is None and accepted:
        chk.ok('C03.3', 'can_dynarec', sample={'can_dynarec': [fmt(r.ret) for r in rr], 'accepted set': 'subset of 0..0x7fff'})
    else:
        chk.fail('C03.3', 'can_dynarec', '%s (predicate: %s)' % (outside or 'can_dynarec accepts nothing',
                                                                  [fmt(r.ret) for r in rr]), 'src/mem.rs', None)
    callers_t = sorted(set(c[0] for c in prog.callers(TCB)))
    # blocks enter the cache through CacheRegion::insert, reached only from translate_code_block (directly or through a
    # private helper of it such as insert_code_block)
    callers_i = sorted(set(c[0] for c in prog.callers('cache::blocks::CacheRegion::insert')))
    guard_ok = bool(callers_t) and set(callers_t) <= families(prog, [RCB]) and bool(callers_i) and \
        set(callers_i) <= families(prog, [TCB])
    if guard_ok:
        # the call to translate_code_block is control dependent on can_dynarec(ip)
        ipg = absint.Interp(facts, opaque=[TCB, 'cache::CodeCache::call', 'cache::CodeCache::get_address_for_ip', HI_(),
                                           'mem::MemoryAreas::run_clock_cycles', 'interpreter::run_code_block'],
                            trust_asserts=('overflow',))
        st = ipg.new_state()
        core = ipg.arg_object(st, 'core')
        for r in ipg.run(RCB, [core], st):
            t = [e for e in r.state.events if e[0] == 'call' and e[1] == TCB]
            if t and r.state.env.av(IPREG).hi > 0x7fff:
                guard_ok = False
    if guard_ok:
        chk.ok('C03.3', 'guard', sample={'translate_code_block callers': callers_t, 'insert_code_block callers': callers_i})
    else:
        chk.fail('C03.3', 'guard', 'blocks can be translated/inserted outside the can_dynarec guard (callers %s / %s)'
                 % (callers_t, callers_i), 'src/emulator.rs', None)
    # ---- rule 6: the only way into translated code is this step's lookup (under the current tag) or this step's translation
    chk.rule('C03.6', 'D', 'entry provenance: the host address handed to CodeCache::call is, on every path of run_code_block, '
             'the result of the get_address_for_ip lookup or of the translate_code_block call made in the same step - no '
             'remembered address (a "last block" shortcut, a second cache in front of the tagged one) reaches it', floor=1)
    GAI = 'cache::CodeCache::get_address_for_ip'
    CALL = 'cache::CodeCache::call'
    ipe = absint.Interp(facts, opaque=[TCB, CALL, GAI, HI_(), 'mem::MemoryAreas::run_clock_cycles', 'interpreter::run_code_block'],
                        trust_asserts=('overflow',))
    st = ipe.new_state()
    core = ipe.arg_object(st, 'core')
    nent = 0
    bad6 = None
    for r in ipe.run(RCB, [core], st):
        evs = r.state.events
        for i_, e in enumerate(evs):
            if e[0] != 'call' or e[1] != CALL:
                continue
            nent += 1
            addr = e[2][1] if len(e[2]) > 1 else None
            srcs = [x[3] for x in evs[:i_] if x[0] == 'call' and x[1] in (TCB, GAI) and x[3] is not None]
            names = [x[2] for x in srcs if x[0] == 's']
            ss = syms_of(addr) if addr is not None and addr[0] in ('s', 'o') else set()
            if not ss or not all(any(y[2] == n_ or y[2].startswith(n_ + '#') or y[2].startswith(n_ + '.') for n_ in names)
                                 for y in ss):
                bad6 = bad6 or ('translated code is entered at %s, which is not the result of this step\'s cache lookup or '
                                'translation (%s)' % (fmt(addr)[:80] if addr is not None else None, names))
    if bad6 or not nent:
        chk.fail('C03.6', 'entry', bad6 or 'no path of run_code_block enters translated code (anchor lost)', 'src/emulator.rs', None)
    else:
        chk.ok('C03.6', 'entry', sample={'entries': nent, 'address': 'get_address_for_ip(ip) payload or translate_code_block(..)'})
    # ---- rule 4
    ipk = absint.Interp(facts, models={BGET: ev_model('btree_get'), BINS: ev_model('btree_insert')})
    keys = {}
    for fn, ev in (('cache::blocks::CacheRegion::get', 'btree_get'), ('cache::blocks::CacheRegion::insert', 'btree_insert')):
        st = ipk.new_state()
        me = ipk.arg_object(st, 'region')
        args = [me, S(16, 'address')] + ([S(0, 'block')] if 'insert' in fn else [])
        for r in ipk.run(fn, args, st):
            for e in r.state.events:
                if e[0] == 'effect' and e[1] == ev:
                    keys[fn] = e[6][1] if ev == 'btree_get' else e[3][1]
    want = O(32, 'or', O(32, 'shl', O(32, 'zext', S(16, 'region.current_bank', ('field', 'cache::blocks::CacheRegion',
                                                                                    'current_bank', 'u16'))), C(32, 16)),
             O(32, 'zext', S(16, 'address')))
    for fn in ('cache::blocks::CacheRegion::get', 'cache::blocks::CacheRegion::insert'):
        k = keys.get(fn)
        key = fn.split('::')[-1]
        if k is not None and k == want:
            chk.ok('C03.4', key, sample={'function': fn, 'key': fmt(k)})
        elif k is not None and injective_key(k):
            chk.ok('C03.4', key, sample={'function': fn, 'key': fmt(k)})
        else:
            chk.fail('C03.4', key, '%s builds key %s: not the injective (bank << 16) | address' % (fn, fmt(k) if k else None),
                     file, None)
    if keys.get('cache::blocks::CacheRegion::get') != keys.get('cache::blocks::CacheRegion::insert'):
        chk.fail('C03.4', 'same', 'lookup and insert build different keys', file, None)
    # ---- rule 5: block extent
    block_extent(ctx, chk, facts, prog)
    chk.assumptions += ['BTreeMap::get/insert are keyed by the u32 passed to them (std contract)',
                        'RAM regions are never translated (rule 3), so write invalidation is not needed']
    return chk.finish('Def-use analysis of the cache key through Core::run_code_block -> CodeCache::get_address_for_ip -> '
                      'CacheRegion::get and translate_code_block -> insert_code_block -> CacheRegion::insert (closures and '
                      'Option combinators followed) for every PC in the switchable ROM window: which symbols the bank '
                      'component of the key depends on.', exhaustive=True)


def tag_store_before(evs):
    return any(e[0] == 'store' and e[2] and e[2][-1][1] == 'current_bank' for e in evs)


def HI_():
    return CORE + 'handle_interrupt'


def ev_model(kind):
    def f(ipx, st, fr, t, args, site, dest_ty):
        ret = T.UNIT if dest_ty == '()' else st.fresh(0, kind)
        st.events.append(('effect', kind, t['resolved'], tuple(args), ret, site, absint.snapshot_args(ipx, st, args)))
        yield (ret, st, 'ok', None)
    return f


def injective_key(k):
    """the key is an injective function of its (bank, address) inputs: two-copy comparison over canonical bit vectors -
    key(b, a) == key(b', a')  implies  (b, a) == (b', a')"""
    from ..bdd import BDD, BV, TermBV, Unsupported
    from ..bvproof import subst
    syms = sorted(set(syms_of(k)), key=lambda t: t[2])
    if not syms or len(syms) > 4:
        return False
    try:
        m = BDD()
        conv = TermBV(m)
        ren = {t: S(t[1], t[2] + "'", t[3]) for t in syms}
        k1 = conv(k)
        k2 = conv(subst(k, ren))
        same_key = m.NOT(k1.diff(k2))
        same_in = 1
        for t in syms:
            same_in = m.AND(same_in, m.NOT(conv(t).diff(conv(ren[t]))))
        return m.AND(same_key, m.NOT(same_in)) == 0
    except Unsupported:
        return False


def block_extent(ctx, chk, facts, prog):
    """the translation loop must stop when the next instruction starts in a different cache region than the block"""
    ip = absint.Interp(facts, opaque=['decoder::decode', 'emitter::x86_64::Emitter::encode_op', SEG,
                                      'emitter::x86_64::Emitter::encode_epilogue', ICB, 'decoder::ops::Op::is_block_end',
                                      'cache::linux::ExecutableMemory::make_writable',
                                      'cache::linux::ExecutableMemory::make_executable',
                                      'cache::linux::ExecutableMemory::get_memory_area_mut'],
                       loop_mode='havoc', trust_asserts=('overflow', 'bounds', 'slice_index'))
    st = ip.new_state()
    cache = ip.arg_object(st, 'cache')
    ipv = S(64, 'ip')
    st.env.assume(ipv, AV(64, 0, 0x3fff))
    rs = ip.run(TCB, [cache, S(0, 'code'), ipv, S(0, 'mem')], st)
    worst = None
    n = 0
    for r in rs:
        for e in r.state.events:
            if e[0] == 'call' and e[1] == SEG:
                n += 1
                idx = e[2][1]
                av = r.state.env.av(idx)
                if idx != ipv and av.hi > 0x3fff:
                    worst = (idx, av)
    if not n:
        chk.error('translate_code_block does not call get_executable_memory_segment (anchor lost)')
        return
    if worst:
        chk.fail('C03.5', 'extent:rom_low', 'a block that starts in 0x0000-0x3fff keeps translating at index %s (up to %#x): '
                 'instructions from the switchable bank become part of a block filed under the fixed bank'
                 % (fmt(worst[0])[:60], min(worst[1].hi, 0xffffffff)), 'src/cache/mod.rs', prog.fns[TCB]['line'])
    else:
        chk.ok('C03.5', 'extent:rom_low')


def tag_injective(ctx, chk, facts, file):
    """Core::run_code_block with MemoryAreas::get_rom_bank kept symbolic (B = the bank mapped now): the value stored as
    the cache region's bank tag is t(B).  Two-copy comparison over canonical bit vectors: t(B1) == t(B2) => B1 == B2
    for every bank number an image can have (0..511)."""
    from ..bdd import BDD, BV, TermBV, Unsupported
    from ..bvproof import subst
    GRB = 'mem::MemoryAreas::get_rom_bank'
    heavy = ['cache::CodeCache::call', HI_(), 'mem::MemoryAreas::run_clock_cycles', 'interpreter::run_code_block',
             'cache::CodeCache::translate_code_block', 'cache::CodeCache::get_address_for_ip', GRB]
    ip = absint.Interp(facts, opaque=[h for h in heavy if h in facts['functions']], trust_asserts=('overflow', 'bounds', 'slice_index'),
                       loop_mode='havoc')
    st = ip.new_state()
    core = ip.arg_object(st, 'core')
    st.env.assume(IPREG, AV(32, 0x4000, 0x7fff))
    found = 0
    bad = None
    for r in ip.run(RCB, [core], st):
        if r.status not in ('ok', 'loopback'):
            continue
        banks = [e[3] for e in r.state.events if e[0] == 'call' and e[1] == GRB]
        for e in r.state.events:
            if e[0] == 'store' and e[2] and e[2][-1][1] == 'current_bank' and T.is_int(e[3]):
                deps = [b for b in banks if b in syms_of(e[3])]
                if not deps:
                    continue            # liveness is the first half of the rule
                B = deps[-1]
                found += 1
                try:
                    m = BDD()
                    conv = TermBV(m)
                    B2 = S(B[1], B[2] + "'", B[3])
                    t1, t2 = conv(e[3]), conv(subst(e[3], {B: B2}))
                    b1, b2 = conv(B), conv(B2)
                    lim = BV.const(m, len(b1), 512)
                    dom = m.AND(b1.ult(lim), b2.ult(lim))
                    clash = m.AND(dom, m.AND(m.NOT(t1.diff(t2)), b1.diff(b2)))
                    if clash != 0:
                        w = m.witness(clash)
                        bad = ('banks %d and %d are given the same cache tag (%s): a block translated while one of them was '
                               'mapped is executed when the other one is' % (w.get(B[2], 0), w.get(B2[2], 0), fmt(e[3])[:80]))
                except Unsupported as ex:
                    chk.error('C03.1 tag injectivity: outside the bit-vector fragment: %s' % ex.why)
                    return
    if bad:
        chk.fail('C03.1', 'tag:injective', bad, 'src/cache/mod.rs', None)
    elif not found:
        chk.fail('C03.1', 'tag:injective', 'no store of the cache bank tag derived from the bank mapped now was found in '
                 'Core::run_code_block', file, None)
    else:
        chk.ok('C03.1', 'tag:injective', sample={'tag stores examined': found, 'domain': 'bank numbers 0..511'})
