"""Shared constants for rule modules (resolved def-paths of anchors)."""
CORE = 'emulator::Core::'
STEP_ROOTS = [CORE + 'update', CORE + 'run_code_block', CORE + 'run_interp', CORE + 'run_frame']
BUS = ['mem::memory_read_byte', 'mem::memory_write_byte', 'mem::memory_read_word', 'mem::memory_write_word']
SET_CONTROL = 'devices::serial::SerialComms::set_control'
SET_DATA = 'devices::serial::SerialComms::set_data'
IO_SET = 'devices::io::IO::set_byte'
IO_GET = 'devices::io::IO::get_byte'

STDOUT_SINK_PREFIXES = (
    'std::io::_print', 'std::io::stdout', 'std::io::Stdout', '<std::io::Stdout', '<std::io::StdoutLock',
    'std::io::stdio::_print', 'std::io::stdio::stdout', 'std::io::stdio::print_to',
    'libc::write', 'libc::printf', 'libc::puts', 'libc::putchar', 'libc::dprintf', 'libc::fwrite',
    'std::os::fd::FromRawFd::from_raw_fd', '<std::fs::File as std::os::fd::FromRawFd>::from_raw_fd',
)


def is_stdout_sink(name):
    return any(name.startswith(p) for p in STDOUT_SINK_PREFIXES)


def need(chk, prog, names):
    """fail closed when an anchor function is missing"""
    ok = True
    for n in names:
        if n not in prog.fns:
            chk.error('anchor function %s not found in the crate' % n)
            ok = False
    return ok


def loc(prog, fname, line=None):
    f = prog.fns.get(fname)
    if not f:
        return (None, None)
    return (f['file'], line if line is not None else f['line'])
