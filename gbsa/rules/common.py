"""Shared constants for rule modules (resolved def-paths of anchors)."""
CORE = 'emulator::Core::'
STEP_ROOTS = [CORE + 'update', CORE + 'run_code_block', CORE + 'run_interp', CORE + 'run_frame']
# the public step functions (update dispatches to one of the other two, which tests also call directly)
STEP3 = [CORE + 'update', CORE + 'run_code_block', CORE + 'run_interp']
BUS = ['mem::memory_read_byte', 'mem::memory_write_byte', 'mem::memory_read_word', 'mem::memory_write_word']
SET_CONTROL = 'devices::serial::SerialComms::set_control'
SET_DATA = 'devices::serial::SerialComms::set_data'
IO_SET = 'devices::io::IO::set_byte'
IO_GET = 'devices::io::IO::get_byte'

STDOUT_SINK_PREFIXES = (
    'std::io::_print', 'std::io::stdout', 'std::io::Stdout', '<std::io::Stdout', '<std::io::StdoutLock',
    'std::io::stdio::_print', 'std::io::stdio::stdout', 'std::io::stdio::print_to',
    'libc::write', 'libc::printf', 'libc::puts', 'libc::putchar', 'libc::dprintf', 'libc::fwrite',
    'std::os::fd::FromRawFd::from_raw_fd', '<std::fs::File as std::os::fd::FromRawFd>::from_raw_fd',
)


def is_stdout_sink(name):
    return any(name.startswith(p) for p in STDOUT_SINK_PREFIXES)


def need(chk, prog, names):
    """fail closed when an anchor function is missing"""
    ok = True
    for n in names:
        if n not in prog.fns:
            chk.error('anchor function %s not found in the crate' % n)
            ok = False
    return ok


def loc(prog, fname, line=None):
    f = prog.fns.get(fname)
    if not f:
        return (None, None)
    return (f['file'], line if line is not None else f['line'])


def private_family(prog, root, prefix=None):
    """`root` plus the helpers it is split into: functions of the same impl (name prefix) that are reachable from the
    family and are called from nowhere outside it.  Extracting part of a function into a private helper keeps the
    helper inside the family; a call from anywhere else removes it."""
    roots = [root] if isinstance(root, str) else list(root)
    prefix = prefix if prefix is not None else roots[0].rsplit('::', 1)[0] + '::'
    fam = set(r for r in roots if r in prog.fns)
    # closures are functions of their own in MIR; they may be handed to std combinators (unwrap_or_else, map) and have
    # no call site in the crate
    for n in prog.fns:
        if '::{closure#' in n and n.split('::{closure#')[0] in fam:
            fam.add(n)
    changed = True
    while changed:
        changed = False
        for f in sorted(fam):
            if f not in prog.fns:
                continue
            for bb, t, names in prog.call_sites(f):
                for n in names:
                    # methods of the impl, and trait methods implemented for the same type (a derived Default::default
                    # that `new` delegates to)
                    if n in fam or n not in prog.fns:
                        continue
                    if '::{closure#' in n and n.split('::{closure#')[0] in fam:
                        fam.add(n)          # a closure written inside a member is part of that member
                        changed = True
                        continue
                    if not (n.startswith(prefix) or n.startswith('<' + prefix[:-2] + ' as ')):
                        continue
                    cs = set(c[0] for c in prog.callers(n))
                    if cs and cs <= fam:
                        fam.add(n)
                        changed = True
    return fam


def always_calls(prog, fam, target):
    """members f of `fam` such that every entry-to-return path of f passes through a call of `target` (directly or
    through another member with the same property): least fixpoint"""
    good = set()
    changed = True
    while changed:
        changed = False
        for f in sorted(fam):
            if f in good or f not in prog.fns:
                continue
            fn = prog.fns[f]
            cut = [bb for bb, t, names in prog.call_sites(f) if target in names or any(n in good for n in names)]
            if not cut:
                continue
            reach = prog.reachable_blocks(f, 0, avoid=set(cut))
            rets = [i for i, b in enumerate(fn['blocks']) if b['term']['k'] == 'return']
            if not any(r_ in reach for r_ in rets):
                good.add(f)
                changed = True
    return good


def families(prog, names):
    """union of the private families (function + helpers it is split into) of the named functions"""
    out = set()
    for n in names:
        if n in prog.fns:
            out |= private_family(prog, n)
    return out


def _collect_syms(t, out):
    stack = [t]
    while stack:
        x = stack.pop()
        if not isinstance(x, tuple) or not x:
            continue
        if x[0] == 's':
            out.add(x)
        elif x[0] == 'o':
            stack.extend(x[3:])
        elif x[0] == 'agg':
            stack.extend(x[2])
        elif x[0] == 'snap':
            stack.extend(v for _, v in x[2])
            if x[1]:
                stack.append(x[1])


def register_write_requests_reach_if(facts, prog, callees):
    """IO::set_byte: on every path that calls one of `callees` (device functions that return the interrupt requests a
    register write produces), the returned value is merged into the IF store.  -> {callee: None | 'what is wrong'}"""
    from .. import absint
    from ..terms import S
    # helpers of IO shared by its entry points (a `request_interrupts(flags)` used by the write and the clock path) are
    # followed like helpers private to set_byte
    iofam = private_family(prog, [IO_SET, IO_GET, 'devices::io::IO::run_clock_cycles'])
    opaque = [n for n in prog.fns if n.startswith('devices::') and n not in iofam and
              not n.startswith('devices::interrupts::')]
    ip = absint.Interp(facts, opaque=opaque)
    st = ip.new_state()
    io = ip.arg_object(st, 'io')
    rs = ip.run(IO_SET, [io, S(16, 'addr'), S(8, 'value')], st)
    out = {c: 'IO::set_byte never calls it' for c in callees}
    for r in rs:
        calls = [e for e in r.state.events if e[0] == 'call' and e[1] in callees]
        if not calls:
            continue
        for c in calls:
            if r.status != 'ok':
                out[c[1]] = 'the path through it does not complete (%s)' % r.status
                continue
            ret = c[3]
            stores = [e for e in r.state.events if e[0] == 'store' and 'interrupt_flag' in str(e[2])]
            have = set()
            for e in stores:
                _collect_syms(e[3], have)
            hit = any(y == ret or (y[0] == 's' and ret[0] == 's' and y[2].startswith(ret[2])) for y in have)
            if hit:
                if out[c[1]] == 'IO::set_byte never calls it':
                    out[c[1]] = None
            else:
                out[c[1]] = 'the requests it returns are dropped: they are not merged into IF (interrupt_flag)'
    return out


def effective_stores(events):
    """store events of a path without the no-ops: a store that writes back the value the place had on entry (for example
    `flags |= empty()` on a path that raises nothing) and that is the first store to that place on the path"""
    out = []
    seen = set()
    for e in events:
        if e[0] != 'store':
            continue
        path = tuple(p[1] for p in e[2] if isinstance(p, tuple) and p and p[0] == 'f')
        key = (e[1], path)
        v = e[3]
        while v is not None and v[0] == 'agg' and len(v[2]) == 1:
            v = v[2][0]
        name = '.'.join([str(e[1])] + [str(x) for x in path])
        # aggregates of one field are stored through the wrapper: the entry symbol carries the inner field's name
        noop = (v is not None and v[0] == 's' and key not in seen and
                (v[2] == name or v[2].startswith(name + '.')) and v[2].count('.') <= name.count('.') + 1)
        seen.add(key)
        if not noop:
            out.append(e)
    return out
