"""C17 - P1 reflects the button matrix; the joypad interrupt fires on falling lines."""
from .. import absint, terms as T
from ..terms import C, S, O, AV, fmt, bit_provenance
from ..invariants import FieldInvariants
from .common import *
from .c03 import syms_of

J = 'devices::joypad::Joypad::'
OW = 'devices::joypad::Joypad'
# hardware matrix: button -> (group field, line bit)
MATRIX = {'A': ('action_state', 0), 'B': ('action_state', 1), 'Select': ('action_state', 2), 'Start': ('action_state', 3),
          'Right': ('direction_state', 0), 'Left': ('direction_state', 1), 'Up': ('direction_state', 2),
          'Down': ('direction_state', 3)}


def fld(name, bits=8):
    ty = 'u8' if bits == 8 else 'bool'
    return S(bits, 'joy.' + name, ('field', OW, name, ty))


def _holds17(m, f, w):
    """value of BDD node f under the (partial, zero-extended) assignment w of a witness"""
    from .. import valsem
    return valsem.eval_bv(m, _BVone(m, f), w) & 1


class _BVone:
    def __init__(self, m, f):
        self.m, self.b = m, [f]

    def __len__(self):
        return 1


def run(ctx, chk):
    chk.rule('C17.1', 'D', 'press and release map each button to the same group and line bit as the hardware matrix '
             '(press ORs the bit in, release clears exactly that bit)', floor=16)
    chk.rule('C17.2', 'D', 'selection polarity and echo: bit 4 = 0 selects directions, bit 5 = 0 selects actions; P1 reads 0 on '
             'a line exactly when a selected group has that button pressed, and echoes the select bits', floor=6)
    chk.rule('C17.3', 'D', 'the interrupt latch is set by a per-line falling-edge test: it fires whenever some line goes 1 -> 0 '
             'whatever the other lines do, and not when no line can have fallen', floor=2)
    chk.rule('C17.4', 'D', 'reported once: get_interrupt reads and clears the latch, is called once per device tick; release never '
             'sets the latch', floor=4)
    chk.rule('C17.5', 'D', 'I/O offset 0, and only it, routes to set_value / get_value: every write path hands the byte written to '
             'set_value, every read path returns what get_value returned', floor=2)
    facts = ctx.facts('default')
    prog = ctx.program('default')
    file = 'src/devices/joypad.rs'
    if not need(chk, prog, [J + n for n in ('press_button', 'release_button', 'set_value', 'get_value', 'get_interrupt')]):
        return chk.finish('anchors missing')
    inv = FieldInvariants(facts)
    inv.track(OW, 'action_state')
    inv.track(OW, 'direction_state')
    badt = facts['adts'].get('devices::joypad::Button')
    if not badt:
        chk.error('enum devices::joypad::Button not found')
        return chk.finish('anchors missing')
    ip = absint.Interp(facts, sym_facts=inv.sym_facts, opaque=[J + 'get_value'])
    # ---- rule 1
    for vi, v in enumerate(badt['variants']):
        name = v['name']
        if name not in MATRIX:
            chk.fail('C17.1', 'button:' + name, 'button %s has no place in the hardware matrix' % name, file, None)
            continue
        field, bit = MATRIX[name]
        for fn, kind in ((J + 'press_button', 'press'), (J + 'release_button', 'release')):
            st = ip.new_state()
            me = ip.arg_object(st, 'joy')
            btn = ('agg', ('adt', 'devices::joypad::Button', vi, name), ())
            rs = ip.run(fn, [me, btn], st)
            stores = set()
            for r in rs:
                for e in r.state.events:
                    if e[0] == 'store' and e[2][-1][1] in ('action_state', 'direction_state'):
                        stores.add((e[2][-1][1], e[3]))
            entry = fld(field)
            want = O(8, 'or', entry, C(8, 1 << bit)) if kind == 'press' else O(8, 'and', entry, C(8, 0xff & ~(1 << bit)))
            key = '%s:%s' % (kind, name)
            if stores == {(field, want)}:
                chk.ok('C17.1', key, sample={'button': name, 'action': kind, 'field': field, 'bit': bit} if name in ('A', 'Down') else None)
            else:
                chk.fail('C17.1', key, '%s %s stores %s, hardware matrix: %s bit %d' % (
                    kind, name, sorted((f, fmt(v_)) for f, v_ in stores), field, bit), file, None)
    # ---- rule 2: set_value polarity
    ipf = absint.Interp(facts, sym_facts=inv.sym_facts)
    st = ipf.new_state()
    me = ipf.arg_object(st, 'joy')
    val = S(8, 'value')
    ipo = absint.Interp(facts, sym_facts=inv.sym_facts, opaque=[J + 'get_value'])
    from .. import bvproof as _bp
    sel = {}
    for r in ipo.run(J + 'set_value', [me, val], st):
        for e in r.state.events:
            if e[0] == 'store' and e[2][-1][1] in ('select_direction', 'select_action'):
                sel.setdefault(e[2][-1][1], []).append((e[3], r.state.env))
    for field, bit in (('select_direction', 0x10), ('select_action', 0x20)):
        want = O(1, 'eq', O(8, 'and', val, C(8, bit)), C(8, 0))
        # on every path the stored flag equals (value & bit) == 0 under that path's condition (however it is decoded)
        got = sel.get(field, [])
        wrong = [v for v, env in got if not (v == want or (T.is_int(v) and (
            env.const_of(O(1, 'eq', v, want)) == 1 or _bp.equal_under(v, want, env, 1) is True)))]
        if got and not wrong:
            chk.ok('C17.2', 'polarity:' + field, sample={field: '(value & %#x) == 0' % bit, 'stores': len(got)})
        else:
            chk.fail('C17.2', 'polarity:' + field, '%s := %s, expected (value & %#x) == 0' % (
                field, sorted(set(fmt(x) for x in (wrong or [])))[:4], bit), file, None)
    # get_value composition per selection
    st = ipf.new_state()
    me = ipf.arg_object(st, 'joy')
    rs = ipf.run(J + 'get_value', [me], st)
    sd, sa = fld('select_direction', 1), fld('select_action', 1)
    dirs, acts = fld('direction_state'), fld('action_state')
    # the register value as one function of the four fields (the paths of get_value merged), compared bit by bit with the
    # reference for each of the four selections - branches, masks or tables all give the same function
    from .. import bvproof as _bv
    from ..bdd import BDD as _BDD, BV as _BV, TermBV as _TermBV, Unsupported as _Uns
    lib_ = sorted(set(e_[1].split('::')[-1] for r in rs for e_ in r.state.events if e_[0] == 'extcall' and
                      any(k_ in e_[1] for k_ in ('iter', 'Iterator', 'fold', 'IntoIter'))))
    if lib_:
        chk.error('C17.2: get_value computes the register through %s, which this check does not model (no verdict on the '
                  'clauses that evaluate the P1 read)' % lib_)
        return chk.finish('get_value not evaluable')
    okp = [r for r in rs if r.status == 'ok' and r.ret is not None and T.is_int(r.ret)]
    if len(okp) != len(rs) or not okp:
        chk.fail('C17.2', 'get_value:diverge', 'get_value can diverge', file, None)
    else:
        try:
            m = _BDD()
            st0 = ipf.new_state()
            ipf.arg_object(st0, 'joy')
            conv = _TermBV(m, _bv._known(st0.env))      # field invariants only (button states stay within 4 bits)
            G = _BV.const(m, 8, 0)
            cover = 0
            for r in okp:
                _, _, Kg = _bv.setup(r.state.env, m, conv)
                G = _BV.mux(m, Kg, conv(r.ret), G)
                cover = m.OR(cover, Kg)
            vsd, vsa, vd, va = conv(sd), conv(sa), conv(dirs), conv(acts)
            for d_ in (0, 1):
                for a_ in (0, 1):
                    key = 'read:dir=%d,act=%d' % (d_, a_)
                    Kc = m.AND(vsd.b[0] if d_ else m.NOT(vsd.b[0]), vsa.b[0] if a_ else m.NOT(vsa.b[0]))
                    problems = []
                    if m.AND(Kc, m.NOT(cover)) != 0:
                        problems.append('no path of get_value covers this selection')
                    for bit, s_ in ((4, d_), (5, a_)):
                        want = 0 if s_ else 1
                        if m.AND(Kc, G.b[bit] if want == 0 else m.NOT(G.b[bit])) != 0:
                            problems.append('bit %d does not read %d with the group %sselected' % (bit, want, '' if s_ else 'de'))
                    for line in range(4):
                        low = m.OR(vd.b[line] if d_ else 0, va.b[line] if a_ else 0)      # pressed in a selected group
                        diff = m.AND(Kc, m.XOR(G.b[line], m.NOT(low)))
                        if diff != 0:
                            w = m.witness(diff)
                            problems.append('line %d reads %d with direction_state=%#x action_state=%#x' % (
                                line, 1 if _holds17(m, G.b[line], w) else 0, w.get(dirs[2], 0), w.get(acts[2], 0)))
                    if problems:
                        chk.fail('C17.2', key, 'P1 read with directions %sselected, actions %sselected: %s'
                                 % ('' if d_ else 'not ', '' if a_ else 'not ', '; '.join(problems[:3])), file, None)
                    else:
                        chk.ok('C17.2', key, sample={'select_direction': d_, 'select_action': a_,
                                                     'lines': 'bit n = !(pressed n in a selected group), bits 4/5 echo the selection'})
        except _Uns as e:
            chk.error('C17.2 get_value: outside the bit-vector fragment: %s' % e.why)
    # ---- rule 3: edge detector
    # get_value as a function of the four fields (its own paths, merged), so that "the lines before / after" are what
    # the register really reads in the state before / after the operation - not two unrelated samples
    adt_j = facts['adts'][OW]
    elems = {f_['name']: ('f', i, f_['name'], f_['ty'], OW) for i, f_ in enumerate(adt_j['fields'])}
    st = ipf.new_state()
    me = ipf.arg_object(st, 'joy')
    gv_paths = [(r.state.env, r.ret) for r in ipf.run(J + 'get_value', [me], st) if r.status == 'ok' and r.ret is not None]
    FIELDS = (('direction_state', 8), ('action_state', 8), ('select_direction', 1), ('select_action', 1))
    for fn, args in ((J + 'press_button', lambda st_: [ipo.arg_object(st_, 'joy'), S(0, 'button')]),
                     (J + 'set_value', lambda st_: [ipo.arg_object(st_, 'joy'), S(8, 'value')])):
        st = ipo.new_state()
        rs = ipo.run(fn, args(st), st)
        from .. import bvproof
        from ..bdd import BDD, BV, TermBV, Unsupported
        key = 'edge:' + fn.split('::')[-1]
        latch_paths = 0
        flag_bad = None
        shape_bad = None
        verdict = None
        npaths = 0
        try:
            for r in rs:
                if r.status == 'unreachable':
                    continue            # the impossible arm of an exhaustive match
                if r.status != 'ok':
                    shape_bad = shape_bad or '%s can diverge (%s %s)' % (fn, r.status, r.detail)
                    continue
                npaths += 1
                evs = r.state.events
                latch = [e for e in evs if e[0] == 'store' and e[2][-1][1] == 'next_interrupt']
                calls = [e for e in evs if e[0] == 'call' and e[1] == J + 'get_value']
                m = BDD()
                conv = TermBV(m, bvproof._known(r.state.env))

                def gv_at(state):
                    ren = {fld(nm, bits): state[nm] for nm, bits in FIELDS}
                    acc = BV.const(m, 8, 0)
                    for env_g, ret_g in gv_paths:
                        _, _, Kg = bvproof.setup(env_g, m, conv, ren)
                        acc = BV.mux(m, Kg, conv(bvproof.subst(ret_g, ren)), acc)
                    return acc
                init = {nm: fld(nm, bits) for nm, bits in FIELDS}
                fin = {}
                for nm, bits in FIELDS:
                    v = ipo.read(r.state, ('O', 'joy'), (elems[nm],))
                    fin[nm] = v if (v is not None and T.is_int(v)) else None
                if any(v is None for v in fin.values()):
                    shape_bad = shape_bad or 'the state after the operation is not readable'
                    continue
                g0, g1 = gv_at(init), gv_at(fin)
                # samples taken by the function itself: the first before any state change, the last after all of them
                stores_i = [i for i, e in enumerate(evs) if e[0] == 'store' and e[2][-1][1] in dict(FIELDS)]
                calls_i = [i for i, e in enumerate(evs) if e[0] == 'call' and e[1] == J + 'get_value']
                for ci in calls_i:
                    before = not stores_i or ci < stores_i[0]
                    after = not stores_i or ci > stores_i[-1]
                    if before:
                        conv.memo[evs[ci][3]] = g0
                    elif after:
                        conv.memo[evs[ci][3]] = g1
                    else:
                        shape_bad = shape_bad or 'the lines are sampled between two state changes'
                _, _, K = bvproof.setup(r.state.env, m, conv)
                fell = ((g0 & ~g1) & 0x0f).nonzero()
                if latch:
                    latch_paths += 1
                    v = latch[-1][3]
                    if not (v[0] == 'agg' and v[2][0] == C(8, 16)):
                        flag_bad = 'latch is set to %s, expected the joypad request (0x10)' % fmt(v)
                    bad = m.AND(K, m.NOT(fell))
                    what = 'no line falls but the interrupt latch is set'
                else:
                    bad = m.AND(K, fell)
                    what = 'a line falls but the interrupt latch is not set'
                if bad != 0 and verdict is None:
                    w = m.witness(bad)
                    from .. import valsem
                    verdict = '%s: input lines %#x -> %#x (%s): %s' % (
                        fn.split('::')[-1], valsem.eval_bv(m, g0, w) & 0xf, valsem.eval_bv(m, g1, w) & 0xf,
                        ', '.join('%s=%#x' % (k_.split('.')[-1], v_) for k_, v_ in sorted(w.items())
                                  if isinstance(k_, str) and (k_.startswith('joy.') or k_ == 'value')), what)
        except Unsupported as e:
            chk.error('C17.3 %s: outside the bit-vector fragment: %s' % (key, e.why))
            continue
        if flag_bad:
            chk.fail('C17.3', fn.split('::')[-1] + ':flag', flag_bad, file, None)
        if shape_bad or not latch_paths:
            chk.fail('C17.3', key, '%s: %s' % (fn, shape_bad or 'the interrupt latch is never set'), file, None)
            continue
        if verdict:
            chk.fail('C17.3', key, verdict, file, None)
        else:
            chk.ok('C17.3', key, sample={'function': fn, 'latch set iff': '(P1 before & !P1 after & 0x0f) != 0, P1 = get_value '
                                         'of the state before / after', 'paths': npaths})
    # ---- rule 4
    st = ipf.new_state()
    me = ipf.arg_object(st, 'joy')
    rs = ipf.run(J + 'get_interrupt', [me], st)
    okk = len(rs) == 1 and rs[0].status == 'ok'
    if okk:
        r = rs[0]
        stores = [e for e in r.state.events if e[0] == 'store' and e[2][-1][1] == 'next_interrupt']
        okk = len(stores) == 1 and stores[0][3][0] == 'agg' and stores[0][3][2][0] == C(8, 0) and \
            r.ret is not None and 'next_interrupt' in fmt(r.ret)
    if okk:
        chk.ok('C17.4', 'read-and-clear')
    else:
        chk.fail('C17.4', 'read-and-clear', 'get_interrupt is not read-and-clear of the latch', file, None)
    cs = [c for c in prog.callers(J + 'get_interrupt')]
    if len(cs) == 1 and cs[0][0] in families(prog, ['devices::io::IO::run_clock_cycles']):
        chk.ok('C17.4', 'once-per-tick', sample={'callers': [c[0] for c in cs]})
    else:
        chk.fail('C17.4', 'once-per-tick', 'get_interrupt call sites: %s' % [(c[0], c[2]) for c in cs], file, None)
    # ... and on every way through the device tick: a return in front of the call (a "nothing fired" shortcut taken when
    # the timer and the LCD raised nothing) leaves the latched request out of IF until some other device fires
    RCC_ = 'devices::io::IO::run_clock_cycles'
    famt = families(prog, [RCC_])
    from .common import always_calls as _always
    if RCC_ in _always(prog, famt, J + 'get_interrupt'):
        chk.ok('C17.4', 'every-tick', sample={'function': RCC_, 'rule': 'every entry-to-return path calls Joypad::get_interrupt'})
    else:
        chk.fail('C17.4', 'every-tick', 'IO::run_clock_cycles can return without collecting the joypad request '
                 '(Joypad::get_interrupt is not on every path): a latched falling edge does not reach IF on that path',
                 'src/devices/io.rs', prog.fns[RCC_]['line'] if RCC_ in prog.fns else None)
    rel = prog.fns[J + 'release_button']
    lat = [w for w in prog.field_stores(OW, 'next_interrupt') if w[0] == J + 'release_button']
    if not lat:
        chk.ok('C17.4', 'release-silent')
    else:
        chk.fail('C17.4', 'release-silent', 'release_button stores the interrupt latch', file, lat[0][2])
    # ---- rule 5
    iof = families(prog, [IO_SET, IO_GET])
    devs = [n for n in prog.fns if n.startswith('devices::') and n not in iof]
    ipr = absint.Interp(facts, opaque=devs)
    for fn, target, extra in ((IO_SET, J + 'set_value', [S(8, 'v')]), (IO_GET, J + 'get_value', [])):
        st = ipr.new_state()
        io = ipr.arg_object(st, 'io')
        addr = S(16, 'addr')
        offs = set()
        unrouted = None
        for r in ipr.run(fn, [io, addr] + extra, st):
            lo_ = O(16, 'and', addr, C(16, 0xff))
            tcalls = [e for e in r.state.events if e[0] == 'call' and e[1] == target]
            if not tcalls and r.status == 'ok' and r.state.env.possible(lo_, 0) and r.state.env.const_of(lo_) in (0, None):
                from .. import bvproof as _bp3
                e0 = r.state.env.copy()
                if e0.assume_eq(lo_, 0) and absint.feasible(e0):
                    # an access to offset 0 that never reaches the joypad (a write skipped as "nothing changed", ...)
                    unrouted = 'a path for I/O offset 0 does not call %s' % target.split('::')[-1]
            if tcalls and extra and not any(x == extra[0] for x in tcalls[-1][2]):
                unrouted = unrouted or 'set_value is not given the byte written (%s)' % [fmt(x) for x in tcalls[-1][2] if T.is_int(x)]
            if tcalls and not extra and r.status == 'ok' and r.ret != tcalls[-1][3]:
                unrouted = unrouted or 'the byte read at offset 0 is %s, not what get_value returned' % fmt(r.ret)[:80]
            if tcalls:
                ov = r.state.env.const_of(lo_)
                if ov is None:
                    from .. import bvproof as _bp2
                    ov = _bp2.const_diff_under(lo_, C(16, 0), r.state.env, 16)
                offs.add(ov)
        key = 'route:' + target.split('::')[-1]
        if unrouted:
            chk.fail('C17.5', key, unrouted, 'src/devices/io.rs', None)
        elif offs == {0}:
            chk.ok('C17.5', key)
        else:
            chk.fail('C17.5', key, '%s is reached for I/O offsets %s, expected [0]' % (target, sorted(map(str, offs))),
                     'src/devices/io.rs', None)
    chk.assumptions += ['the full 256 x 4 x 20 transition relation is runtime data; rules 1, 2, 4, 5 are necessary conditions, '
                        'rule 3 decides the "simultaneous rise and fall" case the property names']
    return chk.finish('Per-button abstract interpretation of press/release, path enumeration of get_value over the two select '
                      'flags with known-bit evaluation per line, and evaluation of the latch guard under "line i falls, the '
                      'others arbitrary" with the before/after samples as independent symbols.', exhaustive=True)


def Env_for(ip):
    return ip.new_state().env
