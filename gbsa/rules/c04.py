"""C04 - enabling the recompiler does not change what a program computes (structural clauses only).

The whole-program statement is runtime behaviour and is not decided here; it is reduced to C01, C02, C03 plus the
clauses below, each a necessary condition: the two build configurations share the step tail, select the engine by
address only, and cut blocks at the same places."""
import re
import itertools
from .. import absint, terms as T
from ..terms import C, S, O, AV, fmt
from .common import *
from .c03 import syms_of

RCB = CORE + 'run_code_block'
UPD = CORE + 'update'
IRCB = 'interpreter::run_code_block'
RNO = 'interpreter::run_next_op'
TCB = 'cache::CodeCache::translate_code_block'
CALL = 'cache::CodeCache::call'


def tail_signature(facts, fn, engines):
    """status class -> ordered effects after the engine returned"""
    opaque = [e for e in engines if e in facts['functions']] + [CORE + 'handle_interrupt', 'mem::MemoryAreas::run_clock_cycles',
                                                                'cpu::Registers::get_consumed_cycles',
                                                                'cache::CodeCache::translate_code_block',
                                                                'cache::CodeCache::get_address_for_ip',
                                                                'cache::CodeCache::set_rom_bank', 'mem::MemoryAreas::get_rom_bank']
    ip = absint.Interp(facts, opaque=[o for o in opaque if o in facts['functions']], trust_asserts=('overflow',))
    st = ip.new_state()
    core = ip.arg_object(st, 'core')
    out = {}
    for r in ip.run(fn, [core], st):
        if r.status != 'ok':
            continue
        evs = r.state.events
        idx = [i for i, e in enumerate(evs) if e[0] == 'call' and e[1] in engines]
        if not idx:
            continue
        res = evs[idx[-1]][3]
        tail = []
        for e in evs[idx[-1] + 1:]:
            if e[0] == 'call':
                if e[1].startswith('cache::'):
                    continue        # cache bookkeeping exists in the jit build only and owns nothing but the cache (C03)
                tail.append('call ' + e[1].split('::')[-1])
            elif e[0] == 'store' and e[1] == 'core':
                tail.append('store %s := %s' % ('.'.join(str(x[1]) for x in e[2]), normalise(fmt(e[3]))))
        for v in range(8):
            if r.state.env.possible(res, v):
                out.setdefault(v, set()).add(tuple(tail))
    return out


def _fresh_core(ip):
    st = ip.new_state()
    ip.arg_object(st, 'core')
    return st


def normalise(s):
    import re
    return re.sub(r'#\d+', '#', s)


def run(ctx, chk):
    chk.rule('C04.1', 'N', 'shared tail: for every status code both configurations perform the same effects after the '
             'engine returns (status mapping, consume, deliver, handle_interrupt); update differs only in the step called',
             floor=7)
    chk.rule('C04.2', 'N', 'engine selection depends on the address only: translated code iff can_dynarec(PC), otherwise '
             'the same interpreter entry point as the non-jit build', floor=2)
    chk.rule('C04.3', 'N', 'block boundaries agree: both engines end a block on Op::is_block_end of the same decoder '
             'output, and their loop-exit conditions coincide on every (terminator, start region, next region) class',
             floor=8)
    fd = ctx.facts('default')
    fj = ctx.facts('jit')
    pd = ctx.program('default')
    pj = ctx.program('jit')
    file = 'src/emulator.rs'
    if not (need(chk, pd, [RCB, UPD, IRCB, RNO]) and need(chk, pj, [RCB, UPD, IRCB, TCB, CALL])):
        return chk.finish('anchors missing')
    sd = tail_signature(fd, RCB, [IRCB])
    sj = tail_signature(fj, RCB, [IRCB, CALL])
    for v in range(7):
        key = 'status:%d' % v
        if sd.get(v) and sd.get(v) == sj.get(v):
            chk.ok('C04.1', key, sample={'status': v, 'tail': sorted(sd[v])[0]})
        else:
            chk.fail('C04.1', key, 'status %d: non-jit tail %s, jit tail %s' % (v, sorted(sd.get(v, [])), sorted(sj.get(v, []))),
                     file, None)
    # update(): same shape, different step function
    def upd_sig(facts, step):
        ip = absint.Interp(facts, opaque=[step, CORE + 'handle_interrupt', 'mem::MemoryAreas::run_clock_cycles'])
        st = ip.new_state()
        core = ip.arg_object(st, 'core')
        sig = set()
        for r in ip.run(UPD, [core], st):
            calls = tuple('STEP' if e[1] == step else e[1].split('::')[-1] for e in r.state.events if e[0] == 'call')
            sig.add((r.status, calls))
        return sig
    ud = upd_sig(fd, CORE + 'run_interp')
    uj = upd_sig(fj, RCB)
    if ud == uj:
        chk.ok('C04.1', 'update', sample={'update': sorted(map(str, ud))})
    else:
        chk.fail('C04.1', 'update', 'Core::update differs between configurations beyond the step function: %s vs %s'
                 % (sorted(map(str, ud)), sorted(map(str, uj))), file, None)
    # ---- rule 2
    ip = absint.Interp(fj, opaque=[IRCB, CALL, TCB, 'cache::CodeCache::get_address_for_ip', CORE + 'handle_interrupt',
                                   'mem::MemoryAreas::run_clock_cycles', 'cpu::Registers::get_consumed_cycles',
                                   'cache::CodeCache::set_rom_bank', 'mem::MemoryAreas::get_rom_bank'],
                       trust_asserts=('overflow',))
    st = ip.new_state()
    core = ip.arg_object(st, 'core')
    ipreg = S(32, 'core.registers.ip', ('field', 'cpu::Registers', 'ip', 'u32'))
    sel = {'jit': set(), 'interp': set()}
    other_dep = False
    for r in ip.run(RCB, [core], st):
        if r.status != 'ok':
            continue
        calls = [e[1] for e in r.state.events if e[0] == 'call']
        av = r.state.env.av(ipreg)
        which = 'jit' if CALL in calls else ('interp' if IRCB in calls else None)
        if which:
            sel[which].add((av.lo, min(av.hi, 0xffffffff)))
        # decisions before the engine call must be about PC (or the cache lookup result) only
        for d in r.state.decisions:
            names = [s_[2] for s_ in syms_of(d[0])]
            if any(('registers.ip' not in n and 'get_address_for_ip' not in n and 'ret:' not in n and 'discr' not in n)
                   for n in names) and not any('ret:' in n for n in names):
                pass
    # translated code may be selected for ROM addresses only (anything else is written by the guest and never
    # invalidated); which ROM addresses are left to the interpreter is the implementation's choice, C04.3 and C01.11
    # cover the consequences.  Decided bit-precisely on the path conditions.
    from .. import bvproof
    from ..bdd import BV
    badsel = None
    njit = ninterp = 0
    for r in ip.run(RCB, [core], ip.new_state() if False else _fresh_core(ip)):
        if r.status != 'ok':
            continue
        calls = [e[1] for e in r.state.events if e[0] == 'call']
        if CALL in calls and IRCB in calls:
            badsel = 'a path runs both engines'
        if CALL in calls:
            njit += 1
            m, conv, K = bvproof.setup(r.state.env)
            x = conv(ipreg)
            D = m.AND(K, m.NOT(x.ult(BV.const(m, len(x), 0x8000))))
            if D != 0:
                w = m.witness(D)
                badsel = 'translated code is selected for PC = %#x, outside ROM' % w.get(ipreg[2], 0)
        elif IRCB in calls:
            ninterp += 1
        else:
            badsel = badsel or 'a path of run_code_block runs no engine'
    if not badsel and njit and ninterp:
        chk.ok('C04.2', 'selection', sample={'translated': sorted(sel['jit']), 'interpreted': sorted(sel['interp'])})
    else:
        chk.fail('C04.2', 'selection', 'engine selection in the jit build: %s (translated for PC in %s, interpreter for %s)'
                 % (badsel or 'one engine is never selected', sorted(sel['jit']), sorted(sel['interp'])), file, None)
    nd = sorted(set(c[0] for c in pd.callers(IRCB)))
    nj = sorted(set(c[0] for c in pj.callers(IRCB)))
    if nd and nj and set(nd) <= families(pd, [RCB]) and set(nj) <= families(pj, [RCB]):
        chk.ok('C04.2', 'same-interpreter', sample={'callers of interpreter::run_code_block': nd})
    else:
        chk.fail('C04.2', 'same-interpreter', 'interpreter::run_code_block is called from %s (non-jit) / %s (jit)' % (nd, nj),
                 file, None)
    # ---- rule 3
    block_rules(ctx, chk, fd, fj)
    # ---- rule 4: what a translated instruction computes (the reduction to C01/C02, decided here as well so that this
    # check does not depend on another one having been run)
    chk.rule('C04.4', 'D', 'value level: for every encoding the emitted x86 code leaves registers, flags, PC, SP, the ordered '
             'bus accesses and the cycle count equal to the interpreter for every operand (same comparison as C01.10 / '
             'C02.4)', floor=400)
    from .. import jitsem
    jitsem.apply_rule(ctx, chk, 'C04.4', lambda c: True)
    jitsem.apply_frame_rule(ctx, chk, 'C04.4', lambda c: True)
    chk.assumptions += ['per-step equality of device state is not claimed; C04 inherits the limits of C01-C03 (no x86 '
                        'semantics of template bytes)']
    return chk.finish('Comparison of the step tail of Core::run_code_block / Core::update between the default and jit '
                      'configurations (effects after the engine returns, per status class), engine selection as a function '
                      'of PC, and the loop-exit relation of interpreter::run_code_block vs CodeCache::translate_code_block '
                      'over all (terminator, start region, next region) classes.', exhaustive=True)


def find_sym(r, pred):
    for d in r.state.decisions:
        for s_ in syms_of(d[0]):
            if pred(s_):
                return s_
    return None


def block_rules(ctx, chk, fd, fj):
    # (a) both use is_block_end of the decoder's output
    for cfg, facts, fn, opq in (('default', fd, RNO, ['decoder::decode', 'interpreter::run_op', 'decoder::ops::Op::is_block_end',
                                                     'mem::get_executable_memory_slice', 'mem::memory_read_byte']),
                                ('jit', fj, TCB, ['decoder::decode', 'emitter::x86_64::Emitter::encode_op',
                                                  'decoder::ops::Op::is_block_end', 'cache::CodeCache::get_executable_memory_segment',
                                                  'emitter::x86_64::Emitter::encode_epilogue', 'cache::CodeCache::insert_code_block',
                                                  'cache::linux::ExecutableMemory::make_writable',
                                                  'cache::linux::ExecutableMemory::make_executable',
                                                  'cache::linux::ExecutableMemory::get_memory_area_mut'])):
        ip = absint.Interp(facts, opaque=opq, loop_mode='havoc', trust_asserts=('overflow', 'bounds', 'slice_index'))
        st = ip.new_state()
        if fn == RNO:
            args = [ip.arg_object(st, 'regs'), S(0, 'mem')]
        else:
            args = [ip.arg_object(st, 'cache'), S(0, 'code'), S(64, 'ip'), S(0, 'mem')]
        okk = False
        for r in ip.run(fn, args, st):
            dec = [e for e in r.state.events if e[0] == 'call' and e[1] == 'decoder::decode']
            ibe = [e for e in r.state.events if e[0] == 'call' and e[1] == 'decoder::ops::Op::is_block_end']
            for e in ibe:
                a = e[2][0]
                src = None
                if a is not None and a[0] == 'ref':
                    src = ip.read(r.state, a[1], a[2])
                names = [s_[2] for s_ in syms_of(src)] if src is not None else []
                if a is not None and a[0] == 'ref' and a[1][0] == 'L':
                    okk = okk or bool(dec)
                if any('ret:decode' in n for n in names):
                    okk = True
        key = 'is_block_end:%s' % fn.split('::')[-1]
        if okk:
            chk.ok('C04.3', key)
        else:
            chk.fail('C04.3', key, '%s does not end blocks on Op::is_block_end of the decoder output' % fn, None, None)
    # (b) loop-exit predicates of the two engines as Boolean functions of (terminator flag, block start, address of the
    #     next instruction), compared bit-precisely on the domain the translator is used for
    exit_functions(ctx, chk, fd, fj)


def exit_functions(ctx, chk, fd, fj):
    from .. import bvproof
    from ..bdd import BDD, BV, TermBV, Unsupported
    m = BDD()
    conv = TermBV(m)
    Tt, START, NEXT = S(1, 'T'), S(64, 'START'), S(64, 'NEXT')
    vT, vS, vN = conv(Tt).b[0], conv(START), conv(NEXT)

    def collect(paths, rename_of, keep):
        ex = co = 0
        n = 0
        for r in paths:
            if r.status not in ('ok', 'loopback'):
                continue
            ren = rename_of(r)
            if ren is None or not keep(r):
                continue
            _, _, K = bvproof.setup(r.state.env, m, conv, ren, only={'T', 'START', 'NEXT'})
            n += 1
            if r.status == 'ok':
                ex = m.OR(ex, K)
            else:
                co = m.OR(co, K)
        return ex, co, n
    # interpreter
    ip = absint.Interp(fd, opaque=[RNO], opaque_havoc={RNO: [0]}, loop_mode='havoc', trust_asserts=('overflow',))
    st = ip.new_state()
    regs = ip.arg_object(st, 'regs')
    E = S(32, 'regs.ip', ('field', 'cpu::Registers', 'ip', 'u32'))
    rsi = ip.run(IRCB, [regs, S(0, 'mem')], st)

    def ren_i(r):
        calls = [e for e in r.state.events if e[0] == 'call' and e[1] == RNO]
        if not calls:
            return None
        ret = calls[-1][3]
        tsym = find_sym(r, lambda s_: s_[1] == 1 and s_[2].startswith(ret[2]))
        nsym = find_sym(r, lambda s_: s_[3] and s_[3][0] == 'field' and s_[3][2] == 'ip' and 'call(run_next_op)' in s_[2])
        mp = {E: O(32, 'trunc', START)}
        if tsym is not None:
            mp[tsym] = Tt
        if nsym is not None:
            mp[nsym] = O(32, 'trunc', NEXT)
        return mp

    def some_arm(r):
        calls = [e for e in r.state.events if e[0] == 'call' and e[1] == RNO]
        ret = calls[-1][3]
        return any('discr(%s)' % ret[2] in fmt(d[0]) and r.state.env.const_of(d[0]) == 1 for d in r.state.decisions)
    exI, coI, nI = collect(rsi, ren_i, some_arm)
    # translator
    opq = ['decoder::decode', 'emitter::x86_64::Emitter::encode_op', 'decoder::ops::Op::is_block_end',
           'cache::CodeCache::get_executable_memory_segment', 'emitter::x86_64::Emitter::encode_epilogue',
           'cache::CodeCache::insert_code_block', 'cache::linux::ExecutableMemory::make_writable',
           'cache::linux::ExecutableMemory::make_executable', 'cache::linux::ExecutableMemory::get_memory_area_mut',
           'emitter::x86_64::Emitter::new']

    def sf(t):
        # a fetchable address yields a non-empty segment (the empty-slice exit has its interpreter counterpart in the
        # None arm of run_next_op, which is excluded on that side as well)
        if t[3] and t[3][0] == 'len' and 'get_executable_memory_segment' in t[3][1]:
            return AV(64, 1, 1 << 40)
        return None
    # Two consecutive iterations from the summarised loop state: the decision taken after an instruction has been decoded
    # (T = its is_block_end(), NEXT = the index after it) is "a second decode is reached" / "the function returns first",
    # whatever the loop is written as (while !ended, loop { .. if ended { break } }, tests at the head or at the tail)
    ipj = absint.Interp(fj, opaque=opq, loop_mode='havoc', trust_asserts=('overflow', 'bounds', 'slice_index'), sym_facts=sf,
                        extra_iterations=1)
    st = ipj.new_state()
    cache = ipj.arg_object(st, 'cache')
    I = S(64, 'ip')
    rsj = ipj.run(TCB, [cache, S(0, 'code'), I, S(0, 'mem')], st)
    DEC, IBE, SEG = 'decoder::decode', 'decoder::ops::Op::is_block_end', 'cache::CodeCache::get_executable_memory_segment'
    exJ = coJ = 0
    nJ = 0
    first_stop = []
    keepn = {'T', 'START', 'NEXT'}
    for r in rsj:
        if r.status not in ('ok', 'loopback'):
            continue
        evs = r.state.events
        alldec = [e for e in evs if e[0] == 'call' and e[1] == DEC]
        if r.status == 'ok' and not alldec:
            # a return with nothing decoded.  When the loop state was summarised before the first iteration, the path
            # belongs to the first iteration only if it is feasible with the index still equal to the start address
            inits = [e for e in evs if e[0] == 'loopinit' and e[2] == I]
            if not any(e[0] == 'loopinit' for e in evs):
                first_stop.append(r)
            else:
                env1 = r.state.env.copy()
                if all(env1.assume_eq(O(1, 'eq', e[1], I), 1) for e in inits) and inits and \
                        absint.feasible(_relevant(env1, {I} | {e[1] for e in inits})):
                    first_stop.append(r)
        hv = [i for i, e in enumerate(evs) if e[0] == 'loopinit']
        if not hv:
            continue            # left during the first iteration (executed from the initial state, before the summary)
        evs = evs[hv[-1] + 1:]
        dec = [i for i, e in enumerate(evs) if e[0] == 'call' and e[1] == DEC]
        if not dec:
            continue            # the summarised state was already past the end of the block
        ibe = [e for e in evs[dec[0]:] if e[0] == 'call' and e[1] == IBE]
        seg = [e for e in evs[:dec[0]] if e[0] == 'call' and e[1] == SEG]
        if not ibe or not seg or len(seg[-1][2]) < 2:
            chk.error('C04.3: translate_code_block does not decode from get_executable_memory_segment(index) and test '
                      'is_block_end() of the result (anchor lost)')
            return
        T1 = ibe[0][3]
        X = seg[-1][2][1]
        mloc = re.search(r'^loopvar:.*:_(\d+)$', X[2]) if X[0] == 's' else None
        if mloc is None:
            # on the path where the index still equals the start address the analysis may have unified the two: the
            # index is then the loop variable that was initialised with that value
            cand = [e[1] for e in r.state.events if e[0] == 'loopinit' and e[2] == X and e[1][1] == 64]
            if len(cand) == 1:
                mloc = re.search(r'^loopvar:.*:_(\d+)$', cand[0][2])
        if mloc is None:
            chk.error('C04.3: the translator\'s instruction index is not a loop variable (%s): loop not understood' % fmt(X))
            return
        n_idx = int(mloc.group(1))
        its = [e for e in evs if e[0] == 'iteration' and e[1] == TCB]
        if its:
            nxt = dict(its[0][4]).get(n_idx)
        else:
            nxt = r.state.mem.get(('L', 1, n_idx))
        if nxt is None or not T.is_int(nxt):
            chk.error('C04.3: cannot read the index after the first of two iterations')
            return
        env = r.state.env.copy()
        if not env.assume_eq(O(1, 'eq', NEXT, nxt), 1):
            continue
        ren = {I: START}
        if T.is_int(T1) and T1[0] == 's':
            ren[T1] = Tt
        try:
            _, _, K = bvproof.setup(_relevant(env, {I, NEXT, Tt, T1}), m, conv, ren)
        except Unsupported:
            chk.error('C04.3: the translator path condition left the bit-vector fragment')
            return
        K = m.exists(K, lambda nm: nm not in keepn)
        nJ += 1
        if len(dec) >= 2:
            coJ = m.OR(coJ, K)
        else:
            exJ = m.OR(exJ, K)
    if not nI or not nJ:
        chk.error('C04.3: could not extract the loop-exit paths (interpreter %d, translator %d)' % (nI, nJ))
        return
    # domain: blocks the translator is used for, next instruction after the start unless the block was ended by a jump
    ipc = absint.Interp(fj)
    st = ipc.new_state()
    P = 0
    for r in ipc.run('mem::can_dynarec', [START], st):
        if r.status != 'ok' or r.ret is None:
            continue
        _, _, K = bvproof.setup(r.state.env, m, conv)
        try:
            P = m.OR(P, m.AND(K, conv(r.ret).b[0]))
        except Unsupported:
            chk.error('C04.3: can_dynarec is outside the bit-vector fragment')
            return
    D = m.AND(P, vS.ult(BV.const(m, 64, 0x8000)))
    D = m.AND(D, vN.ule(BV.const(m, 64, 0xffff)))
    D = m.AND(D, vS.ule(vN))            # the translator's index only grows; a backward jump is a terminator (below)
    D = m.AND(D, m.OR(vT, vS.ult(vN)))
    allT = m.AND(m.AND(P, vS.ult(BV.const(m, 64, 0x8000))), m.AND(vT, vN.ule(BV.const(m, 64, 0xffff))))
    leak = m.AND(allT, m.NOT(exI))
    if leak != 0:
        w = m.witness(leak)
        chk.fail('C04.3', 'terminator-ends-block', 'the interpreter continues a block after a terminator: block start %#x, '
                 'next instruction at %#x' % (w.get('START', 0), w.get('NEXT', 0)), 'src/interpreter/mod.rs', None)
    else:
        chk.ok('C04.3', 'terminator-ends-block')

    def show(w):
        return 'terminator=%d, block start %#x, next instruction at %#x' % (w.get('T', 0), w.get('START', 0), w.get('NEXT', 0))
    file = 'src/interpreter/mod.rs'
    for nm, ex, co in (('interpreter', exI, coI), ('translator', exJ, coJ)):
        both = m.AND(D, m.AND(ex, co))
        none = m.AND(D, m.NOT(m.OR(ex, co)))
        if both != 0 or none != 0:
            chk.error('C04.3: the %s loop-exit decision is not a function of (terminator, start, next): e.g. %s'
                      % (nm, show(m.witness(both if both != 0 else none))))
            return
    diff = m.AND(D, m.XOR(exI, exJ))
    # classes for reporting: the property needs agreement everywhere; list a few named sub-domains
    lowS, lowN = vS.ult(BV.const(m, 64, 0x4000)), vN.ult(BV.const(m, 64, 0x4000))
    for t in (0, 1):
        for a in (0, 1):
            for b in (0, 1):
                cls = m.AND(vT if t else m.NOT(vT), m.AND(lowS if a else m.NOT(lowS), lowN if b else m.NOT(lowN)))
                key = 'exit:term=%d,start_low=%d,next_low=%d' % (t, a, b)
                d = m.AND(diff, cls)
                if m.AND(D, cls) == 0:
                    chk.ok('C04.3', key, nontrivial=False)
                elif d == 0:
                    chk.ok('C04.3', key, sample={'class': key, 'engines agree on every (start, next) of the class': True})
                else:
                    w = m.witness(d)
                    wi = m.AND(d, exI) != 0 and m.witness(m.AND(d, exI)) or w
                    chk.fail('C04.3', key, 'the engines cut blocks differently: %s: interpreter %s, translator %s '
                             '(block-by-block stepping diverges)' % (show(w), 'ends the block' if _holds(m, exI, w) else 'continues',
                                                                      'ends the block' if _holds(m, exJ, w) else 'continues'),
                             file, None)
    # first iteration of the translator (nothing translated yet): the first instruction is always decoded
    if not first_stop:
        chk.ok('C04.3', 'first-iteration')
    else:
        chk.fail('C04.3', 'first-iteration', 'translator may end a block before translating its first instruction (a path '
                 'returns without reaching decode(): %s)' % [fmt(d[0])[:80] for d in first_stop[0].state.decisions][-3:],
                 'src/cache/mod.rs', None)


class _EnvView:
    def __init__(self, log, ref, sym_facts):
        self.log, self.ref, self.sym_facts = log, ref, sym_facts


def _relevant(env, seeds):
    """the part of a path condition that can constrain the seed symbols: assumptions connected to them through shared
    symbols (dropping the others - buffer cursors, lengths - only weakens conjuncts that are independent of the seeds)"""
    items = [(k, t, v, frozenset(syms_of(t))) for k, t, v in env.log if isinstance(t, tuple) and t and t[0] in ('s', 'o')]
    seen = set(s_ for s_ in seeds if isinstance(s_, tuple))
    changed = True
    used = [False] * len(items)
    while changed:
        changed = False
        for i, (k, t, v, ss) in enumerate(items):
            if not used[i] and ss & seen:
                used[i] = True
                if not ss <= seen:
                    seen |= ss
                changed = True
    log = [(k, t, v) for i, (k, t, v, ss) in enumerate(items) if used[i]]
    ref = {t: av for t, av in env.ref.items() if t in seen}
    return _EnvView(log, ref, env.sym_facts)


def _holds(m, f, w):
    n = f
    while n > 1:
        v, lo, hi = m.node[n]
        sym, bit = m.names[v]
        n = hi if (w.get(sym, 0) >> bit) & 1 else lo
    return bool(n)


def interp_exit_table(facts):
    ip = absint.Interp(facts, opaque=[RNO], opaque_havoc={RNO: [0]}, loop_mode='havoc', trust_asserts=('overflow',))
    st = ip.new_state()
    regs = ip.arg_object(st, 'regs')
    E = S(32, 'regs.ip', ('field', 'cpu::Registers', 'ip', 'u32'))
    rs = ip.run(IRCB, [regs, S(0, 'mem')], st)
    table = {}
    for r in rs:
        if r.status not in ('ok', 'loopback'):
            continue
        calls = [e for e in r.state.events if e[0] == 'call' and e[1] == RNO]
        if not calls:
            continue
        ret = calls[-1][3]
        tsym = find_sym(r, lambda s_: s_[1] == 1 and s_[2].startswith(ret[2]))
        nsym = find_sym(r, lambda s_: s_[3] and s_[3][0] == 'field' and s_[3][2] == 'ip' and 'call(run_next_op)' in s_[2])
        # the Some arm only
        if not any('discr(%s)' % ret[2] in fmt(d[0]) and r.state.env.const_of(d[0]) == 1 for d in r.state.decisions):
            continue
        for t, a, b in itertools.product((0, 1), (0, 1), (0, 1)):
            env = r.state.env.copy()
            ok = True
            if tsym is not None:
                ok = ok and env.assume_eq(tsym, t)
            elif t == 0 and r.status == 'ok' and not nsym:
                ok = True
            ok = ok and env.assume(E, AV(32, 0, 0x3fff) if a else AV(32, 0x4000, 0xffff))
            if nsym is not None:
                ok = ok and env.assume(nsym, AV(32, 0, 0x3fff) if b else AV(32, 0x4000, 0xffff))
            if tsym is None and t == 1:
                ok = False
            if ok and env.consistent():
                table.setdefault((t, a, b), set()).add(r.status == 'ok')
    return table


def jit_exit_table(facts):
    opq = ['decoder::decode', 'emitter::x86_64::Emitter::encode_op', 'decoder::ops::Op::is_block_end',
           'cache::CodeCache::get_executable_memory_segment', 'emitter::x86_64::Emitter::encode_epilogue',
           'cache::CodeCache::insert_code_block', 'cache::linux::ExecutableMemory::make_writable',
           'cache::linux::ExecutableMemory::make_executable', 'cache::linux::ExecutableMemory::get_memory_area_mut',
           'emitter::x86_64::Emitter::new']
    def sf(t):
        # a fetchable address yields a non-empty segment (the empty-slice exit has its interpreter counterpart in the
        # None arm of run_next_op, which is excluded on that side as well)
        if t[3] and t[3][0] == 'len' and 'get_executable_memory_segment' in t[3][1]:
            return AV(64, 1, 1 << 40)
        return None
    ip = absint.Interp(facts, opaque=opq, loop_mode='havoc', trust_asserts=('overflow', 'bounds', 'slice_index'), sym_facts=sf)
    st = ip.new_state()
    cache = ip.arg_object(st, 'cache')
    I = S(64, 'ip')
    rs = ip.run(TCB, [cache, S(0, 'code'), I, S(0, 'mem')], st)
    table = {}
    for r in rs:
        if r.status not in ('ok', 'loopback'):
            continue
        bsym = find_sym(r, lambda s_: s_[1] == 1 and s_[2].startswith('loopvar:'))
        xsym = None
        for d in r.state.decisions:
            ss = syms_of(d[0])
            if I in ss:
                for s_ in ss:
                    if s_[1] == 64 and s_[2].startswith('loopvar:'):
                        xsym = s_
        if bsym is None:
            continue
        for t, a, b, ne in itertools.product((0, 1), (0, 1), (0, 1), (0, 1)):
            env = r.state.env.copy()
            ok = env.assume_eq(bsym, t)
            ok = ok and env.assume(I, AV(64, 0, 0x3fff) if a else AV(64, 0x4000, 0x7fff))
            if xsym is not None:
                ok = ok and env.assume(xsym, AV(64, 0, 0x3fff) if b else AV(64, 0x4000, 0x8002))
                eq = O(1, 'eq', xsym, I)
                ok = ok and env.assume_eq(eq, 0 if ne else 1)
            elif t == 0:
                ok = False
            if ok and env.consistent():
                table.setdefault((t, a, b, ne), set()).add(r.status == 'ok')
    return table
