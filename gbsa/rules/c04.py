"""C04 - enabling the recompiler does not change what a program computes (structural clauses only).

The whole-program statement is runtime behaviour and is not decided here; it is reduced to C01, C02, C03 plus the
clauses below, each a necessary condition: the two build configurations share the step tail, select the engine by
address only, and cut blocks at the same places."""
import itertools
from .. import absint, terms as T
from ..terms import C, S, O, AV, fmt
from .common import *
from .c03 import syms_of

RCB = CORE + 'run_code_block'
UPD = CORE + 'update'
IRCB = 'interpreter::run_code_block'
RNO = 'interpreter::run_next_op'
TCB = 'cache::CodeCache::translate_code_block'
CALL = 'cache::CodeCache::call'


def tail_signature(facts, fn, engines):
    """status class -> ordered effects after the engine returned"""
    opaque = [e for e in engines if e in facts['functions']] + [CORE + 'handle_interrupt', 'mem::MemoryAreas::run_clock_cycles',
                                                                'cpu::Registers::get_consumed_cycles',
                                                                'cache::CodeCache::translate_code_block',
                                                                'cache::CodeCache::get_address_for_ip',
                                                                'cache::CodeCache::set_rom_bank', 'mem::MemoryAreas::get_rom_bank']
    ip = absint.Interp(facts, opaque=[o for o in opaque if o in facts['functions']], trust_asserts=('overflow',))
    st = ip.new_state()
    core = ip.arg_object(st, 'core')
    out = {}
    for r in ip.run(fn, [core], st):
        if r.status != 'ok':
            continue
        evs = r.state.events
        idx = [i for i, e in enumerate(evs) if e[0] == 'call' and e[1] in engines]
        if not idx:
            continue
        res = evs[idx[-1]][3]
        tail = []
        for e in evs[idx[-1] + 1:]:
            if e[0] == 'call':
                tail.append('call ' + e[1].split('::')[-1])
            elif e[0] == 'store' and e[1] == 'core':
                tail.append('store %s := %s' % ('.'.join(str(x[1]) for x in e[2]), normalise(fmt(e[3]))))
        for v in range(8):
            if r.state.env.possible(res, v):
                out.setdefault(v, set()).add(tuple(tail))
    return out


def normalise(s):
    import re
    return re.sub(r'#\d+', '#', s)


def run(ctx, chk):
    chk.rule('C04.1', 'N', 'shared tail: for every status code both configurations perform the same effects after the '
             'engine returns (status mapping, consume, deliver, handle_interrupt); update differs only in the step called',
             floor=7)
    chk.rule('C04.2', 'N', 'engine selection depends on the address only: translated code iff can_dynarec(PC), otherwise '
             'the same interpreter entry point as the non-jit build', floor=2)
    chk.rule('C04.3', 'N', 'block boundaries agree: both engines end a block on Op::is_block_end of the same decoder '
             'output, and their loop-exit conditions coincide on every (terminator, start region, next region) class',
             floor=8)
    fd = ctx.facts('default')
    fj = ctx.facts('jit')
    pd = ctx.program('default')
    pj = ctx.program('jit')
    file = 'src/emulator.rs'
    if not (need(chk, pd, [RCB, UPD, IRCB, RNO]) and need(chk, pj, [RCB, UPD, IRCB, TCB, CALL])):
        return chk.finish('anchors missing')
    sd = tail_signature(fd, RCB, [IRCB])
    sj = tail_signature(fj, RCB, [IRCB, CALL])
    for v in range(7):
        key = 'status:%d' % v
        if sd.get(v) and sd.get(v) == sj.get(v):
            chk.ok('C04.1', key, sample={'status': v, 'tail': sorted(sd[v])[0]})
        else:
            chk.fail('C04.1', key, 'status %d: non-jit tail %s, jit tail %s' % (v, sorted(sd.get(v, [])), sorted(sj.get(v, []))),
                     file, None)
    # update(): same shape, different step function
    def upd_sig(facts, step):
        ip = absint.Interp(facts, opaque=[step, CORE + 'handle_interrupt', 'mem::MemoryAreas::run_clock_cycles'])
        st = ip.new_state()
        core = ip.arg_object(st, 'core')
        sig = set()
        for r in ip.run(UPD, [core], st):
            calls = tuple('STEP' if e[1] == step else e[1].split('::')[-1] for e in r.state.events if e[0] == 'call')
            sig.add((r.status, calls))
        return sig
    ud = upd_sig(fd, CORE + 'run_interp')
    uj = upd_sig(fj, RCB)
    if ud == uj:
        chk.ok('C04.1', 'update', sample={'update': sorted(map(str, ud))})
    else:
        chk.fail('C04.1', 'update', 'Core::update differs between configurations beyond the step function: %s vs %s'
                 % (sorted(map(str, ud)), sorted(map(str, uj))), file, None)
    # ---- rule 2
    ip = absint.Interp(fj, opaque=[IRCB, CALL, TCB, 'cache::CodeCache::get_address_for_ip', CORE + 'handle_interrupt',
                                   'mem::MemoryAreas::run_clock_cycles', 'cpu::Registers::get_consumed_cycles',
                                   'cache::CodeCache::set_rom_bank', 'mem::MemoryAreas::get_rom_bank'],
                       trust_asserts=('overflow',))
    st = ip.new_state()
    core = ip.arg_object(st, 'core')
    ipreg = S(32, 'core.registers.ip', ('field', 'cpu::Registers', 'ip', 'u32'))
    sel = {'jit': set(), 'interp': set()}
    other_dep = False
    for r in ip.run(RCB, [core], st):
        if r.status != 'ok':
            continue
        calls = [e[1] for e in r.state.events if e[0] == 'call']
        av = r.state.env.av(ipreg)
        which = 'jit' if CALL in calls else ('interp' if IRCB in calls else None)
        if which:
            sel[which].add((av.lo, min(av.hi, 0xffffffff)))
        # decisions before the engine call must be about PC (or the cache lookup result) only
        for d in r.state.decisions:
            names = [s_[2] for s_ in syms_of(d[0])]
            if any(('registers.ip' not in n and 'get_address_for_ip' not in n and 'ret:' not in n and 'discr' not in n)
                   for n in names) and not any('ret:' in n for n in names):
                pass
    okj = sel['jit'] and all(hi <= 0x7fff for lo, hi in sel['jit'])
    oki = sel['interp'] and all(lo >= 0x8000 for lo, hi in sel['interp'])
    if okj and oki:
        chk.ok('C04.2', 'selection', sample={'translated': sorted(sel['jit']), 'interpreted': sorted(sel['interp'])})
    else:
        chk.fail('C04.2', 'selection', 'jit build runs translated code for PC in %s and the interpreter for %s; expected '
                 '< 0x8000 / >= 0x8000' % (sorted(sel['jit']), sorted(sel['interp'])), file, None)
    nd = sorted(set(c[0] for c in pd.callers(IRCB)))
    nj = sorted(set(c[0] for c in pj.callers(IRCB)))
    if nd == [RCB] and nj == [RCB]:
        chk.ok('C04.2', 'same-interpreter', sample={'callers of interpreter::run_code_block': nd})
    else:
        chk.fail('C04.2', 'same-interpreter', 'interpreter::run_code_block is called from %s (non-jit) / %s (jit)' % (nd, nj),
                 file, None)
    # ---- rule 3
    block_rules(ctx, chk, fd, fj)
    chk.assumptions += ['per-step equality of device state is not claimed; C04 inherits the limits of C01-C03 (no x86 '
                        'semantics of template bytes)']
    return chk.finish('Comparison of the step tail of Core::run_code_block / Core::update between the default and jit '
                      'configurations (effects after the engine returns, per status class), engine selection as a function '
                      'of PC, and the loop-exit relation of interpreter::run_code_block vs CodeCache::translate_code_block '
                      'over all (terminator, start region, next region) classes.', exhaustive=True)


def find_sym(r, pred):
    for d in r.state.decisions:
        for s_ in syms_of(d[0]):
            if pred(s_):
                return s_
    return None


def block_rules(ctx, chk, fd, fj):
    # (a) both use is_block_end of the decoder's output
    for cfg, facts, fn, opq in (('default', fd, RNO, ['decoder::decode', 'interpreter::run_op', 'decoder::ops::Op::is_block_end',
                                                     'mem::get_executable_memory_slice', 'mem::memory_read_byte']),
                                ('jit', fj, TCB, ['decoder::decode', 'emitter::x86_64::Emitter::encode_op',
                                                  'decoder::ops::Op::is_block_end', 'cache::CodeCache::get_executable_memory_segment',
                                                  'emitter::x86_64::Emitter::encode_epilogue', 'cache::CodeCache::insert_code_block',
                                                  'cache::linux::ExecutableMemory::make_writable',
                                                  'cache::linux::ExecutableMemory::make_executable',
                                                  'cache::linux::ExecutableMemory::get_memory_area_mut'])):
        ip = absint.Interp(facts, opaque=opq, loop_mode='havoc', trust_asserts=('overflow', 'bounds', 'slice_index'))
        st = ip.new_state()
        if fn == RNO:
            args = [ip.arg_object(st, 'regs'), S(0, 'mem')]
        else:
            args = [ip.arg_object(st, 'cache'), S(0, 'code'), S(64, 'ip'), S(0, 'mem')]
        okk = False
        for r in ip.run(fn, args, st):
            dec = [e for e in r.state.events if e[0] == 'call' and e[1] == 'decoder::decode']
            ibe = [e for e in r.state.events if e[0] == 'call' and e[1] == 'decoder::ops::Op::is_block_end']
            for e in ibe:
                a = e[2][0]
                src = None
                if a is not None and a[0] == 'ref':
                    src = ip.read(r.state, a[1], a[2])
                names = [s_[2] for s_ in syms_of(src)] if src is not None else []
                if a is not None and a[0] == 'ref' and a[1][0] == 'L':
                    okk = okk or bool(dec)
                if any('ret:decode' in n for n in names):
                    okk = True
        key = 'is_block_end:%s' % fn.split('::')[-1]
        if okk:
            chk.ok('C04.3', key)
        else:
            chk.fail('C04.3', key, '%s does not end blocks on Op::is_block_end of the decoder output' % fn, None, None)
    # (b) exit tables
    ti = interp_exit_table(fd)
    tj = jit_exit_table(fj)
    chk.extra['interp_exit_table'] = {str(k): v for k, v in ti.items()}
    chk.extra['jit_exit_table'] = {str(k): v for k, v in tj.items()}
    for t, a, b in itertools.product((0, 1), (0, 1), (0, 1)):
        key = 'exit:term=%d,start_low=%d,next_low=%d' % (t, a, b)
        want = bool(t or a != b)
        gi = ti.get((t, a, b))
        gj = tj.get((t, a, b, 1))
        if gi is not None and len(gi) == 1 and gj is None and (a, b) == (0, 1):
            # the translator's next-instruction index never lies below the block start (index only grows):
            # this class is infeasible on that side
            chk.ok('C04.3', key, nontrivial=False)
        elif gi is not None and len(gi) == 1 and gi == gj:
            chk.ok('C04.3', key, sample={'terminator': t, 'start<0x4000': a, 'next<0x4000': b, 'block ends': sorted(gi)[0]})
        else:
            chk.fail('C04.3', key, 'terminator=%d, block starts %s 0x4000, next instruction %s 0x4000: interpreter ends the '
                     'block: %s, translator ends the block: %s (the engines must agree)'
                     % (t, 'below' if a else 'at/above', 'below' if b else 'at/above', sorted(gi or []), sorted(gj or [])),
                     'src/interpreter/mod.rs', None)
    # first iteration of the translator (next == start, nothing translated yet) must continue
    first = tj.get((0, 1, 1, 0)), tj.get((0, 0, 0, 0))
    if first == ({False}, {False}):
        chk.ok('C04.3', 'first-iteration')
    else:
        chk.fail('C04.3', 'first-iteration', 'translator may end a block before translating its first instruction: %s' % (first,),
                 'src/cache/mod.rs', None)


def interp_exit_table(facts):
    ip = absint.Interp(facts, opaque=[RNO], opaque_havoc={RNO: [0]}, loop_mode='havoc', trust_asserts=('overflow',))
    st = ip.new_state()
    regs = ip.arg_object(st, 'regs')
    E = S(32, 'regs.ip', ('field', 'cpu::Registers', 'ip', 'u32'))
    rs = ip.run(IRCB, [regs, S(0, 'mem')], st)
    table = {}
    for r in rs:
        if r.status not in ('ok', 'loopback'):
            continue
        calls = [e for e in r.state.events if e[0] == 'call' and e[1] == RNO]
        if not calls:
            continue
        ret = calls[-1][3]
        tsym = find_sym(r, lambda s_: s_[1] == 1 and s_[2].startswith(ret[2]))
        nsym = find_sym(r, lambda s_: s_[3] and s_[3][0] == 'field' and s_[3][2] == 'ip' and 'call(run_next_op)' in s_[2])
        # the Some arm only
        if not any('discr(%s)' % ret[2] in fmt(d[0]) and r.state.env.const_of(d[0]) == 1 for d in r.state.decisions):
            continue
        for t, a, b in itertools.product((0, 1), (0, 1), (0, 1)):
            env = r.state.env.copy()
            ok = True
            if tsym is not None:
                ok = ok and env.assume_eq(tsym, t)
            elif t == 0 and r.status == 'ok' and not nsym:
                ok = True
            ok = ok and env.assume(E, AV(32, 0, 0x3fff) if a else AV(32, 0x4000, 0xffff))
            if nsym is not None:
                ok = ok and env.assume(nsym, AV(32, 0, 0x3fff) if b else AV(32, 0x4000, 0xffff))
            if tsym is None and t == 1:
                ok = False
            if ok and env.consistent():
                table.setdefault((t, a, b), set()).add(r.status == 'ok')
    return table


def jit_exit_table(facts):
    opq = ['decoder::decode', 'emitter::x86_64::Emitter::encode_op', 'decoder::ops::Op::is_block_end',
           'cache::CodeCache::get_executable_memory_segment', 'emitter::x86_64::Emitter::encode_epilogue',
           'cache::CodeCache::insert_code_block', 'cache::linux::ExecutableMemory::make_writable',
           'cache::linux::ExecutableMemory::make_executable', 'cache::linux::ExecutableMemory::get_memory_area_mut',
           'emitter::x86_64::Emitter::new']
    def sf(t):
        # a fetchable address yields a non-empty segment (the empty-slice exit has its interpreter counterpart in the
        # None arm of run_next_op, which is excluded on that side as well)
        if t[3] and t[3][0] == 'len' and 'get_executable_memory_segment' in t[3][1]:
            return AV(64, 1, 1 << 40)
        return None
    ip = absint.Interp(facts, opaque=opq, loop_mode='havoc', trust_asserts=('overflow', 'bounds', 'slice_index'), sym_facts=sf)
    st = ip.new_state()
    cache = ip.arg_object(st, 'cache')
    I = S(64, 'ip')
    rs = ip.run(TCB, [cache, S(0, 'code'), I, S(0, 'mem')], st)
    table = {}
    for r in rs:
        if r.status not in ('ok', 'loopback'):
            continue
        bsym = find_sym(r, lambda s_: s_[1] == 1 and s_[2].startswith('loopvar:'))
        xsym = None
        for d in r.state.decisions:
            ss = syms_of(d[0])
            if I in ss:
                for s_ in ss:
                    if s_[1] == 64 and s_[2].startswith('loopvar:'):
                        xsym = s_
        if bsym is None:
            continue
        for t, a, b, ne in itertools.product((0, 1), (0, 1), (0, 1), (0, 1)):
            env = r.state.env.copy()
            ok = env.assume_eq(bsym, t)
            ok = ok and env.assume(I, AV(64, 0, 0x3fff) if a else AV(64, 0x4000, 0x7fff))
            if xsym is not None:
                ok = ok and env.assume(xsym, AV(64, 0, 0x3fff) if b else AV(64, 0x4000, 0x8002))
                eq = O(1, 'eq', xsym, I)
                ok = ok and env.assume_eq(eq, 0 if ne else 1)
            elif t == 0:
                ok = False
            if ok and env.consistent():
                table.setdefault((t, a, b, ne), set()).add(r.status == 'ok')
    return table
