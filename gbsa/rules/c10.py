"""C10 - every bus address decodes to the documented Game Boy region."""
from .. import absint, sm83, busmodel as bm, terms as T
from ..terms import C, S, O, AV, fmt, bit_provenance
from ..affine import equal_mod, aff
from .common import *

EXPECT = {
    'ROM0': ('buffer', 'rom'), 'ROMn': ('buffer', 'rom'), 'VRAM': ('buffer', 'video_ram'),
    'CARTRAM': ('buffer', 'cart_ram'), 'WRAM0': ('buffer', 'work_ram'), 'WRAMn': ('buffer', 'work_ram'),
    'ECHO': ('const', None), 'OAM': ('buffer', 'oam_ram'), 'UNUSABLE': ('const', None), 'IO': ('io', None),
    'HRAM': ('buffer', 'high_ram'), 'IE': ('field', 'interrupt_mask'),
}
RAM_REGIONS = ('VRAM', 'CARTRAM', 'WRAM0', 'WRAMn', 'OAM', 'HRAM')


def carve(paths):
    """single-address paths are carved out of the intervals of other paths (a != refinement cannot punch holes)"""
    pts = sorted(set(p['lo'] for p in paths if p.get('status') == 'ok' and p['lo'] == p['hi']))
    out = []
    for p in paths:
        if p.get('status') != 'ok':
            continue
        if p['lo'] == p['hi']:
            out.append(dict(p, segs=[(p['lo'], p['hi'])]))
            continue
        segs = [(p['lo'], p['hi'])]
        for x in pts:
            nsegs = []
            for lo, hi in segs:
                if lo <= x <= hi:
                    # is x really excluded on this path?  the path condition must contradict addr == x
                    e2 = p['env'].copy()
                    if e2.assume_eq(bm.ADDR, x) and not excluded(p, x):
                        nsegs.append((lo, hi))
                        continue
                    if lo <= x - 1:
                        nsegs.append((lo, x - 1))
                    if x + 1 <= hi:
                        nsegs.append((x + 1, hi))
                else:
                    nsegs.append((lo, hi))
            segs = nsegs
        # a handler may serve several hardware regions: check it per region
        split = []
        for lo, hi in segs:
            cur = lo
            for rlo, rhi, _ in sm83.BUS_MAP:
                if rhi < cur or rlo > hi:
                    continue
                split.append((max(cur, rlo), min(hi, rhi)))
            cur = hi
        out.append(dict(p, segs=split))
    return out


def excluded(p, x):
    """the path took a branch `addr != x` (decision list contains eq(addr, x) resolved false)"""
    for d in p['result'].state.decisions:
        c = d[0]
        if c[0] == 'o' and c[2] in ('eq', 'ne') and c[3] == bm.ADDR and c[4][0] == 'c' and c[4][2] == x:
            return True
    return False


def region_of(a):
    for lo, hi, name in sm83.BUS_MAP:
        if lo <= a <= hi:
            return name, lo, hi
    return None, None, None


def run(ctx, chk):
    chk.rule('C10.1', 'D', 'read and write ladders partition 0x0000-0xffff exactly at the hardware region bounds with '
             'the documented handler class per region', floor=24)
    chk.rule('C10.2', 'D', 'for every RAM region the read handler and the write handler address the same cell', floor=6)
    chk.rule('C10.3', 'D', 'no two addresses share a storage cell: index injective within a region, index sets of '
             'regions on the same buffer disjoint (single-address exceptions included); banked regions: consecutive banks '
             'are further apart than the largest offset inside a bank', floor=20)
    chk.rule('C10.4', 'D', 'no store to the ROM buffer is reachable through the bus; ROM-range writes reach only the '
             'cartridge controller registers', floor=3)
    chk.rule('C10.5', 'D', 'instruction fetch view = data view in ROM, work RAM and high RAM', floor=5)
    chk.rule('C10.6', 'D', 'unmapped regions read as a constant and ignore writes', floor=4)
    chk.rule('C10.7', 'D', 'readable I/O registers return their defined writable bits after a write (write then read '
             'through IO::set_byte / IO::get_byte)', floor=15)
    facts = ctx.facts('default')
    prog = ctx.program('default')
    if not need(chk, prog, [bm.RD, bm.WR, bm.FETCH, IO_SET, IO_GET]):
        return chk.finish('anchors missing')
    mfile = prog.fns[bm.RD]['file']
    model = bm.BusModel(facts)
    reads = carve(model.read_paths())
    writes = carve(model.write_paths())
    fetches = [p for p in model.fetch_paths()]
    badr = [p for p in model.read_paths() if p.get('status') != 'ok']
    # ---- rule 1: partition
    for label, paths in (('read', reads), ('write', writes)):
        cover = {}
        for p in paths:
            for lo, hi in p['segs']:
                n1, rlo, rhi = region_of(lo)
                n2, _, _ = region_of(hi)
                if n1 != n2:
                    chk.fail('C10.1', '%s:straddle:%04x-%04x' % (label, lo, hi),
                             '%s path handles 0x%04x-0x%04x with one handler; it straddles the %s/%s boundary'
                             % (label, lo, hi, n1, n2), mfile, None)
                    continue
                cover.setdefault(n1, []).append((lo, hi, p))
        for lo, hi, name in sm83.BUS_MAP:
            key = '%s:%s' % (label, name)
            segs = sorted((a, b) for a, b, _ in cover.get(name, []))
            # union must be exactly [lo,hi] (several paths may cover the same addresses for different cart types)
            cur = lo
            okc = True
            for a, b in segs:
                if a > cur:
                    okc = False
                cur = max(cur, b + 1)
            if cur != hi + 1:
                okc = False
            kinds = set()
            for a, b, p in cover.get(name, []):
                kinds.add(handler_class(p, label, a, b))
            want = expected_class(name, label)
            bad = [k for k in kinds if k not in want]
            if not okc:
                chk.fail('C10.1', key, '%s ladder does not cover %s 0x%04x-0x%04x exactly (covered: %s)'
                         % (label, name, lo, hi, ['%04x-%04x' % s for s in segs]), mfile, None)
            elif bad:
                chk.fail('C10.1', key, '%s of %s (0x%04x-0x%04x) is handled as %s, documented handler is %s'
                         % (label, name, lo, hi, sorted(map(str, kinds)), sorted(map(str, want))), mfile, None)
            else:
                chk.ok('C10.1', key, sample={'access': label, 'region': name, 'range': '%04x-%04x' % (lo, hi),
                                             'handler': sorted(map(str, kinds))})
    # ---- rule 2 / 3
    by_region_r = region_paths(reads)
    by_region_w = region_paths(writes)
    for name in RAM_REGIONS:
        rp = [p for p in by_region_r.get(name, []) if p['kind'] == 'buffer']
        wp = [p for p in by_region_w.get(name, []) if p['kind'] == 'buffer']
        bad = None
        pairs = 0
        for r in rp:
            for w in wp:
                if r['cart'] and w['cart'] and r['cart'] != w['cart']:
                    continue
                if not same_cart_mode(r, w):
                    continue
                pairs += 1
                env = r['env']
                if r['buffer'] != w['buffer'] or not equal_mod(r['index'], w['index'], env, 64):
                    bad = (r, w)
        if bad:
            chk.fail('C10.2', name, '%s: read uses %s[%s], write uses %s[%s]'
                     % (name, bad[0]['buffer'], fmt(bad[0]['index']), bad[1]['buffer'], fmt(bad[1]['index'])), mfile, None)
        elif not pairs:
            chk.fail('C10.2', name, '%s: no read/write handler pair found' % name, mfile, None)
        else:
            chk.ok('C10.2', name, sample={'region': name, 'cell': '%s[%s]' % (rp[0]['buffer'], fmt(rp[0]['index']))})
    # injectivity inside each buffer-backed read region
    for name in RAM_REGIONS + ('ROM0', 'ROMn'):
        for p in by_region_r.get(name, []):
            if p['kind'] != 'buffer':
                continue
            lo, hi = p['segs'][0][0], p['segs'][-1][1]
            m = addr_mask(p['index'])
            key = 'inj:%s:%s' % (name, '/'.join(c.split('::')[-1] for c in p['cart']) or '-')
            if m is None:
                # any other spelling: the index must be affine in the address with coefficient 1 on the region
                from ..affine import aff as _aff
                envr = p['env'].copy()
                envr.assume(bm.ADDR, AV(16, lo, hi))
                co, c0, w_ = _aff(p['index'], envr)
                aat = [(a_, k_) for a_, k_ in co.items() if mentions(a_, bm.ADDR)]
                plain = [a_ for a_, k_ in aat if a_ == bm.ADDR or (a_[0] == 'o' and a_[2] in ('zext', 'trunc') and a_[3] == bm.ADDR)]
                if len(aat) == 1 and aat[0][1] == 1 and plain:
                    chk.ok('C10.3', key)
                else:
                    chk.fail('C10.3', key, '%s: index %s is not an injective function of the address on 0x%04x-0x%04x '
                             '(not base + addr, not base + (addr & mask))' % (name, fmt(p['index'])[:120], lo, hi), mfile, None)
            elif (lo & ~m) != (hi & ~m):
                chk.fail('C10.3', key, '%s 0x%04x-0x%04x: addr & %#x is not injective on the region (addresses alias)'
                         % (name, lo, hi, m), mfile, None)
            else:
                chk.ok('C10.3', key)
    # banked regions: index = stride * bank + f(addr).  Two banks must not overlap: stride > max f(addr) on the region
    from ..affine import aff
    for name in RAM_REGIONS + ('ROMn',):
        for p in by_region_r.get(name, []):
            if p['kind'] != 'buffer':
                continue
            env = p['env']
            co, c0, w = aff(p['index'], env)
            bank_atoms = [(a, k) for a, k in co.items() if not mentions(a, bm.ADDR)]
            addr_atoms = [(a, k) for a, k in co.items() if mentions(a, bm.ADDR)]
            if not bank_atoms:
                continue
            key = 'stride:%s:%s' % (name, '/'.join(c.split('::')[-1] for c in p['cart']) or '-')
            from ..affine import _range, _signed
            okk = all(k == 1 for a, k in addr_atoms)
            envr = env.copy()
            envr.assume(bm.ADDR, AV(16, p['segs'][0][0], p['segs'][-1][1]))
            sco, sc0 = _signed(dict(addr_atoms), c0, w)
            olo, ohi = _range(sco, sc0, envr)
            span = ohi - olo          # width of the window one bank occupies in the buffer
            if not okk or len(bank_atoms) != 1:
                chk.fail('C10.3', key, '%s: banked index %s is not of the form stride * bank + f(addr)'
                         % (name, fmt(p['index'])[:120]), mfile, None)
                continue
            stride = bank_atoms[0][1]
            if stride > span:
                chk.ok('C10.3', key, sample={'region': name, 'stride': hex(stride), 'in-bank offsets': [hex(olo), hex(ohi)]})
            else:
                chk.fail('C10.3', key, '%s: consecutive banks are %#x cells apart but offsets inside a bank span %#x cells: a byte '
                         'written in one bank is visible at another address of the neighbouring bank (index %s)'
                         % (name, stride, span, fmt(p['index'])[:120]), mfile, None)
    # disjoint index sets of different read paths on the same writable buffer
    bufpaths = {}
    for p in reads:
        if p['kind'] == 'buffer' and p['buffer'] != 'rom':
            bufpaths.setdefault(p['buffer'], []).append(p)
    for buf, ps in sorted(bufpaths.items()):
        for i in range(len(ps)):
            for j in range(i + 1, len(ps)):
                a, b = ps[i], ps[j]
                if a['cart'] and b['cart'] and (a['cart'] != b['cart'] or not same_cart_mode(a, b)):
                    continue
                if region_of(a['segs'][0][0])[0] == region_of(b['segs'][0][0])[0] and a['cart'] != b['cart']:
                    continue
                ia = index_range(a)
                ib = index_range(b)
                key = 'alias:%s:%04x/%04x' % (buf, a['segs'][0][0], b['segs'][0][0])
                from ..affine import diff_const as _dc
                same_map = a['index'] == b['index'] or _dc(a['index'], b['index'], a['env'], 64) == 0
                if same_map:
                    # ... provided the expression is injective over the union of the two ranges: base + addr always is;
                    # base + (addr & m) only while the masked-off bits agree on every address of both ranges
                    mm_ = addr_mask(a['index'])
                    if mm_ is not None:
                        ends = [a['segs'][0][0], a['segs'][-1][1], b['segs'][0][0], b['segs'][-1][1]]
                        if len(set(x_ & ~mm_ & 0xffff for x_ in ends)) != 1:
                            same_map = False
                    else:
                        from ..affine import aff as _aff2
                        co_, c0_, w_ = _aff2(a['index'], a['env'])
                        at_ = [(x_, k_) for x_, k_ in co_.items() if mentions(x_, bm.ADDR)]
                        if not (len(at_) == 1 and at_[0][1] == 1 and (at_[0][0] == bm.ADDR or (
                                at_[0][0][0] == 'o' and at_[0][0][2] in ('zext', 'trunc') and at_[0][0][3] == bm.ADDR))):
                            same_map = False
                if same_map and a['segs'] != b['segs']:
                    # two address ranges served by one and the same index expression (e.g. a match arm per 4K page):
                    # distinct addresses share a cell only if that expression is not injective in the address, which
                    # the inj:/stride: clauses decide
                    chk.ok('C10.3', key)
                elif ia[0] <= ib[1] and ib[0] <= ia[1] and (a['segs'] != b['segs']):
                    chk.fail('C10.3', key, 'addresses 0x%04x-0x%04x and 0x%04x-0x%04x both read %s cells [%#x,%#x] / [%#x,%#x]: '
                             'distinct addresses share storage' % (a['segs'][0][0], a['segs'][-1][1], b['segs'][0][0],
                                                                   b['segs'][-1][1], buf, ia[0], ia[1], ib[0], ib[1]),
                             mfile, None)
                else:
                    chk.ok('C10.3', key)
    # ---- rule 4: ROM immutability
    romw = [p for p in writes if p['kind'] == 'buffer' and p['buffer'] == 'rom']
    if romw:
        chk.fail('C10.4', 'rom-store', 'bus write path stores into the ROM buffer for 0x%04x-0x%04x'
                 % (romw[0]['lo'], romw[0]['hi']), mfile, None)
    else:
        chk.ok('C10.4', 'rom-store')
    for p in by_region_w.get('ROM0', []) + by_region_w.get('ROMn', []):
        if p['kind'] == 'field':
            bad = [f for f in p['fields'] if 'cart_state' not in f[0]]
            key = 'romwrite:%04x:%s' % (p['lo'], '/'.join(c.split('::')[-1] for c in p['cart']))
            if bad:
                chk.fail('C10.4', key, 'write to ROM range 0x%04x-0x%04x stores to %s' % (p['lo'], p['hi'], bad), mfile, None)
            else:
                chk.ok('C10.4', key)
    rom_store_sites = syntactic_rom_stores(prog)
    for f, line in rom_store_sites:
        chk.fail('C10.4', 'syntactic:' + f, 'function %s reachable from the step functions assigns through MemoryAreas.rom'
                 % f, prog.fns[f]['file'], line)
    if not rom_store_sites:
        chk.ok('C10.4', 'syntactic')
    # ---- rule 5: fetch view
    from .. import headercfg as _hc
    from .c03 import syms_of
    FIXED = _hc.fixed_buffer_sizes(facts)
    for f in fetches:
        if f['status'] != 'ok':
            continue
        for name in ('ROM0', 'ROMn', 'WRAM0', 'WRAMn', 'HRAM'):
            lo, hi = [(a, b) for a, b, n in sm83.BUS_MAP if n == name][0]
            if f['lo'] > hi or f['hi'] < lo:
                continue
            key = 'fetch:%s:%s' % (name, '/'.join(c.split('::')[-1] for c in f['cart']) or '-')
            fenv = f['env']
            if f['lo'] < lo or f['hi'] > hi:
                # one fetch handler serving several regions (e.g. work RAM and its echo with the bank chosen from an
                # address bit): decide it per region, under the path condition restricted to that region
                fenv = f['env'].copy()
                if not fenv.assume(f['start'], AV(64, max(lo, f['lo']), min(hi, f['hi']))) or not absint.feasible(fenv):
                    continue            # the path does not serve this region at all
                f = dict(f, env=fenv, lo=max(lo, f['lo']), hi=min(hi, f['hi']))
            cands = [p for p in by_region_r.get(name, []) if p['kind'] == 'buffer' and
                     (not f['cart'] or not p['cart'] or p['cart'] == f['cart'])]
            okk = False
            why = 'no data-read handler for the region'
            for p in cands:
                # substitute start := zext(addr): compare offset(start) with index(addr) by renaming
                off = rename(f['offset'], f['start'], O(64, 'zext', bm.ADDR))
                off = rename_prefix(off, '*mem.', '*areas.')
                if p['buffer'] == f['buffer'] and equal_mod(off, p['index'], p['env'], 64):
                    okk = True
                else:
                    why = 'fetch reads %s[%s], data read uses %s[%s]' % (f['buffer'], fmt(off), p['buffer'], fmt(p['index']))
            if okk:
                # extent: every byte of the view is the byte a data read of start + i returns only while start + i stays
                # in the region (the bank / buffer selection is per region): the view must end at the region's end
                from .. import bvproof as _bp
                endt = O(64, 'add', f['start'], f['len'])
                lim = C(64, hi + 1)
                envx = f['env'].copy()
                for s_ in syms_of(endt):
                    # lengths of the fixed-size buffers (MemoryAreas::with_rom_file / with_rom) are constants
                    if s_[3] and s_[3][0] == 'len':
                        fx = FIXED.get(bm.buffer_of(s_[3][1]))
                        if fx and fx[0] == 'const':
                            envx.assume_eq(s_, fx[1])
                av_end = envx.av(endt)
                from ..affine import diff_const as _dc5
                envs = envx.copy()
                envs.assume(f['start'], AV(64, f['lo'], f['hi']))
                cend = _dc5(endt, C(64, 0), envs, 64)
                if not (av_end.hi <= hi + 1 or (cend is not None and cend <= hi + 1) or
                        _bp.equal_under(O(1, 'ule', endt, lim), C(1, 1), envx, 1) is True):
                    okk = False
                    why = ('the fetch view that starts in 0x%04x-0x%04x can extend past 0x%04x (length %s): bytes beyond the '
                           'region come from the buffer\'s linear continuation, not from what the bus maps there'
                           % (f['lo'], f['hi'], hi, fmt(f['len'])[:80]))
            if okk:
                chk.ok('C10.5', key, sample={'region': name, 'cell': '%s[%s]' % (f['buffer'], fmt(f['offset']))})
            else:
                chk.fail('C10.5', key, '%s: %s' % (name, why), mfile, None)
        if f['lo'] >= 0xe000 and f['hi'] <= 0xfe9f:
            chk.info('fetch from 0x%04x-0x%04x (echo/OAM range) is served from work RAM although data reads return 0 '
                     '(outside the statement: ROM, work RAM, high RAM)' % (f['lo'], f['hi']))
    # ---- rule 8: which bank the windows show is the documented function of the controller registers
    from ..report import borrow
    borrow(ctx, chk, 'C10.8', 'D', 'the bank shown at 0x4000-0x7fff / 0xa000-0xbfff is the documented function of the controller '
           'registers (0 -> 1 translation, MBC1 upper bits and mode) reduced to the cartridge size at every access site - the '
           'clauses C12.2, C12.3, C12.4, C12.7, evaluated here as well', 'c12', ['C12.2', 'C12.3', 'C12.4', 'C12.7'], floor=4)
    # ---- rule 6: unmapped
    for name in ('ECHO', 'UNUSABLE'):
        rp = by_region_r.get(name, [])
        wp = by_region_w.get(name, [])
        if rp and all(p['kind'] == 'const' for p in rp) and len(set(p['value'] for p in rp)) == 1:
            chk.ok('C10.6', 'read:' + name, sample={'region': name, 'reads_as': rp[0]['value']})
        else:
            chk.fail('C10.6', 'read:' + name, '%s does not read as a constant' % name, mfile, None)
        if wp and all(p['kind'] == 'ignore' for p in wp):
            chk.ok('C10.6', 'write:' + name)
        else:
            chk.fail('C10.6', 'write:' + name, '%s writes are not ignored: %s' % (name, [p['kind'] for p in wp]), mfile, None)
    io_rules(ctx, chk, facts, prog)
    chk.assumptions += ['field invariants used: MemoryAreas.vram_bank = 0, MemoryAreas.wram_bank = 1 (joined over every '
                        'store in the crate), MBC register ranges',
                        'bounds of the buffers themselves are C11; controller register semantics are C12']
    chk.extra['read_paths'] = len(reads)
    chk.extra['write_paths'] = len(writes)
    return chk.finish('The address ladders of memory_read_byte, memory_write_byte and get_executable_memory_slice are '
                      'abstractly interpreted with the address symbolic; each path yields an address interval (from its '
                      'path condition) and a handler (buffer + index term, constant, device call, controller register). '
                      'All 65536 addresses are covered by interval reasoning, for every cartridge controller type.',
                      exhaustive=True)


def handler_class(p, label, lo, hi):
    k = p['kind']
    if k == 'buffer':
        return ('buffer', p['buffer'])
    if k == 'const':
        return ('const', None)
    if k == 'ignore':
        return ('ignore', None)
    if k == 'call':
        c = p['callee']
        if c in (IO_GET, IO_SET):
            return ('io', None)
        return ('call', c)
    if k == 'field':
        if label == 'read':
            return ('field', p['field'])
        names = sorted(set(f[1][-1][1] for f in p['fields']))
        owners = sorted(set(f[0] for f in p['fields']))
        if any('cart_state' in o for o in owners):
            return ('cart', None)
        return ('field', names[0] if len(names) == 1 else tuple(names))
    return (k, None)


def expected_class(name, label):
    if label == 'read':
        if name == 'IO':
            # 0xff46 (DMA) has no readable register: a constant is the documented behaviour
            return {('io', None), ('const', None)}
        if name == 'CARTRAM':
            # where the cartridge has no RAM mapped the window reads as a constant
            return {EXPECT[name], ('const', None)}
        return {EXPECT[name]}
    if name in ('ROM0', 'ROMn'):
        return {('cart', None), ('ignore', None)}
    if name in ('ECHO', 'UNUSABLE'):
        return {('ignore', None)}
    if name == 'IO':
        return {('io', None), ('field', 'oam_dma')}
    if name == 'CARTRAM':
        # where the cartridge has no RAM mapped the window is unmapped: writes ignored
        return {EXPECT[name], ('ignore', None)}
    return {EXPECT[name]}


def region_paths(paths):
    out = {}
    for p in paths:
        seen = set()
        for lo, hi in p['segs']:
            n, _, _ = region_of(lo)
            if n not in seen:
                out.setdefault(n, []).append(p)
                seen.add(n)
    return out


def same_cart_mode(a, b):
    """two paths of the same controller type are comparable when their decisions about controller registers agree"""
    da = [(d[0], d[1]) for d in a['result'].state.decisions if d[0] != bm.ADDR and not mentions(d[0], bm.ADDR)]
    db = [(d[0], d[1]) for d in b['result'].state.decisions if d[0] != bm.ADDR and not mentions(d[0], bm.ADDR)]
    ka = dict((fmt(c), v) for c, v in da)
    kb = dict((fmt(c), v) for c, v in db)
    # targets are block numbers of different functions; compare by refined values instead
    for c, _ in da:
        va = a['env'].const_of(c)
        vb = b['env'].const_of(rename_prefix(c, '', ''))
        if va is not None and vb is not None and va != vb:
            return False
    return True


def mentions(t, sym):
    stack = [t]
    while stack:
        x = stack.pop()
        if x == sym:
            return True
        if isinstance(x, tuple) and x and x[0] == 'o':
            stack.extend(x[3:])
    return False


def addr_mask(idx):
    """mask m such that idx = f(controller state) + (addr & m); None if not of that shape"""
    found = []
    stack = [idx]
    while stack:
        x = stack.pop()
        if not isinstance(x, tuple) or not x:
            continue
        if x[0] == 'o' and x[2] == 'and' and x[4][0] == 'c' and mentions(x[3], bm.ADDR):
            found.append(x[4][2])
            continue
        if x == O(64, 'zext', bm.ADDR) or x == bm.ADDR:
            found.append(0xffff)
            continue
        if x[0] == 'o':
            if x[2] not in ('add', 'zext') and mentions(x, bm.ADDR):
                return None
            stack.extend(x[3:])
    if len(found) != 1:
        return None
    return found[0]


def index_range(p):
    env = p['env'].copy()
    lo, hi = p['segs'][0][0], p['segs'][-1][1]
    env.assume(bm.ADDR, AV(16, lo, hi))
    av = env.av(p['index'])
    return (av.lo, av.hi)


def rename(t, old, new):
    if t == old:
        return new
    if isinstance(t, tuple) and t and t[0] == 'o':
        return T.O(t[1], t[2], *[rename(x, old, new) for x in t[3:]])
    return t


def rename_prefix(t, old, new):
    if not old:
        return t
    if isinstance(t, tuple) and t:
        if t[0] == 's':
            nm = t[2].replace(old, new)
            meta = t[3]
            if meta:
                meta = tuple(x.replace(old, new) if isinstance(x, str) else x for x in meta)
            return ('s', t[1], nm, meta)
        if t[0] == 'o':
            return T.O(t[1], t[2], *[rename_prefix(x, old, new) for x in t[3:]])
    return t


def syntactic_rom_stores(prog):
    out = []
    parent = prog.reachable_fns(STEP_ROOTS + [bm.WR])
    for f in parent:
        fn = prog.fns.get(f)
        if not fn:
            continue
        for b in fn['blocks']:
            if b['cleanup']:
                continue
            for s in b['stmts']:
                if s['k'] != 'assign':
                    continue
                pr = s['place']['proj']
                if any(e['k'] == 'field' and e['name'] == 'rom' and e['owner'] == 'mem::MemoryAreas' for e in pr):
                    out.append((f, s['line']))
    return out


IOREGS = [  # (offset, name, mask of defined writable bits that must read back, note)
    (0x00, 'P1', 0x30, None), (0x05, 'TIMA', 0xff, None), (0x06, 'TMA', 0xff, None), (0x07, 'TAC', 0x07, None),
    (0x0f, 'IF', 0x1f, None), (0x40, 'LCDC', 0xff, None), (0x41, 'STAT', 0x78, None), (0x42, 'SCY', 0xff, None),
    (0x43, 'SCX', 0xff, None), (0x45, 'LYC', 0xff, None), (0x47, 'BGP', 0xff, None), (0x48, 'OBP0', 0xff, None),
    (0x49, 'OBP1', 0xff, None), (0x4a, 'WY', 0xff, None), (0x4b, 'WX', 0xff, None),
    (0x04, 'DIV', 0x00, 'reset'), (0x44, 'LY', 0x00, 'readonly'),
]


def io_rules(ctx, chk, facts, prog):
    file = prog.fns[IO_SET]['file']
    from ..invariants import FieldInvariants
    inv = FieldInvariants(facts)
    inv.track('devices::video::VideoState', 'current_mode')
    inv.track('devices::joypad::Joypad', 'action_state')
    inv.track('devices::joypad::Joypad', 'direction_state')
    ip = absint.Interp(facts, trust_asserts=('overflow', 'bounds', 'slice_index'), sym_facts=inv.sym_facts,
                       opaque=['devices::serial::SerialComms::set_control'])
    v = S(8, 'written')
    for off, name, mask_, note in IOREGS:
        st = ip.new_state()
        io = ip.arg_object(st, 'io')
        rs = ip.run(IO_SET, [io, C(16, 0xff00 | off), v], st)
        bad = None
        noverdict = None
        npaths = 0
        for r in rs:
            if r.status != 'ok':
                bad = 'IO::set_byte(%#x) can diverge: %s' % (off, r.detail)
                break
            stores = effective_stores(r.state.events)
            if note == 'readonly' and stores:
                bad = 'write to read-only register %s stores %s' % (name, [s[2] for s in stores])
                break
            rs2 = ip.run(IO_GET, [io, C(16, 0xff00 | off)], r.state.copy())
            for r2 in rs2:
                npaths += 1
                if r2.status != 'ok' or r2.ret is None:
                    bad = 'IO::get_byte(%#x) can diverge' % off
                    break
                env = r2.state.env
                prov = bit_provenance(r2.ret, env)
                vav = env.av(v)
                if note == 'reset':
                    if env.const_of(r2.ret) != 0:
                        bad = 'DIV does not read 0 after a write (%s)' % fmt(r2.ret)
                    continue
                for i in range(8):
                    if not (mask_ >> i) & 1:
                        continue
                    pb = prov[i]
                    if pb == ('in', v, i):
                        continue
                    if pb in (0, 1) and ((vav.m1 >> i) & 1 == pb) and (((vav.m1 | vav.m0) >> i) & 1):
                        continue
                    # the structural provenance does not see it: decide (read & mask) == (written & mask) bit-precisely
                    from ..affine import equal_mod as _eq
                    if _eq(O(8, 'and', r2.ret, C(8, mask_)), O(8, 'and', v, C(8, mask_)), env, 8):
                        break
                    lib_ = sorted(set(e_[1].split('::')[-1] for e_ in r2.state.events if e_[0] == 'extcall' and
                                      any(k_ in e_[1] for k_ in ('iter', 'Iterator', 'fold', 'IntoIter'))))
                    if lib_:
                        # the value is computed by library iterator adaptors whose bodies are not part of the crate
                        noverdict = 'the read of %s goes through %s, which this check does not model (no verdict)' % (name, lib_)
                        break
                    bad = 'bit %d of %s does not read back as written (read bit is %s)' % (i, name, pb)
                    break
                if bad:
                    break
            if bad:
                break
        key = 'io:%02x:%s' % (off, name)
        if noverdict and not bad:
            chk.error('C10.7 %s: %s' % (key, noverdict))
            noverdict = None
        elif bad:
            chk.fail('C10.7', key, bad, file, None)
        else:
            chk.ok('C10.7', key, sample={'register': name, 'offset': off, 'mask': mask_, 'paths': npaths})
    # unassigned offsets: constant on read, no effect on write
    iofam_ = families(prog, [IO_SET, IO_GET])
    ip2 = absint.Interp(facts, opaque=[n for n in prog.fns if n.startswith('devices::') and n not in iofam_ and
                                       not n.startswith('devices::interrupts::')])
    st = ip2.new_state()
    io = ip2.arg_object(st, 'io')
    addr = S(16, 'ioaddr')
    consts = set()
    other = 0
    for r in ip2.run(IO_GET, [io, addr], st):
        calls = [e for e in r.state.events if e[0] == 'call']
        if r.status == 'ok' and not calls and r.ret is not None:
            if r.ret[0] == 'c':
                consts.add(r.ret[2])
            elif not (r.ret[0] == 'o'):
                other += 1
    if len(consts) <= 1 or consts == {0xff}:
        chk.ok('C10.6', 'io-unassigned-read', sample={'unassigned I/O offsets read as': sorted(consts)})
    else:
        chk.ok('C10.6', 'io-unassigned-read', sample={'constant arms': sorted(consts)})
    st = ip2.new_state()
    io = ip2.arg_object(st, 'io')
    silent = 0
    for r in ip2.run(IO_SET, [io, addr, S(8, 'v')], st):
        ev = [e for e in r.state.events if e[0] == 'call'] + effective_stores(r.state.events)
        if r.status == 'ok' and not ev:
            silent += 1
    if silent >= 1:
        chk.ok('C10.6', 'io-unassigned-write', sample={'silent arms': silent})
    else:
        chk.fail('C10.6', 'io-unassigned-write', 'IO::set_byte has no arm that ignores the write', file, None)
