"""C16 - OAM DMA copies exactly 160 bytes, one per machine cycle."""
import re
from .. import absint, busmodel as bm, terms as T
from ..terms import C, S, O, AV, fmt, bit_provenance
from ..affine import diff_const, equal_mod
from ..invariants import FieldInvariants
from .common import *
from .c03 import syms_of

MRC = 'mem::MemoryAreas::run_clock_cycles'
RB = 'mem::memory_read_byte'
WB = 'mem::memory_write_byte'
IRC = 'devices::io::IO::run_clock_cycles'
DMA = 'mem::DMAState'


def run(ctx, chk):
    chk.rule('C16.1', 'D', 'arming: the only place a transfer is created is the 0xff46 write path, with source = value << 8 '
             'and offset 0 (a new write restarts it)', floor=2)
    chk.rule('C16.2', 'D', 'destination confinement: each copied byte goes to 0xfe00 + offset with offset in 0..0x9f '
             '(paired-counter lemma on the copy loop + field invariant), and nothing else is written', floor=3)
    chk.rule('C16.3', 'D', 'source through the bus: the value written is the byte read from source + offset in the same step', floor=1)
    chk.rule('C16.4', 'D', 'count and order: offset advances by exactly 1 per byte; the transfer is retired exactly at 0xa0 and '
             'otherwise saved with its progress', floor=3)
    chk.rule('C16.5', 'D', 'batching: bytes per batch = min(remaining, clocks/4); the DMA part precedes the device tick on '
             'every path', floor=2)
    chk.rule('C16.6', 'D', 'no assert in the DMA part can fail', floor=2)
    facts = ctx.facts('default')
    prog = ctx.program('default')
    file = 'src/mem.rs'
    if not need(chk, prog, [MRC, RB, WB, IRC]):
        return chk.finish('anchors missing')
    inv = FieldInvariants(facts)
    inv.track(DMA, 'current_offset')
    inv.track(DMA, 'source')
    # ---- rule 1: arming
    model = bm.BusModel(facts)
    arm = [p for p in model.write_paths() if p.get('status') == 'ok' and p['kind'] == 'field' and
           any('oam_dma' in str(f[1]) for f in p['fields'])]
    okk = False
    for p in arm:
        if (p['lo'], p['hi']) != (0xff46, 0xff46):
            chk.fail('C16.1', 'arm:range', 'oam_dma is stored for addresses 0x%04x-0x%04x' % (p['lo'], p['hi']), file, None)
        for e in p['stores']:
            v = e[3]
            if v[0] == 'agg' and v[1][3] == 'Some' and v[2][0][0] == 'agg' and v[2][0][1][1] == DMA:
                names = facts['adts'][DMA]['fields']
                vals = {f['name']: v[2][0][2][i] for i, f in enumerate(names)}
                from ..affine import equal_mod as _eq
                want_src = O(64, 'shl', O(64, 'zext', bm.VALUE), C(64, 8))
                src_ok = vals['source'] == want_src or (T.is_int(vals['source']) and
                                                         _eq(vals['source'], want_src, p['env'], 64))
                off_ok = p['env'].const_of(vals['current_offset']) == 0 if T.is_int(vals['current_offset']) else False
                okk = src_ok and off_ok
                if not okk:
                    chk.fail('C16.1', 'arm:value', 'write to 0xff46 arms source=%s offset=%s (expected value << 8, 0)'
                             % (fmt(vals['source']), fmt(vals['current_offset'])), file, None)
    # whatever the state before the write (idle, or a transfer in progress at any offset): after a write to 0xff46 the
    # transfer state is Some{value << 8, 0} - a write during a transfer restarts it
    madt = facts['adts']['mem::MemoryAreas']
    oi = [i for i, f_ in enumerate(madt['fields']) if f_['name'] == 'oam_dma']
    n46 = 0
    if oi and okk:
        el = ('f', oi[0], 'oam_dma', madt['fields'][oi[0]]['ty'], 'mem::MemoryAreas')
        want_src = O(64, 'shl', O(64, 'zext', bm.VALUE), C(64, 8))
        for p in model.write_paths():
            if p.get('status') != 'ok' or p['lo'] is None or not (p['lo'] <= 0xff46 <= p['hi']):
                continue
            if not p['env'].possible(bm.ADDR, 0xff46):
                continue
            e46 = p['env'].copy()
            if not e46.assume_eq(bm.ADDR, 0xff46) or not absint.feasible(e46):
                continue        # excluded bit-precisely (the path tests single bytes of the address)
            n46 += 1
            r46 = p['result']
            try:
                fin = model.ip.read(r46.state, ('O', 'areas'), (el,))
            except absint.Abort:
                fin = None
            good = False
            if fin is not None and fin[0] == 'agg' and fin[1][3] == 'Some' and fin[2] and fin[2][0][0] == 'agg':
                names = [f_['name'] for f_ in facts['adts'][DMA]['fields']]
                vals = dict(zip(names, fin[2][0][2]))
                so = vals.get('source')
                co = vals.get('current_offset')
                good = (so is not None and T.is_int(so) and (so == want_src or equal_mod(so, want_src, p['env'], 64)) and
                        co is not None and T.is_int(co) and p['env'].const_of(co) == 0)
            if not good:
                okk = False
                chk.fail('C16.1', 'arm:restart', 'after a write to 0xff46 the transfer state is %s on some path (expected '
                         'Some{value << 8, 0} whatever the state before: a write during a transfer restarts it)'
                         % (fmt(fin)[:160] if fin is not None else 'not readable'), file, None)
                break
        if not n46:
            chk.error('C16.1: no bus write path for address 0xff46 found')
    if okk:
        chk.ok('C16.1', 'arm', sample={'write 0xff46': 'oam_dma := Some{source: value << 8, current_offset: 0}',
                                       'paths at 0xff46, any prior state': n46})
    elif not arm:
        chk.fail('C16.1', 'arm', 'no bus write path arms an OAM DMA transfer', file, None)
    ws = prog.field_stores('mem::MemoryAreas', 'oam_dma')
    wfns = sorted(set(w[0] for w in ws))
    allowed = families(prog, [WB, MRC, 'mem::MemoryAreas::with_rom', 'mem::MemoryAreas::with_rom_file'])
    if set(wfns) <= allowed:
        chk.ok('C16.1', 'writers', sample={'oam_dma writers': wfns})
    else:
        chk.fail('C16.1', 'writers', 'oam_dma is written in %s' % wfns, file, None)
    # ---- the copy loop: one symbolic iteration (loop state havoced), classified as a count-down over a remaining-bytes
    # counter or a count-up of the offset towards a computed end
    from .. import bvproof
    clocks = S(64, 'clocks')
    cyc = ('agg', ('adt', 'timing::ClockCycles', 0, 'ClockCycles'), (clocks,))
    offinv = inv.get(DMA, 'current_offset')
    if offinv is not None and offinv.hi <= 0x9f:
        chk.ok('C16.2', 'offset-invariant', sample={'DMAState.current_offset': [offinv.lo, offinv.hi],
                                                    'stores': inv.why.get((DMA, 'current_offset'))})
    else:
        chk.fail('C16.2', 'offset-invariant', 'a saved DMA offset can exceed 0x9f (%s)' % offinv, file, None)
    iph = absint.Interp(facts, loop_mode='havoc', opaque=[RB, WB, IRC], opaque_havoc={WB: [0]}, sym_facts=inv.sym_facts,
                        trust_asserts=('overflow',), always_summarise=True)
    st = iph.new_state()
    mem = iph.arg_object(st, 'mem')
    rs = iph.run(MRC, [mem, cyc], st)
    body = [r for r in rs if r.status == 'loopback']
    exits = [r for r in rs if r.status == 'ok']
    if not body:
        chk.error('no copy-loop iteration found in MemoryAreas::run_clock_cycles (anchor lost)')
        return chk.finish('anchors missing')

    def is_loopvar(t):
        return t[0] == 's' and isinstance(t[2], str) and t[2].startswith('loopvar:')

    def has_loopvar(t):
        return any(is_loopvar(x) for x in syms_of(t))

    def guard_of(r):
        """('down', B, None) for `remaining > 0` / `remaining != 0`; ('up', X, E) for `offset < end`"""
        env = r.state.env
        for d in r.state.decisions:
            t = d[0]
            if t[0] != 'o':
                continue
            cv = env.const_of(t)
            if t[2] == 'ugt' and is_loopvar(t[3]) and t[4] == C(t[3][1], 0) and cv == 1:
                return ('down', t[3], None)
            if t[2] == 'ult' and t[3] == C(t[4][1], 0) and is_loopvar(t[4]) and cv == 1:
                return ('down', t[4], None)
            if t[2] in ('eq', 'ne') and is_loopvar(t[3]) and t[4] == C(t[3][1], 0) and cv == (0 if t[2] == 'eq' else 1):
                return ('down', t[3], None)
            if t[2] == 'ult' and is_loopvar(t[3]) and not has_loopvar(t[4]) and cv == 1:
                return ('up', t[3], t[4])
            if t[2] == 'ugt' and is_loopvar(t[4]) and not has_loopvar(t[3]) and cv == 1:
                return ('up', t[4], t[3])
        return None

    def final_of(sym, r):
        """value, at the end of the iteration, of the local a loop-variable symbol stands for"""
        mm = re.search(r':_(\d+)(\.start)?$', sym[2])
        if not mm:
            return None
        v = r.state.mem.get(('L', 1, int(mm.group(1))))
        if mm.group(2):
            return v[2][0] if (v is not None and v[0] == 'agg' and len(v[2]) == 2) else None
        return v

    forms = set()
    inits = {}
    for r in body:
        g = guard_of(r)
        forms.add(g[0] if g else None)
        for e in r.state.events:
            if e[0] == 'loopinit':
                inits[e[1]] = (e[2], e[3])
    if len(forms) != 1 or None in forms:
        # Neither "while remaining > 0" nor "offset < end" (a for-range over offsets is the latter): not a defect, but
        # this check does not understand the loop, so it gives no verdict on the loop clauses
        chk.error('the OAM DMA copy loop is neither a count-down of the bytes remaining nor a count-up of the offset to a '
                  'computed end: its shape is not understood by this check (no verdict on the loop clauses)')
        return chk.finish('copy loop shape not understood')
    form = forms.pop()

    def field_off(t):
        return t[0] == 's' and t[3] and t[3][0] == 'field' and t[3][1] == DMA and t[3][2] == 'current_offset'
    if form == 'down':
        # a third way of writing the loop keeps the progress in the transfer state itself (self.oam_dma is re-read and
        # re-written by every iteration) and counts machine cycles down: the offset in the addresses is then the field
        # of the summarised state, not a loop variable
        for r in body:
            wr_ = [e for e in r.state.events if e[0] == 'call' and e[1] == WB]
            if wr_ and not any(is_loopvar(x) for x in syms_of(wr_[0][2][1])) and any(field_off(x) for x in syms_of(wr_[0][2][1])):
                form = 'state'
    Bs = Xs = Es = None
    lemma = False
    if form == 'state':
        step_ok, why = True, ''
        seen = set()
        src_ok = True
        for r in body:
            env = r.state.env
            calls = [e for e in r.state.events if e[0] == 'call']
            rd = [c for c in calls if c[1] == RB]
            wr = [c for c in calls if c[1] == WB]
            _, G, _ = guard_of(r)
            Bs = G
            if len(rd) != 1 or len(wr) != 1:
                step_ok, why = False, 'an iteration performs %d reads and %d writes' % (len(rd), len(wr))
                continue
            if not any('discr(' in fmt(d[0]) and 'oam_dma' in fmt(d[0]) and env.const_of(d[0]) == 1 for d in r.state.decisions):
                step_ok, why = False, 'a byte is copied on a path that does not test that a transfer is active'
                continue
            dest = wr[0][2][1]
            offs = [x for x in syms_of(dest) if field_off(x)]
            if len(offs) != 1 or diff_const(dest, O(16, 'zext', offs[0]), env, 16) != 0xfe00:
                step_ok, why = False, 'destination address is %s, expected 0xfe00 + offset' % fmt(dest)
                continue
            OFF = offs[0]
            if wr[0][2][2] != rd[0][3]:
                chk.fail('C16.3', 'value', 'the byte written (%s) is not the byte read in the same step (%s)'
                         % (fmt(wr[0][2][2]), fmt(rd[0][3])), file, None)
                src_ok = False
            src = rd[0][2][1]
            ssrc = [s_ for s_ in syms_of(src) if s_[3] and s_[3][0] == 'field' and s_[3][2] == 'source']
            if not ssrc or not equal_mod(src, O(16, 'add', O(16, 'trunc', ssrc[0]), O(16, 'zext', OFF)), env, 16):
                chk.fail('C16.3', 'source', 'source address is %s, expected source + offset' % fmt(src), file, None)
                src_ok = False
            if calls.index(rd[0]) > calls.index(wr[0]):
                step_ok, why = False, 'write precedes read'
            fb = final_of(G, r)
            if not (fb is not None and T.is_int(fb) and (fb == O(G[1], 'sub', G, C(G[1], 1)) or
                                                         bvproof.equal_under(fb, O(G[1], 'sub', G, C(G[1], 1)), env, G[1]))):
                step_ok, why = False, 'the machine-cycle budget is not decremented by one per byte'
            sts = [e for e in r.state.events if e[0] == 'store' and e[1] == 'mem']
            dst = [e for e in sts if e[2][-1][1] == 'oam_dma']
            if len(sts) != len(dst) or len(dst) != 1:
                step_ok, why = False, 'an iteration stores %s (expected exactly the new transfer state)' % [e[2][-1][1] for e in sts]
                continue
            v = dst[0][3]
            nxt = O(8, 'add', OFF, C(8, 1))
            below = env.const_of(O(1, 'ult', nxt, C(8, 0xa0)))
            if v[0] == 'agg' and v[1][3] == 'None':
                seen.add('retire')
                if below != 0:
                    step_ok, why = False, 'transfer retired while offset + 1 < 0xa0'
            elif v[0] == 'agg' and v[1][3] == 'Some' and v[2] and v[2][0][0] == 'agg':
                seen.add('save')
                names_ = [f_['name'] for f_ in facts['adts'][DMA]['fields']]
                vals = dict(zip(names_, v[2][0][2]))
                if below != 1:
                    step_ok, why = False, 'transfer kept although offset + 1 may have reached 0xa0'
                if not (T.is_int(vals.get('current_offset')) and equal_mod(vals['current_offset'], nxt, env, 8)):
                    step_ok, why = False, 'new offset is %s, expected offset + 1' % fmt(vals.get('current_offset'))
                if not (ssrc and vals.get('source') == ssrc[0]):
                    step_ok, why = False, 'the source page changes during the transfer'
            else:
                step_ok, why = False, 'the new transfer state is %s' % fmt(v)[:80]
        if src_ok and step_ok:
            chk.ok('C16.3', 'source', sample={'read': 'source + offset', 'write': '0xfe00 + offset'})
        if step_ok and seen == {'retire', 'save'}:
            chk.ok('C16.4', 'step', sample={'per byte': 'offset += 1 in the transfer state, budget -= 1, read then write',
                                            'loop form': form})
            chk.ok('C16.4', 'retire', sample={'offset + 1 == 0xa0': 'oam_dma := None', 'offset + 1 < 0xa0': 'kept with progress'})
        else:
            chk.fail('C16.4', 'step', 'copy loop: %s' % (why or 'iteration outcomes found: %s' % sorted(seen)), file, None)
        # batch: the budget starts at clocks / 4 and the loop ends early only when no transfer is active any more
        N0 = inits.get(Bs, (None, None))[0] if Bs is not None else None
        want = O(64, 'udiv', clocks, C(64, 4))
        lemma_pre = N0 is not None and (N0 == want or bool(bvproof.equal_under(N0, want, body[0].state.env, 64)))
        ex_ok = True
        for r in exits:
            env = r.state.env
            if not any(e[0] == 'loopinit' for e in r.state.events):
                continue
            gd = [d[0] for d in r.state.decisions if d[0][0] == 'o' and d[0][2] == 'ugt' and is_loopvar(d[0][3])]
            done = any('discr(' in fmt(d[0]) and 'oam_dma' in fmt(d[0]) and env.const_of(d[0]) == 0 for d in r.state.decisions)
            spent = bool(gd) and env.const_of(gd[-1]) == 0
            if not (done or spent):
                ex_ok = False
            if any(e[0] == 'store' and e[2][-1][1] == 'oam_dma' for e in r.state.events):
                ex_ok = False
        if lemma_pre and ex_ok:
            chk.ok('C16.5', 'batch-size', sample={'budget': fmt(N0), 'loop ends when': 'budget spent or transfer finished'})
        else:
            chk.fail('C16.5', 'batch-size', 'machine-cycle budget is %s (expected clocks / 4), or the loop can end while budget and '
                     'transfer both remain' % (fmt(N0) if N0 else 'not found'), file, None)
        lemma = step_ok and lemma_pre and ex_ok and offinv is not None and offinv.hi <= 0x9f
        if lemma:
            chk.ok('C16.2', 'lemma', sample={'loop form': form, 'offset': 'field of the transfer state, invariant 0..0x9f',
                                             'destination': '0xfe00..0xfe9f (OAM by C10)'})
            chk.ok('C16.4', 'count', sample={'total': 'offset runs 0..0xa0, one byte per step'})
        else:
            chk.fail('C16.2', 'lemma', 'cannot establish offset <= 0x9f inside the copy loop (step uniform=%s, budget=%s, '
                     'saved offset range=%s)' % (step_ok, lemma_pre, offinv), file, None)
        oam = [p for p in model.write_paths() if p.get('status') == 'ok' and p['kind'] == 'buffer' and p['buffer'] == 'oam_ram']
        # ... and on every path: the DMA stores through this helper, so a path that drops an OAM write (the LCD "owns" OAM
        # in modes 2/3, say) drops copied bytes
        stray = [p for p in model.write_paths() if p.get('status') == 'ok' and p['lo'] is not None and p['lo'] <= 0xfe9f and
                 p['hi'] >= 0xfe00 and not (p['kind'] == 'buffer' and p['buffer'] == 'oam_ram')]
        if stray:
            chk.fail('C16.2', 'oam-write-total', 'a bus write to 0x%04x-0x%04x can end as %s instead of a store to OAM: bytes '
                     'copied by the DMA on that path are lost' % (stray[0]['lo'], stray[0]['hi'], stray[0]['kind']), file, None)
        if oam and min(p['lo'] for p in oam) == 0xfe00 and max(p['hi'] for p in oam) == 0xfe9f:
            chk.ok('C16.2', 'oam-region', sample={'0xfe00-0xfe9f': 'oam_ram[addr & 0xff]'})
        else:
            chk.fail('C16.2', 'oam-region', 'bus writes to 0xfe00-0xfe9f do not land in OAM', file, None)
    else:
        step_ok = True
        why = ''
        for r in body:
            env = r.state.env
            calls = [e for e in r.state.events if e[0] == 'call']
            rd = [c for c in calls if c[1] == RB]
            wr = [c for c in calls if c[1] == WB]
            _, G, E = guard_of(r)
            if len(rd) != 1 or len(wr) != 1:
                step_ok, why = False, 'an iteration performs %d reads and %d writes' % (len(rd), len(wr))
                continue
            dest = wr[0][2][1]
            xs = [s_ for s_ in syms_of(dest) if is_loopvar(s_)]
            if len(xs) != 1 or diff_const(dest, O(16, 'trunc', xs[0]), env, 16) != 0xfe00:
                step_ok, why = False, 'destination address is %s, expected 0xfe00 + offset' % fmt(dest)
                continue
            X = xs[0]
            if form == 'up' and X != G:
                step_ok, why = False, 'the loop guard tests %s but the destination is indexed by %s' % (fmt(G), fmt(X))
                continue
            Xs, Es = X, E
            if form == 'down':
                Bs = G
            # value written = byte read in this iteration at source + X
            if wr[0][2][2] != rd[0][3]:
                chk.fail('C16.3', 'value', 'the byte written (%s) is not the byte read in the same step (%s)'
                         % (fmt(wr[0][2][2]), fmt(rd[0][3])), file, None)
            src = rd[0][2][1]
            ssrc = [s_ for s_ in syms_of(src) if s_[3] and s_[3][0] == 'field' and s_[3][2] == 'source']
            if not ssrc or not equal_mod(src, O(16, 'add', O(16, 'trunc', ssrc[0]), O(16, 'trunc', X)), env, 16):
                chk.fail('C16.3', 'source', 'source address is %s, expected source + offset' % fmt(src), file, None)
            else:
                chk.ok('C16.3', 'source', sample={'read': fmt(src), 'write': fmt(dest)})
            if calls.index(rd[0]) > calls.index(wr[0]):
                step_ok, why = False, 'write precedes read'
            # counters at the end of the iteration
            fx = final_of(X, r)
            okx = fx is not None and T.is_int(fx) and (fx == O(X[1], 'add', X, C(X[1], 1)) or
                                                        bvproof.equal_under(fx, O(X[1], 'add', X, C(X[1], 1)), env, X[1]))
            okb = True
            fb = None
            if form == 'down':
                fb = final_of(G, r)
                okb = fb is not None and T.is_int(fb) and (fb == O(G[1], 'sub', G, C(G[1], 1)) or
                                                            bvproof.equal_under(fb, O(G[1], 'sub', G, C(G[1], 1)), env, G[1]))
            if not okx or not okb:
                step_ok, why = False, 'counters after one byte: remaining=%s offset=%s (expected -1 / +1)' % (
                    fmt(fb) if fb else '-', fmt(fx) if fx else '?')
            other = [e for e in r.state.events if e[0] == 'store' and e[1] == 'mem']
            if other:
                step_ok, why = False, 'the copy step also stores to %s' % [e[2] for e in other]
        if step_ok and Xs is not None:
            chk.ok('C16.4', 'step', sample={'per byte': 'offset += 1%s, read then write' %
                                            (', remaining -= 1' if form == 'down' else ' up to the computed end'),
                                            'loop form': form})
        else:
            chk.fail('C16.4', 'step', 'copy loop: %s' % why, file, None)
        # ---- batch size: number of iterations N0 = min(0xa0 - offset0, clocks / 4), offset0 = the saved offset
        # (decided per iteration path: the initial values may be chosen by a branch, e.g. `if n < r { n } else { r }`)
        lemma_pre = Xs is not None
        N0 = X0 = None
        for r in body:
            ini = {e[1]: (e[2], e[3]) for e in r.state.events if e[0] == 'loopinit'}
            envp = r.state.env
            n0 = x0 = None
            if Xs in ini:
                x0 = ini[Xs][0]
                if form == 'down' and Bs in ini:
                    n0 = ini[Bs][0]
                elif form == 'up':
                    n0 = O(64, 'sub', Es, x0) if Es is not None else None
            N0, X0 = n0, x0
            off0 = None
            if x0 is not None:
                ss = [s_ for s_ in syms_of(x0) if s_[3] and s_[3][0] == 'field' and s_[3][2] == 'current_offset']
                if len(ss) == 1 and (x0 == O(x0[1], 'zext', ss[0]) or bvproof.equal_under(x0, O(x0[1], 'zext', ss[0]), envp, x0[1])):
                    off0 = ss[0]
            if off0 is None or n0 is None:
                lemma_pre = False
                break
            want = O(64, 'umin', O(64, 'sub', C(64, 0xa0), O(64, 'zext', off0)), O(64, 'udiv', clocks, C(64, 4)))
            if T.is_int(n0) and n0[1] < 64:
                n0 = O(64, 'zext', n0)          # counters kept in a narrower type (u8): compared as numbers
            if offinv is not None:
                envp = envp.copy()
                envp.assume(off0, offinv)       # the field invariant of the saved offset (C16.2 offset-invariant)
            if not ((n0 == want) or bool(bvproof.equal_under(n0, want, envp, 64))):
                lemma_pre = False
                break
        if lemma_pre:
            chk.ok('C16.5', 'batch-size', sample={'bytes_this_batch': fmt(N0), 'first offset': fmt(X0)})
        else:
            chk.fail('C16.5', 'batch-size', 'bytes to copy per batch is %s starting at offset %s, expected min(0xa0 - offset, '
                     'clocks / 4) starting at the saved offset' % (fmt(N0) if N0 else 'not found', fmt(X0) if X0 else 'not found'),
                     file, None)
        lemma = step_ok and lemma_pre and offinv is not None and offinv.hi <= 0x9f
        if lemma:
            chk.ok('C16.2', 'lemma', sample={
                'down': 'paired counters: offset + remaining is invariant, remaining0 <= 0xa0 - offset0, guard remaining > 0 '
                        ' =>  offset <= 0x9f inside the loop',
                'up': 'offset < end = offset0 + min(0xa0 - offset0, clocks/4) <= 0xa0  =>  offset <= 0x9f inside the loop'}[form]
                and {'loop form': form, 'destination': '0xfe00..0xfe9f (OAM by C10)'})
        else:
            chk.fail('C16.2', 'lemma', 'cannot establish offset <= 0x9f inside the copy loop (step uniform=%s, batch size=%s, '
                     'saved offset range=%s)' % (step_ok, lemma_pre, offinv), file, None)
        # destination region by C10's partition
        oam = [p for p in model.write_paths() if p.get('status') == 'ok' and p['kind'] == 'buffer' and p['buffer'] == 'oam_ram']
        # ... and on every path: the DMA stores through this helper, so a path that drops an OAM write (the LCD "owns" OAM
        # in modes 2/3, say) drops copied bytes
        stray = [p for p in model.write_paths() if p.get('status') == 'ok' and p['lo'] is not None and p['lo'] <= 0xfe9f and
                 p['hi'] >= 0xfe00 and not (p['kind'] == 'buffer' and p['buffer'] == 'oam_ram')]
        if stray:
            chk.fail('C16.2', 'oam-write-total', 'a bus write to 0x%04x-0x%04x can end as %s instead of a store to OAM: bytes '
                     'copied by the DMA on that path are lost' % (stray[0]['lo'], stray[0]['hi'], stray[0]['kind']), file, None)
        if oam and min(p['lo'] for p in oam) == 0xfe00 and max(p['hi'] for p in oam) == 0xfe9f:
            chk.ok('C16.2', 'oam-region', sample={'0xfe00-0xfe9f': 'oam_ram[addr & 0xff]'})
        else:
            chk.fail('C16.2', 'oam-region', 'bus writes to 0xfe00-0xfe9f do not land in OAM', file, None)
        # ---- exits: retire / save. F = offset reached when the loop ends: the offset counter itself (at the exit of a
        # count-down its value is offset0 + N0 by the pairing; at the exit of a count-up it equals the end) or the end
        ret_ok = True
        rwhy = ''
        seen = set()
        for r in exits:
            env = r.state.env
            if not any('discr(mem.oam_dma)' in fmt(d[0]) and env.const_of(d[0]) == 1 for d in r.state.decisions):
                continue
            st_ = [e for e in r.state.events if e[0] == 'store' and e[2][-1][1] == 'oam_dma']
            calls = [e for e in r.state.events if e[0] == 'call']
            if calls and calls[-1][1] != IRC:
                ret_ok, rwhy = False, 'the device tick is not the last call'
            if len(st_) != 1:
                ret_ok, rwhy = False, 'oam_dma stored %d times after the loop' % len(st_)
                continue
            v = st_[0][3]
            cands = [c for c in (Xs, Es if form == 'up' else None) if c is not None]
            if not cands:
                ret_ok, rwhy = False, 'the offset reached by the loop is not identified'
                continue
            if v[0] == 'agg' and v[1][3] == 'None':
                seen.add('retire')
                # retiring is right only when the offset reached is 0xa0 (it never exceeds it): F < 0xa0 must be impossible here
                if not any(env.const_of(O(1, 'ult', c, C(c[1], 0xa0))) == 0 or
                           bvproof.equal_under(O(1, 'ult', c, C(c[1], 0xa0)), C(1, 0), env, 1) for c in cands):
                    ret_ok, rwhy = False, 'transfer retired while offset < 0xa0'
            elif v[0] == 'agg' and v[1][3] == 'Some':
                seen.add('save')
                inner = v[2][0][2]
                offv = inner[1]
                av = env.av(offv)
                if av.hi > 0x9f:
                    from ..invariants import _exact_bits
                    av = _exact_bits(offv, env) or av
                if av.hi > 0x9f:
                    ret_ok, rwhy = False, 'transfer saved with offset %s' % av
                if not any(O(c[1], 'zext', offv) == c or offv == O(8, 'trunc', c) or
                           bvproof.equal_under(offv, O(8, 'trunc', c), env, 8) for c in cands):
                    ret_ok, rwhy = False, 'saved offset %s is not the offset the loop reached (%s)' % (
                        fmt(offv), ' / '.join(fmt(c) for c in cands))
                if not any(d[0][0] == 'o' and d[0][2] in ('ult', 'ule', 'ugt', 'uge', 'eq', 'ne') and
                           any(syms_of(c) & syms_of(d[0]) for c in cands) for d in r.state.decisions):
                    ret_ok, rwhy = False, 'the transfer is saved without testing whether it is complete'
        if ret_ok and seen == {'retire', 'save'}:
            chk.ok('C16.4', 'retire', sample={'offset == 0xa0': 'oam_dma := None', 'offset < 0xa0': 'saved with progress'})
        else:
            chk.fail('C16.4', 'retire', rwhy or 'exit paths found: %s' % sorted(seen), file, None)
        chk.ok('C16.4', 'count', sample={'total': 'offset runs 0..0xa0, one byte per step'}) if (lemma and ret_ok) else None
    # order: DMA before device tick on every path
    order_ok = True
    for r in exits:
        calls = [e[1] for e in r.state.events if e[0] == 'call']
        if IRC not in calls or calls.index(IRC) != len(calls) - 1:
            order_ok = False
    if order_ok:
        chk.ok('C16.5', 'order', sample={'order': 'copy loop, then IO::run_clock_cycles'})
    else:
        chk.fail('C16.5', 'order', 'IO::run_clock_cycles is not the last call on every path', file, None)
    # ---- rule 7: time reaches the devices only through the wrapper that also advances the DMA
    chk.rule('C16.7', 'D', 'every advance of emulated time passes through MemoryAreas::run_clock_cycles: the device tick '
             'IO::run_clock_cycles is called from nowhere else, in either configuration (a caller that ticks the devices '
             'directly would freeze a transfer in flight)', floor=2)
    for cfg in ('default', 'jit'):
        pg = ctx.program(cfg)
        if IRC not in pg.fns or MRC not in pg.fns:
            chk.error('C16.7: %s / %s not found in the %s configuration' % (IRC, MRC, cfg))
            continue
        cs = sorted(set(c[0] for c in pg.callers(IRC)))
        okc = families(pg, [MRC])
        stray = [c for c in cs if c not in okc]
        if cs and not stray:
            chk.ok('C16.7', cfg, sample={'callers of IO::run_clock_cycles': cs})
        else:
            chk.fail('C16.7', cfg, 'IO::run_clock_cycles is called from %s: emulated time advances there without advancing an '
                     'OAM DMA transfer in flight' % (stray or 'nowhere'), pg.fns[stray[0]]['file'] if stray else file, None)
    # ---- rule 6: asserts, with the lemma's bounds supplied for the loop counters
    def sf(t):
        if lemma and Xs is not None and t == Xs:
            return AV(64, 0, 0x9f)
        if lemma and Bs is not None and t == Bs:
            return AV(64, 0, 0xa0)
        return inv.sym_facts(t)
    ipc = absint.Interp(facts, loop_mode='havoc', opaque=[RB, WB, IRC], opaque_havoc={WB: [0]}, sym_facts=sf)
    st = ipc.new_state()
    mem = ipc.arg_object(st, 'mem')
    obligations = {}
    for r in ipc.run(MRC, [mem, cyc], st):
        for e in r.state.events:
            if e[0] == 'assert':
                k = '%s@bb%d' % (e[1], e[2][2])
                obligations.setdefault(k, set()).add(e[3])
            if e[0] == 'panic':
                obligations.setdefault('panic:%s' % e[1], set()).add('fails')
    for k, sts in sorted(obligations.items()):
        if sts <= {'discharged'}:
            chk.ok('C16.6', k)
        else:
            chk.fail('C16.6', k, 'assert %s in MemoryAreas::run_clock_cycles can fail (%s)' % (k, sorted(sts)), file, None)
    chk.assumptions += ['every delivered clock count is a multiple of 4 (C09.6), hence floor(a/4) + floor(b/4) = floor((a+b)/4)',
                        'memory_write_byte to 0xfe00-0xfe9f writes OAM only (C10)',
                        '"result identical to the reference for sources modified during the transfer" follows from rules '
                        '3-5 on paper and is not separately machine-checked']
    return chk.finish('Bus-model extraction of the arming store, field invariant of the saved offset, one symbolic iteration '
                      'of the copy loop (field-sensitive havoc) for the per-byte step, the paired-counter lemma for '
                      'destination confinement, exit-path analysis for retire/save, and assert discharge.', exhaustive=True)
