"""C16 - OAM DMA copies exactly 160 bytes, one per machine cycle."""
import re
from .. import absint, busmodel as bm, terms as T
from ..terms import C, S, O, AV, fmt, bit_provenance
from ..affine import diff_const, equal_mod
from ..invariants import FieldInvariants
from .common import *
from .c03 import syms_of

MRC = 'mem::MemoryAreas::run_clock_cycles'
RB = 'mem::memory_read_byte'
WB = 'mem::memory_write_byte'
IRC = 'devices::io::IO::run_clock_cycles'
DMA = 'mem::DMAState'


def run(ctx, chk):
    chk.rule('C16.1', 'D', 'arming: the only place a transfer is created is the 0xff46 write path, with source = value << 8 '
             'and offset 0 (a new write restarts it)', floor=2)
    chk.rule('C16.2', 'D', 'destination confinement: each copied byte goes to 0xfe00 + offset with offset in 0..0x9f '
             '(paired-counter lemma on the copy loop + field invariant), and nothing else is written', floor=3)
    chk.rule('C16.3', 'D', 'source through the bus: the value written is the byte read from source + offset in the same step', floor=1)
    chk.rule('C16.4', 'D', 'count and order: offset advances by exactly 1 per byte; the transfer is retired exactly at 0xa0 and '
             'otherwise saved with its progress', floor=3)
    chk.rule('C16.5', 'D', 'batching: bytes per batch = min(remaining, clocks/4); the DMA part precedes the device tick on '
             'every path', floor=2)
    chk.rule('C16.6', 'D', 'no assert in the DMA part can fail', floor=4)
    facts = ctx.facts('default')
    prog = ctx.program('default')
    file = 'src/mem.rs'
    if not need(chk, prog, [MRC, RB, WB, IRC]):
        return chk.finish('anchors missing')
    inv = FieldInvariants(facts)
    inv.track(DMA, 'current_offset')
    inv.track(DMA, 'source')
    # ---- rule 1: arming
    model = bm.BusModel(facts)
    arm = [p for p in model.write_paths() if p.get('status') == 'ok' and p['kind'] == 'field' and
           any('oam_dma' in str(f[1]) for f in p['fields'])]
    okk = False
    for p in arm:
        if (p['lo'], p['hi']) != (0xff46, 0xff46):
            chk.fail('C16.1', 'arm:range', 'oam_dma is stored for addresses 0x%04x-0x%04x' % (p['lo'], p['hi']), file, None)
        for e in p['stores']:
            v = e[3]
            if v[0] == 'agg' and v[1][3] == 'Some' and v[2][0][0] == 'agg' and v[2][0][1][1] == DMA:
                names = facts['adts'][DMA]['fields']
                vals = {f['name']: v[2][0][2][i] for i, f in enumerate(names)}
                from ..affine import equal_mod as _eq
                want_src = O(64, 'shl', O(64, 'zext', bm.VALUE), C(64, 8))
                src_ok = vals['source'] == want_src or (T.is_int(vals['source']) and
                                                         _eq(vals['source'], want_src, p['env'], 64))
                off_ok = p['env'].const_of(vals['current_offset']) == 0 if T.is_int(vals['current_offset']) else False
                okk = src_ok and off_ok
                if not okk:
                    chk.fail('C16.1', 'arm:value', 'write to 0xff46 arms source=%s offset=%s (expected value << 8, 0)'
                             % (fmt(vals['source']), fmt(vals['current_offset'])), file, None)
    if okk:
        chk.ok('C16.1', 'arm', sample={'write 0xff46': 'oam_dma := Some{source: value << 8, current_offset: 0}'})
    elif not arm:
        chk.fail('C16.1', 'arm', 'no bus write path arms an OAM DMA transfer', file, None)
    ws = prog.field_stores('mem::MemoryAreas', 'oam_dma')
    wfns = sorted(set(w[0] for w in ws))
    allowed = {WB, MRC, 'mem::MemoryAreas::with_rom', 'mem::MemoryAreas::with_rom_file'}
    if set(wfns) <= allowed:
        chk.ok('C16.1', 'writers', sample={'oam_dma writers': wfns})
    else:
        chk.fail('C16.1', 'writers', 'oam_dma is written in %s' % wfns, file, None)
    # ---- pre-loop state
    ipa = absint.Interp(facts, loop_mode='abort', opaque=[RB, WB, IRC], opaque_havoc={WB: [0]}, sym_facts=inv.sym_facts,
                        trust_asserts=('overflow',))
    st = ipa.new_state()
    mem = ipa.arg_object(st, 'mem')
    clocks = S(64, 'clocks')
    cyc = ('agg', ('adt', 'timing::ClockCycles', 0, 'ClockCycles'), (clocks,))
    B0 = None
    for r in ipa.run(MRC, [mem, cyc], st):
        for d in r.state.decisions:
            t = d[0]
            if t[0] == 'o' and t[2] == 'ugt' and t[4] == C(64, 0) and t[3][0] == 'o' and t[3][2] == 'umin':
                B0 = t[3]
                break
        if B0 is not None:
            break
    off0 = None
    lemma_pre = False
    if B0 is not None:
        a, b = B0[3], B0[4]
        for x, y in ((a, b), (b, a)):
            if x[0] == 'o' and x[2] == 'sub' and x[3] == C(64, 0xa0) and y == O(64, 'udiv', clocks, C(64, 4)):
                inner = x[4]
                ss = [s_ for s_ in syms_of(inner) if s_[3] and s_[3][0] == 'field' and s_[3][2] == 'current_offset']
                if ss and inner == O(64, 'zext', ss[0]):
                    off0 = ss[0]
                    lemma_pre = True
    if lemma_pre:
        chk.ok('C16.5', 'batch-size', sample={'bytes_this_batch': fmt(B0)})
    else:
        chk.fail('C16.5', 'batch-size', 'bytes to copy per batch is %s, expected min(0xa0 - offset, clocks / 4)'
                 % (fmt(B0) if B0 else 'not found'), file, None)
    offinv = inv.get(DMA, 'current_offset')
    if offinv is not None and offinv.hi <= 0x9f:
        chk.ok('C16.2', 'offset-invariant', sample={'DMAState.current_offset': [offinv.lo, offinv.hi],
                                                    'stores': inv.why.get((DMA, 'current_offset'))})
    else:
        chk.fail('C16.2', 'offset-invariant', 'a saved DMA offset can exceed 0x9f (%s)' % offinv, file, None)
    # ---- loop body
    iph = absint.Interp(facts, loop_mode='havoc', opaque=[RB, WB, IRC], opaque_havoc={WB: [0]}, sym_facts=inv.sym_facts,
                        trust_asserts=('overflow',))
    st = iph.new_state()
    mem = iph.arg_object(st, 'mem')
    rs = iph.run(MRC, [mem, cyc], st)
    body = [r for r in rs if r.status == 'loopback']
    exits = [r for r in rs if r.status == 'ok']
    if not body:
        chk.error('no copy-loop iteration found in MemoryAreas::run_clock_cycles (anchor lost)')
        return chk.finish('anchors missing')
    countdown = any(d[0][0] == 'o' and d[0][2] == 'ugt' and d[0][3][0] == 's' and d[0][3][2].startswith('loopvar:')
                    for r in body for d in r.state.decisions)
    if not countdown:
        # the rules below understand the copy loop as "remaining = min(0xa0 - offset, clocks / 4); while remaining > 0".
        # Another way of writing the loop (an iterator over offsets, a computed end) is not a defect: no verdict
        chk.error('the OAM DMA copy loop is not written as a count-down over min(0xa0 - offset, clocks / 4): its shape is not '
                  'understood by this check (no verdict on the loop clauses)')
        chk.violations[:] = [v for v in chk.violations if not (v['rule'] == 'C16.5' and v['key'] == 'batch-size')]
        return chk.finish('copy loop shape not understood')
    Bs = Xs = None
    step_ok = True
    why = ''
    for r in body:
        env = r.state.env
        calls = [e for e in r.state.events if e[0] == 'call']
        rd = [c for c in calls if c[1] == RB]
        wr = [c for c in calls if c[1] == WB]
        guard = [d[0] for d in r.state.decisions if d[0][0] == 'o' and d[0][2] == 'ugt' and d[0][3][0] == 's'
                 and d[0][3][2].startswith('loopvar:')]
        if len(rd) != 1 or len(wr) != 1 or not guard:
            step_ok, why = False, 'an iteration performs %d reads and %d writes' % (len(rd), len(wr))
            continue
        B = guard[0][3]
        dest = wr[0][2][1]
        xs = [s_ for s_ in syms_of(dest) if s_[2].startswith('loopvar:')]
        if len(xs) != 1 or diff_const(dest, O(16, 'trunc', xs[0]), env, 16) != 0xfe00:
            step_ok, why = False, 'destination address is %s, expected 0xfe00 + offset' % fmt(dest)
            continue
        X = xs[0]
        Bs, Xs = B, X
        # value written = byte read in this iteration at source + X
        if wr[0][2][2] != rd[0][3]:
            chk.fail('C16.3', 'value', 'the byte written (%s) is not the byte read in the same step (%s)'
                     % (fmt(wr[0][2][2]), fmt(rd[0][3])), file, None)
        src = rd[0][2][1]
        ssrc = [s_ for s_ in syms_of(src) if s_[3] and s_[3][0] == 'field' and s_[3][2] == 'source']
        if not ssrc or not equal_mod(src, O(16, 'add', O(16, 'trunc', ssrc[0]), O(16, 'trunc', X)), env, 16):
            chk.fail('C16.3', 'source', 'source address is %s, expected source + offset' % fmt(src), file, None)
        else:
            chk.ok('C16.3', 'source', sample={'read': fmt(src), 'write': fmt(dest)})
        if calls.index(rd[0]) > calls.index(wr[0]):
            step_ok, why = False, 'write precedes read'
        # counters at the end of the iteration
        nb = int(re.search(r'_(\d+)$', B[2]).group(1))
        nx = int(re.search(r'_(\d+)$', X[2]).group(1))
        fb = r.state.mem.get(('L', 1, nb))
        fx = r.state.mem.get(('L', 1, nx))
        if fb != O(64, 'sub', B, C(64, 1)) or fx != O(64, 'add', X, C(64, 1)):
            step_ok, why = False, 'counters after one byte: remaining=%s offset=%s (expected -1 / +1)' % (fmt(fb), fmt(fx))
        other = [e for e in r.state.events if e[0] == 'store' and e[1] == 'mem']
        if other:
            step_ok, why = False, 'the copy step also stores to %s' % [e[2] for e in other]
    if step_ok and Bs is not None:
        chk.ok('C16.4', 'step', sample={'per byte': 'offset += 1, remaining -= 1, read then write'})
    else:
        chk.fail('C16.4', 'step', 'copy loop: %s' % why, file, None)
    lemma = step_ok and lemma_pre and offinv is not None and offinv.hi <= 0x9f
    if lemma:
        chk.ok('C16.2', 'lemma', sample={'paired counters': 'offset + remaining is invariant, remaining0 <= 0xa0 - offset0, '
                                                            'guard remaining > 0  =>  offset <= 0x9f inside the loop',
                                         'destination': '0xfe00..0xfe9f (OAM by C10)'})
    else:
        chk.fail('C16.2', 'lemma', 'cannot establish offset <= 0x9f inside the copy loop (step uniform=%s, batch size=%s, '
                 'saved offset range=%s)' % (step_ok, lemma_pre, offinv), file, None)
    # destination region by C10's partition
    oam = [p for p in model.write_paths() if p.get('status') == 'ok' and p['kind'] == 'buffer' and p['buffer'] == 'oam_ram']
    if oam and min(p['lo'] for p in oam) == 0xfe00 and max(p['hi'] for p in oam) == 0xfe9f:
        chk.ok('C16.2', 'oam-region', sample={'0xfe00-0xfe9f': 'oam_ram[addr & 0xff]'})
    else:
        chk.fail('C16.2', 'oam-region', 'bus writes to 0xfe00-0xfe9f do not land in OAM', file, None)
    # ---- exits: retire / save
    ret_ok = True
    rwhy = ''
    seen = set()
    for r in exits:
        env = r.state.env
        if not any('discr(mem.oam_dma)' in fmt(d[0]) and env.const_of(d[0]) == 1 for d in r.state.decisions):
            continue
        st_ = [e for e in r.state.events if e[0] == 'store' and e[2][-1][1] == 'oam_dma']
        calls = [e for e in r.state.events if e[0] == 'call']
        if calls and calls[-1][1] != IRC:
            ret_ok, rwhy = False, 'the device tick is not the last call'
        if len(st_) != 1:
            ret_ok, rwhy = False, 'oam_dma stored %d times after the loop' % len(st_)
            continue
        v = st_[0][3]
        cmpd = [d[0] for d in r.state.decisions if d[0][0] == 'o' and d[0][2] == 'ult' and d[0][4] == C(64, 0xa0)]
        if not cmpd:
            ret_ok, rwhy = False, 'retire decision is not "offset < 0xa0"'
            continue
        below = env.const_of(cmpd[-1])
        if v[0] == 'agg' and v[1][3] == 'None':
            seen.add('retire')
            if below != 0:
                ret_ok, rwhy = False, 'transfer retired while offset < 0xa0'
        elif v[0] == 'agg' and v[1][3] == 'Some':
            seen.add('save')
            inner = v[2][0][2]
            offv = inner[1]
            if below != 1 or env.av(offv).hi > 0x9f:
                ret_ok, rwhy = False, 'transfer saved with offset %s' % env.av(offv)
            if O(64, 'zext', offv) != cmpd[-1][3] and offv != O(8, 'trunc', cmpd[-1][3]):
                ret_ok, rwhy = False, 'saved offset %s is not the loop counter %s' % (fmt(offv), fmt(cmpd[-1][3]))
    if ret_ok and seen == {'retire', 'save'}:
        chk.ok('C16.4', 'retire', sample={'offset == 0xa0': 'oam_dma := None', 'offset < 0xa0': 'saved with progress'})
    else:
        chk.fail('C16.4', 'retire', rwhy or 'exit paths found: %s' % sorted(seen), file, None)
    chk.ok('C16.4', 'count', sample={'total': 'offset runs 0..0xa0, one byte per step'}) if (lemma and ret_ok) else None
    # order: DMA before device tick on every path
    order_ok = True
    for r in exits:
        calls = [e[1] for e in r.state.events if e[0] == 'call']
        if IRC not in calls or calls.index(IRC) != len(calls) - 1:
            order_ok = False
    if order_ok:
        chk.ok('C16.5', 'order', sample={'order': 'copy loop, then IO::run_clock_cycles'})
    else:
        chk.fail('C16.5', 'order', 'IO::run_clock_cycles is not the last call on every path', file, None)
    # ---- rule 6: asserts, with the lemma's bounds supplied for the loop counters
    def sf(t):
        if lemma and Xs is not None and t == Xs:
            return AV(64, 0, 0x9f)
        if lemma and Bs is not None and t == Bs:
            return AV(64, 0, 0xa0)
        return inv.sym_facts(t)
    ipc = absint.Interp(facts, loop_mode='havoc', opaque=[RB, WB, IRC], opaque_havoc={WB: [0]}, sym_facts=sf)
    st = ipc.new_state()
    mem = ipc.arg_object(st, 'mem')
    obligations = {}
    for r in ipc.run(MRC, [mem, cyc], st):
        for e in r.state.events:
            if e[0] == 'assert':
                k = '%s@bb%d' % (e[1], e[2][2])
                obligations.setdefault(k, set()).add(e[3])
            if e[0] == 'panic':
                obligations.setdefault('panic:%s' % e[1], set()).add('fails')
    for k, sts in sorted(obligations.items()):
        if sts <= {'discharged'}:
            chk.ok('C16.6', k)
        else:
            chk.fail('C16.6', k, 'assert %s in MemoryAreas::run_clock_cycles can fail (%s)' % (k, sorted(sts)), file, None)
    chk.assumptions += ['every delivered clock count is a multiple of 4 (C09.6), hence floor(a/4) + floor(b/4) = floor((a+b)/4)',
                        'memory_write_byte to 0xfe00-0xfe9f writes OAM only (C10)',
                        '"result identical to the reference for sources modified during the transfer" follows from rules '
                        '3-5 on paper and is not separately machine-checked']
    return chk.finish('Bus-model extraction of the arming store, field invariant of the saved offset, one symbolic iteration '
                      'of the copy loop (field-sensitive havoc) for the per-byte step, the paired-counter lemma for '
                      'destination confinement, exit-path analysis for retire/save, and assert discharge.', exhaustive=True)
