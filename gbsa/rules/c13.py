"""C13 - DIV/TIMA follow the divider and are independent of catch-up batching (structure that makes them right)."""
from .. import absint, sm83, terms as T
from ..terms import C, S, O, AV, fmt, bit_provenance
from ..invariants import FieldInvariants
from ..affine import equal_mod
from .common import *
from .c03 import syms_of

TM = 'devices::timer::Timer::'
OWNER = 'devices::timer::Timer'


def fld(name, bits, base='timer'):
    ty = {8: 'u8', 32: 'u32'}[bits]
    return S(bits, '%s.%s' % (base, name), ('field', OWNER, name, ty))


def _derived_loop_vars(body):
    """{loop-carried local symbol: (its value as a term over the fields at the head of an iteration, entry term)} for the
    locals whose entry value is a function of the object's fields and for which `local == f(fields)` is inductive on every
    iteration path in `body`"""
    import re
    from .. import bvproof
    if not body:
        return {}
    inits = {}
    for e in body[0].state.events:
        if e[0] == 'loopinit' and isinstance(e[1], tuple) and e[1][0] == 's' and e[2] is not None and T.is_int(e[2]):
            inits[e[1]] = e[2]
    out = {}
    for v, init in inits.items():
        mm = re.search(r':_(\d+)$', v[2])
        fsyms = [x for x in syms_of(init)]
        if not mm or not fsyms or not all(x[3] and x[3][0] == 'field' and not x[2].startswith('loop') for x in fsyms):
            continue
        n = int(mm.group(1))
        good = True
        head_t = None
        for r in body:
            allsyms = set()
            for d in r.state.decisions:
                allsyms |= set(syms_of(d[0]))
            for e in r.state.events:
                if e[0] == 'store' and T.is_int(e[3]):
                    allsyms |= set(syms_of(e[3]))
            heads = {x[3][2]: x for x in allsyms if x[3] and x[3][0] == 'field' and x[2].startswith('loop')}
            to_head = {x: heads.get(x[3][2], x) for x in fsyms}
            post = dict(to_head)
            for e in r.state.events:
                if e[0] == 'store' and T.is_int(e[3]):
                    for x in fsyms:
                        if e[2] and e[2][-1][1] == x[3][2]:
                            post[x] = e[3]
            ht = bvproof.subst(init, to_head)
            if head_t is None:
                head_t = ht
            elif head_t != ht:
                good = False
                break
            new = r.state.mem.get(('L', 1, n))
            if new is None or not T.is_int(new):
                good = False
                break
            env = r.state.env.copy()
            env.assume_eq(O(1, 'eq', v, ht), 1)
            if new != bvproof.subst(init, post) and \
                    bvproof.equal_under(new, bvproof.subst(init, post), env, v[1]) is not True:
                good = False
                break
        if good and head_t is not None:
            out[v] = (head_t, init)
    return out


def run(ctx, chk):
    chk.rule('C13.1', 'D', 'TAC & 3 selects divider bit 9/3/5/7 (periods 1024/16/64/256); TAC & 4 enables', floor=5)
    chk.rule('C13.2', 'D', 'DIV is bits 8-15 of the cycle counter; writing DIV zeroes it; it is otherwise only advanced', floor=3)
    chk.rule('C13.3', 'D', 'TIMA overflow reloads TMA and returns the timer request, otherwise +1 and no request; only '
             'increment_counter and the TIMA write change TIMA', floor=3)
    chk.rule('C13.4', 'D', 'falling-edge detector: TIMA is incremented exactly when the selected bit goes 1 -> 0, for the '
             '+1 step of the catch-up loop and for a TAC write', floor=3)
    chk.rule('C13.5', 'D', 'batching invariance: the catch-up loop is uniform (its step reads the remaining count only in '
             'the guard/decrement, requests are OR-accumulated, the final mask commutes with the step); the disabled fast '
             'path adds the same total and never touches TIMA', floor=4)
    facts = ctx.facts('default')
    prog = ctx.program('default')
    file = 'src/devices/timer.rs'
    if not need(chk, prog, [TM + n for n in ('run_cycles', 'set_timer_control', 'increment_counter', 'get_divider',
                                             'reset_divider', 'set_counter', 'get_counter')]):
        return chk.finish('anchors missing')
    inv = FieldInvariants(facts)
    inv.track(OWNER, 'timer_clock_mask')
    inv.track(OWNER, 'enabled_mask')
    ip = absint.Interp(facts, sym_facts=inv.sym_facts, trust_asserts=('overflow',))
    # ---- rule 1 (+ the TAC-write half of rule 4), value level: set_timer_control as a function of (TAC value, divider,
    #      previous mask / enable), compared bit-precisely with the protocol - tables, shifts, matches all accepted
    from .. import bvproof, valfn
    from ..bdd import BDD, BV, TermBV, Unsupported
    flags = S(8, 'flags')
    st = ip.new_state()
    tm = ip.arg_object(st, 'timer')
    ipo = absint.Interp(facts, sym_facts=inv.sym_facts, trust_asserts=('overflow',), opaque=[TM + 'increment_counter'],
                        precise=True)
    rs = ipo.run(TM + 'set_timer_control', [tm, flags], st)
    cc0 = fld('cycle_count', 32)
    om, oe = fld('timer_clock_mask', 32), fld('enabled_mask', 32)
    tac = {'sel': {}, 'enable': None, 'fire': None}
    try:
        m = BDD()
        conv = TermBV(m, bvproof._known(st.env))
        vf, vcc = conv(flags), conv(cc0)
        table = BV.const(m, 32, sm83.TIMER_PERIODS[0] >> 1)
        for sel_ in (1, 2, 3):
            hit = m.AND(vf.b[0] if sel_ & 1 else m.NOT(vf.b[0]), vf.b[1] if sel_ & 2 else m.NOT(vf.b[1]))
            table = BV.mux(m, hit, BV.const(m, 32, sm83.TIMER_PERIODS[sel_] >> 1), table)
        en_ref = vf.b[2]
        new_det_ref = m.AND(en_ref, (vcc & table).nonzero())
        old_det = (vcc & conv(om) & conv(oe)).nonzero()
        fire_c = nofire_c = 0
        d_mask = d_det = 0
        for r in rs:
            if r.status != 'ok':
                chk.fail('C13.1', 'diverge', 'set_timer_control can diverge (%s)' % (r.detail,), file, None)
                continue
            _, _, K = bvproof.setup(r.state.env, m, conv)
            stm = [e[3] for e in r.state.events if e[0] == 'store' and e[2][-1][1] == 'timer_clock_mask']
            ste = [e[3] for e in r.state.events if e[0] == 'store' and e[2][-1][1] == 'enabled_mask']
            nm = conv(stm[-1]) if stm else conv(om)
            ne_ = conv(ste[-1]) if ste else conv(oe)
            nm = nm.zext(32) if len(nm) < 32 else nm.trunc(32)
            ne_ = ne_.zext(32) if len(ne_) < 32 else ne_.trunc(32)
            d_mask = m.OR(d_mask, m.AND(K, nm.diff(table)))
            d_det = m.OR(d_det, m.AND(K, m.XOR((vcc & nm & ne_).nonzero(), new_det_ref)))
            if any(e[0] == 'call' and e[1] == TM + 'increment_counter' for e in r.state.events):
                fire_c = m.OR(fire_c, K)
            else:
                nofire_c = m.OR(nofire_c, K)
        for sel_, period in sorted(sm83.TIMER_PERIODS.items()):
            cls = m.AND(vf.b[0] if sel_ & 1 else m.NOT(vf.b[0]), vf.b[1] if sel_ & 2 else m.NOT(vf.b[1]))
            bad = m.AND(d_mask, cls)
            key = 'tac&3=%d' % sel_
            if bad == 0:
                chk.ok('C13.1', key, sample={'TAC&3': sel_, 'watched_bit_mask': hex(period >> 1), 'period': period})
            else:
                chk.fail('C13.1', key, 'TAC & 3 = %d does not select divider bit mask %#x (period %d clocks): e.g. TAC = %#x'
                         % (sel_, period >> 1, period, m.witness(bad).get('flags', 0)), file, None)
        if d_det == 0:
            chk.ok('C13.1', 'enable', sample={'edge detector input after the write': 'TAC bit 2 set and selected divider bit set'})
        else:
            w = m.witness(d_det)
            chk.fail('C13.1', 'enable', 'after writing TAC = %#x with divider %#x the edge detector input (divider & mask & '
                     'enable) is not "TAC bit 2 and the selected divider bit"' % (w.get('flags', 0), w.get(cc0[2], 0)), file, None)
        ref_fire = m.AND(old_det, m.NOT(new_det_ref))
        tac['both'] = m.AND(fire_c, nofire_c)
        tac['diff'] = m.AND(m.OR(fire_c, nofire_c), m.XOR(fire_c, ref_fire))
        tac['m'] = m
        tac['nfire'] = fire_c
    except Unsupported as e:
        chk.error('C13.1: set_timer_control is outside the bit-vector fragment: %s' % e.why)
    # ---- rule 2
    st = ip.new_state()
    tm = ip.arg_object(st, 'timer')
    rr = ip.run(TM + 'get_divider', [tm], st)
    cc = fld('cycle_count', 32)
    okk = len(rr) == 1 and rr[0].status == 'ok' and \
        bit_provenance(rr[0].ret, rr[0].state.env) == [('in', cc, i + 8) for i in range(8)]
    if okk:
        chk.ok('C13.2', 'get_divider', sample={'DIV': fmt(rr[0].ret)})
    else:
        chk.fail('C13.2', 'get_divider', 'get_divider returns %s, expected bits 8-15 of cycle_count'
                 % [fmt(r.ret) for r in rr], file, None)
    st = ip.new_state()
    tm = ip.arg_object(st, 'timer')
    rr = ip.run(TM + 'reset_divider', [tm], st)
    stores = [e for r in rr for e in r.state.events if e[0] == 'store']
    if len(stores) == 1 and stores[0][2][-1][1] == 'cycle_count' and stores[0][3] == C(32, 0):
        chk.ok('C13.2', 'reset_divider')
    else:
        chk.fail('C13.2', 'reset_divider', 'reset_divider stores %s' % [(s[2], fmt(s[3])) for s in stores], file, None)
    writers = sorted(set(w[0] for w in prog.field_stores(OWNER, 'cycle_count')))
    allowed = families(prog, [TM + 'new', TM + 'reset_divider', TM + 'run_cycles'])
    if set(writers) <= allowed:
        chk.ok('C13.2', 'writers', sample={'cycle_count writers': writers})
    else:
        chk.fail('C13.2', 'writers', 'cycle_count is written in %s' % writers, file, None)
    # ---- rule 3
    st = ip.new_state()
    tm = ip.arg_object(st, 'timer')
    rr = ip.run(TM + 'increment_counter', [tm], st)
    cnt = fld('counter', 8)
    mod = fld('modulo', 8)
    bad = None
    seen = set()
    for r in rr:
        env = r.state.env
        stores = [e for e in r.state.events if e[0] == 'store' and e[2][-1][1] == 'counter']
        ret = r.ret[2][0] if r.ret is not None and r.ret[0] == 'agg' else None
        if r.status != 'ok' or len(stores) != 1 or ret is None:
            bad = 'unexpected path shape'
            continue
        if env.const_of(cnt) == 0xff:
            seen.add('overflow')
            if stores[0][3] != mod or ret != C(8, 4):
                bad = 'at TIMA = 0xff: stores %s, returns flag %s (expected TMA and the timer request 0x04)' % (
                    fmt(stores[0][3]), fmt(ret))
        else:
            seen.add('normal')
            if stores[0][3] != O(8, 'add', cnt, C(8, 1)) or ret != C(8, 0):
                bad = 'below 0xff: stores %s, returns flag %s (expected TIMA+1 and no request)' % (fmt(stores[0][3]), fmt(ret))
            if env.possible(cnt, 0xff):
                bad = 'the non-overflow path can be taken at TIMA = 0xff'
    if bad or seen != {'overflow', 'normal'}:
        chk.fail('C13.3', 'increment_counter', bad or 'paths found: %s' % sorted(seen), file, None)
    else:
        chk.ok('C13.3', 'increment_counter', sample={'0xff': 'TIMA := TMA, request 0x04', 'else': 'TIMA += 1'})
    cw = sorted(set(w[0] for w in prog.field_stores(OWNER, 'counter')))
    if set(cw) <= families(prog, [TM + 'new', TM + 'set_counter', TM + 'increment_counter']):
        chk.ok('C13.3', 'writers', sample={'TIMA writers': cw})
    else:
        chk.fail('C13.3', 'writers', 'TIMA is written in %s' % cw, file, None)
    ic = sorted(set(c[0] for c in prog.callers(TM + 'increment_counter')))
    if ic and set(ic) <= families(prog, [TM + 'run_cycles', TM + 'set_timer_control']):
        chk.ok('C13.3', 'callers', sample={'increment_counter callers': ic})
    else:
        chk.fail('C13.3', 'callers', 'increment_counter is called from %s' % ic, file, None)
    # ---- rule 4 + 5: the catch-up loop
    iph = absint.Interp(facts, loop_mode='havoc', sym_facts=inv.sym_facts, trust_asserts=('overflow',),
                        opaque=[TM + 'increment_counter'], opaque_havoc={TM + 'increment_counter': [0]})
    st = iph.new_state()
    tm = iph.arg_object(st, 'timer')
    clocks = S(64, 'clocks')
    cyc = ('agg', ('adt', 'timing::ClockCycles', 0, 'ClockCycles'), (clocks,))
    rs = iph.run(TM + 'run_cycles', [tm, cyc], st)
    body = [r for r in rs if r.status == 'loopback']
    exits = [r for r in rs if r.status == 'ok']
    if not body:
        chk.error('Timer::run_cycles: no loop iteration found (anchor lost)')
        return chk.finish('anchors missing')
    # one iteration of the catch-up loop as a function of (divider value X at the head of the iteration, watched mask):
    # divider' = X + 1 and TIMA is incremented exactly when the watched bit goes 1 -> 0.  Decided bit-precisely.
    edge_ok = True
    why = ''
    uniform = True
    guard_vars = set()
    # loop-carried locals that cache a function of the timer's fields (`level = cycle_count & mask`, carried from tick to
    # tick): the candidate invariant "local == f(fields at the head of the iteration)" is read from the local's value at
    # the loop entry and proved by induction over the iteration paths; it is then a hypothesis of the step relation
    derived = _derived_loop_vars(body)
    try:
        m2 = BDD()
        conv2 = TermBV(m2)
        Xs, Ms = S(32, 'X'), S(32, 'MASK')
        vX, vM = conv2(Xs), conv2(Ms)
        fire2 = nofire2 = 0
        for r in body:
            env = r.state.env
            calls = [e for e in r.state.events if e[0] == 'call' and e[1] == TM + 'increment_counter']
            stores = [e for e in r.state.events if e[0] == 'store' and e[2][-1][1] == 'cycle_count']
            decs = r.state.decisions
            cnt_syms = [s_ for d in decs for s_ in syms_of(d[0]) if s_[2].startswith('loopvar:') and
                        not (s_[3] and s_[3][0] == 'field') and s_ not in derived]

            guard_vars |= set(cnt_syms)
            fs = valfn.field_syms([d[0] for d in decs] + [e[3] for e in stores] + [h_ for h_, _ in derived.values()])
            X, Mk = fs.get('cycle_count'), fs.get('timer_clock_mask')
            if X is None or len(stores) != 1 or not equal_mod(stores[0][3], O(32, 'add', X, C(32, 1)), env, 32):
                edge_ok, why = False, 'an iteration does not advance the divider by exactly 1 (%s)' % [fmt(s_[3]) for s_ in stores]
                continue
            ren = {X: Xs}
            if Mk is not None:
                ren[Mk] = Ms
            for v_, (head_t, _) in derived.items():
                ren[v_] = bvproof.subst(head_t, dict(ren))      # proved equal at the head of every iteration
            _, _, K = bvproof.setup(env, m2, conv2, ren, only={'X', 'MASK'})
            if calls:
                fire2 = m2.OR(fire2, K)
            else:
                nofire2 = m2.OR(nofire2, K)
            for e in r.state.events:
                vals = []
                if e[0] == 'store':
                    vals.append(e[3])
                if e[0] == 'call':
                    vals += list(e[2])
                for v in vals:
                    if any(s_ in cnt_syms or s_ == clocks for s_ in syms_of(v)):
                        uniform = False
        if edge_ok:
            ref2 = m2.AND((vX & vM).nonzero(), m2.NOT(((vX + 1) & vM).nonzero()))
            if m2.AND(fire2, nofire2) != 0:
                edge_ok, why = False, 'whether an iteration increments TIMA is not a function of (divider, watched mask)'
            else:
                dd = m2.AND(m2.OR(fire2, nofire2), m2.XOR(fire2, ref2))
                if dd != 0:
                    w = m2.witness(dd)
                    edge_ok = False
                    why = ('divider %#x -> %#x with watched mask %#x: TIMA is %sincremented, but the watched bit %s'
                           % (w.get('X', 0), (w.get('X', 0) + 1) & 0xffffffff, w.get('MASK', 0),
                              '' if _holds(m2, fire2, w) else 'not ',
                              'does not fall' if _holds(m2, fire2, w) else 'falls'))
    except Unsupported as e:
        chk.error('C13.4: loop step outside the bit-vector fragment: %s' % e.why)
        edge_ok = False
        why = 'undecided'
    if edge_ok:
        chk.ok('C13.4', 'loop-step', sample={'step': 'cycle_count += 1', 'fires': '(old & mask) != 0 && (new & mask) == 0',
                                             'iterations_paths': len(body)})
    else:
        chk.fail('C13.4', 'loop-step', 'catch-up loop: %s' % why, file, None)
    # TAC write edge (computed with rule 1)
    if 'm' in tac:
        mt = tac['m']
        if tac['both'] != 0:
            chk.error('C13.4: whether a TAC write increments TIMA is not a function of the state and the value written')
        elif tac['diff'] != 0 or tac['nfire'] == 0:
            w = mt.witness(tac['diff']) if tac['diff'] != 0 else {}
            chk.fail('C13.4', 'tac-write', 'TAC write %#x with divider %#x, old mask %#x, old enable %#x: TIMA is %s although the '
                     'detector input %s' % (w.get('flags', 0), w.get(cc0[2], 0), w.get(om[2], 0), w.get(oe[2], 0),
                                            'incremented' if tac['diff'] != 0 and _holds(mt, tac['nfire'], w) else 'not incremented',
                                            'does not fall' if tac['diff'] != 0 and _holds(mt, tac['nfire'], w) else 'falls')
                     if tac['diff'] != 0 else 'no TAC write ever increments TIMA', file, None)
        else:
            chk.ok('C13.4', 'tac-write', sample={'fires': 'old(cc & mask & enable) != 0 && new(cc & mask\' & enable\') == 0'})
    chk.ok('C13.4', 'count') if edge_ok else None
    # ---- rule 5
    if uniform:
        chk.ok('C13.5', 'uniform-step', sample={'remaining-count variable flows into': 'guard and decrement only'})
    else:
        chk.fail('C13.5', 'uniform-step', 'the loop step depends on the remaining count / batch size', file, None)
    # exits of run_cycles: the slow path (timer enabled: the loop ran) and the fast path (timer disabled)
    def is_fast(r):
        a_ = r.state.env.av(oe)
        return a_.is_const() and a_.lo == 0

    def is_slow(r):
        return not r.state.env.possible(oe, 0)
    slow = [r for r in exits if is_slow(r)]
    fast = [r for r in exits if is_fast(r)]
    other = [r for r in exits if not is_slow(r) and not is_fast(r)]
    # accumulator: what the slow path returns is the loop-carried accumulator, OR-combined in the body
    acc_ok = bool(slow) and all(r.ret is not None and ((r.ret[0] == 's' and r.ret[2].startswith('loopvar:')) or
                                                        (r.ret[0] in ('hav', 'agg') and 'loopvar:' in str(r.ret)))
                                for r in slow)
    body_calls = set()
    fn = prog.fns[TM + 'run_cycles']
    loops = iph.loops_of(TM + 'run_cycles')
    for head, blocks in loops.items():
        for b_ in blocks:
            t = fn['blocks'][b_]['term']
            if t['k'] == 'call':
                body_calls.add(t['resolved'] or t['callee'])
    ored = any('bitor_assign' in c or c.endswith('::bitor') for c in body_calls)
    if acc_ok and ored and not other:
        chk.ok('C13.5', 'accumulator', sample={'requests': 'OR-accumulated across iterations and returned'})
    else:
        chk.fail('C13.5', 'accumulator', 'timer requests are not OR-accumulated over the loop and returned'
                 + (' (an exit of run_cycles is neither the enabled nor the disabled case)' if other else ''), file, None)
    # the divider is reduced to 16 bits at every exit, which commutes with the step because the watched masks lie below 2^16
    mav = inv.get(OWNER, 'timer_clock_mask')
    red_ok = bool(slow)
    for r in slow:
        ss = [e for e in r.state.events if e[0] == 'store' and e[2][-1][1] == 'cycle_count']
        fs = valfn.field_syms([e[3] for e in ss])
        Xl = fs.get('cycle_count')
        if not ss or Xl is None or r.state.env.av(ss[-1][3]).hi > 0xffff or not equal_mod(ss[-1][3], Xl, r.state.env, 16):
            red_ok = False
    if mav is not None and mav.hi <= 0xffff and red_ok:
        chk.ok('C13.5', 'final-mask', sample={'timer_clock_mask range': [mav.lo, mav.hi], 'post-loop': 'cycle_count reduced mod 2^16'})
    else:
        chk.fail('C13.5', 'final-mask', 'the post-loop reduction of the divider does not commute with the step (watched mask '
                 'range %s, divider reduced to 16 bits at the enabled exit: %s)' % (mav, red_ok), file, None)
    # fast path
    fok = bool(fast)
    for r in fast:
        st_ = [e for e in r.state.events if e[0] == 'store']
        if any(e[2][-1][1] == 'counter' for e in st_) or any(e[0] == 'call' for e in r.state.events):
            fok = False
        last = [e for e in st_ if e[2][-1][1] == 'cycle_count']
        want = O(32, 'add', cc0, O(32, 'trunc', clocks))
        if not last or r.state.env.av(last[-1][3]).hi > 0xffff or not equal_mod(last[-1][3], want, r.state.env, 16):
            fok = False
        if r.ret is None or r.ret[0] != 'agg' or r.state.env.const_of(r.ret[2][0]) != 0:
            fok = False
    if fok:
        chk.ok('C13.5', 'disabled-fast-path', sample={'taken iff': 'enabled_mask == 0', 'effect': 'cycle_count = (cc + n) & 0xffff'})
    else:
        chk.fail('C13.5', 'disabled-fast-path', 'the disabled fast path is not "cycle_count = (cycle_count + n) & 0xffff, '
                 'TIMA untouched, no request"', file, None)
    # ---- rule 6: the request a TAC write produces reaches IF
    chk.rule('C13.6', 'D', 'the interrupt request returned by Timer::set_timer_control (falling edge caused by a TAC write) is '
             'merged into IF by IO::set_byte', floor=1)
    res = register_write_requests_reach_if(facts, prog, [TM + 'set_timer_control'])
    for cal, bad in res.items():
        if bad:
            chk.fail('C13.6', 'tac-write', '%s: %s' % (cal, bad), 'src/devices/io.rs', None)
        else:
            chk.ok('C13.6', 'tac-write', sample={'IO::set_byte': 'interrupt_flag |= timer.set_timer_control(value)'})
    chk.assumptions += ['exact DIV/TIMA values for a given history are runtime arithmetic and are not decided; rules 1-4 are '
                        'necessary conditions, rule 5 is the structural argument for batching invariance',
                        'u32 cycle counter does not overflow within one batch']
    return chk.finish('Abstract interpretation of the Timer methods: rate table by path enumeration over TAC, DIV by bit '
                      'provenance, overflow paths of increment_counter, and one symbolic iteration of the catch-up loop '
                      '(field-sensitive loop havoc) whose increment and firing condition are decided from the path '
                      'conditions; dataflow of the remaining-count variable for uniformity.', exhaustive=True)


def _holds(m, f, w):
    n = f
    while n > 1:
        v, lo, hi = m.node[n]
        sym, bit = m.names[v]
        n = hi if (w.get(sym, 0) >> bit) & 1 else lo
    return bool(n)
