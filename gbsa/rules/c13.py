"""C13 - DIV/TIMA follow the divider and are independent of catch-up batching (structure that makes them right)."""
from .. import absint, sm83, terms as T
from ..terms import C, S, O, AV, fmt, bit_provenance
from ..invariants import FieldInvariants
from .common import *
from .c03 import syms_of

TM = 'devices::timer::Timer::'
OWNER = 'devices::timer::Timer'


def fld(name, bits, base='timer'):
    ty = {8: 'u8', 32: 'u32'}[bits]
    return S(bits, '%s.%s' % (base, name), ('field', OWNER, name, ty))


def run(ctx, chk):
    chk.rule('C13.1', 'D', 'TAC & 3 selects divider bit 9/3/5/7 (periods 1024/16/64/256); TAC & 4 enables', floor=5)
    chk.rule('C13.2', 'D', 'DIV is bits 8-15 of the cycle counter; writing DIV zeroes it; it is otherwise only advanced', floor=3)
    chk.rule('C13.3', 'D', 'TIMA overflow reloads TMA and returns the timer request, otherwise +1 and no request; only '
             'increment_counter and the TIMA write change TIMA', floor=3)
    chk.rule('C13.4', 'D', 'falling-edge detector: TIMA is incremented exactly when the selected bit goes 1 -> 0, for the '
             '+1 step of the catch-up loop and for a TAC write', floor=3)
    chk.rule('C13.5', 'D', 'batching invariance: the catch-up loop is uniform (its step reads the remaining count only in '
             'the guard/decrement, requests are OR-accumulated, the final mask commutes with the step); the disabled fast '
             'path adds the same total and never touches TIMA', floor=4)
    facts = ctx.facts('default')
    prog = ctx.program('default')
    file = 'src/devices/timer.rs'
    if not need(chk, prog, [TM + n for n in ('run_cycles', 'set_timer_control', 'increment_counter', 'get_divider',
                                             'reset_divider', 'set_counter', 'get_counter')]):
        return chk.finish('anchors missing')
    inv = FieldInvariants(facts)
    inv.track(OWNER, 'timer_clock_mask')
    inv.track(OWNER, 'enabled_mask')
    ip = absint.Interp(facts, sym_facts=inv.sym_facts, trust_asserts=('overflow',))
    # ---- rule 1
    flags = S(8, 'flags')
    st = ip.new_state()
    tm = ip.arg_object(st, 'timer')
    ipo = absint.Interp(facts, sym_facts=inv.sym_facts, trust_asserts=('overflow',), opaque=[TM + 'increment_counter'])
    rs = ipo.run(TM + 'set_timer_control', [tm, flags], st)
    seen_sel = {}
    seen_en = {}
    for r in rs:
        if r.status != 'ok':
            chk.fail('C13.1', 'diverge', 'set_timer_control can diverge (%s)' % (r.detail,), file, None)
            continue
        env = r.state.env
        sel = env.const_of(O(8, 'and', flags, C(8, 3)))
        en = env.av(flags)
        for e in r.state.events:
            if e[0] == 'store' and e[2][-1][1] == 'timer_clock_mask' and e[3][0] == 'c':
                if sel is not None:
                    seen_sel.setdefault(sel, set()).add(e[3][2])
                else:
                    # "otherwise" arm: selector not 1,2,3
                    for v in range(4):
                        if env.possible(O(8, 'and', flags, C(8, 3)), v):
                            seen_sel.setdefault(v, set()).add(e[3][2])
            if e[0] == 'store' and e[2][-1][1] == 'enabled_mask' and e[3][0] == 'c':
                bit = 1 if en.m1 & 4 else (0 if en.m0 & 4 else None)
                seen_en.setdefault(bit, set()).add(e[3][2])
    for sel, period in sorted(sm83.TIMER_PERIODS.items()):
        masks = seen_sel.get(sel, set())
        want = period >> 1
        key = 'tac&3=%d' % sel
        if masks == {want}:
            chk.ok('C13.1', key, sample={'TAC&3': sel, 'watched_bit_mask': hex(want), 'period': period})
        else:
            chk.fail('C13.1', key, 'TAC & 3 = %d selects mask %s, expected %#x (period %d clocks)'
                     % (sel, sorted(map(hex, masks)), want, period), file, None)
    if seen_en.get(1) and all(v != 0 for v in seen_en[1]) and seen_en.get(0) == {0}:
        chk.ok('C13.1', 'enable', sample={'TAC&4 set': sorted(map(hex, seen_en[1])), 'clear': 0})
    else:
        chk.fail('C13.1', 'enable', 'enable mask by TAC bit 2: %s' % {str(k): sorted(v) for k, v in seen_en.items()}, file, None)
    # ---- rule 2
    st = ip.new_state()
    tm = ip.arg_object(st, 'timer')
    rr = ip.run(TM + 'get_divider', [tm], st)
    cc = fld('cycle_count', 32)
    okk = len(rr) == 1 and rr[0].status == 'ok' and \
        bit_provenance(rr[0].ret, rr[0].state.env) == [('in', cc, i + 8) for i in range(8)]
    if okk:
        chk.ok('C13.2', 'get_divider', sample={'DIV': fmt(rr[0].ret)})
    else:
        chk.fail('C13.2', 'get_divider', 'get_divider returns %s, expected bits 8-15 of cycle_count'
                 % [fmt(r.ret) for r in rr], file, None)
    st = ip.new_state()
    tm = ip.arg_object(st, 'timer')
    rr = ip.run(TM + 'reset_divider', [tm], st)
    stores = [e for r in rr for e in r.state.events if e[0] == 'store']
    if len(stores) == 1 and stores[0][2][-1][1] == 'cycle_count' and stores[0][3] == C(32, 0):
        chk.ok('C13.2', 'reset_divider')
    else:
        chk.fail('C13.2', 'reset_divider', 'reset_divider stores %s' % [(s[2], fmt(s[3])) for s in stores], file, None)
    writers = sorted(set(w[0] for w in prog.field_stores(OWNER, 'cycle_count')))
    allowed = {TM + 'new', TM + 'reset_divider', TM + 'run_cycles'}
    if set(writers) <= allowed:
        chk.ok('C13.2', 'writers', sample={'cycle_count writers': writers})
    else:
        chk.fail('C13.2', 'writers', 'cycle_count is written in %s' % writers, file, None)
    # ---- rule 3
    st = ip.new_state()
    tm = ip.arg_object(st, 'timer')
    rr = ip.run(TM + 'increment_counter', [tm], st)
    cnt = fld('counter', 8)
    mod = fld('modulo', 8)
    bad = None
    seen = set()
    for r in rr:
        env = r.state.env
        stores = [e for e in r.state.events if e[0] == 'store' and e[2][-1][1] == 'counter']
        ret = r.ret[2][0] if r.ret is not None and r.ret[0] == 'agg' else None
        if r.status != 'ok' or len(stores) != 1 or ret is None:
            bad = 'unexpected path shape'
            continue
        if env.const_of(cnt) == 0xff:
            seen.add('overflow')
            if stores[0][3] != mod or ret != C(8, 4):
                bad = 'at TIMA = 0xff: stores %s, returns flag %s (expected TMA and the timer request 0x04)' % (
                    fmt(stores[0][3]), fmt(ret))
        else:
            seen.add('normal')
            if stores[0][3] != O(8, 'add', cnt, C(8, 1)) or ret != C(8, 0):
                bad = 'below 0xff: stores %s, returns flag %s (expected TIMA+1 and no request)' % (fmt(stores[0][3]), fmt(ret))
            if env.possible(cnt, 0xff):
                bad = 'the non-overflow path can be taken at TIMA = 0xff'
    if bad or seen != {'overflow', 'normal'}:
        chk.fail('C13.3', 'increment_counter', bad or 'paths found: %s' % sorted(seen), file, None)
    else:
        chk.ok('C13.3', 'increment_counter', sample={'0xff': 'TIMA := TMA, request 0x04', 'else': 'TIMA += 1'})
    cw = sorted(set(w[0] for w in prog.field_stores(OWNER, 'counter')))
    if set(cw) <= {TM + 'new', TM + 'set_counter', TM + 'increment_counter'}:
        chk.ok('C13.3', 'writers', sample={'TIMA writers': cw})
    else:
        chk.fail('C13.3', 'writers', 'TIMA is written in %s' % cw, file, None)
    ic = sorted(set(c[0] for c in prog.callers(TM + 'increment_counter')))
    if ic == sorted([TM + 'run_cycles', TM + 'set_timer_control']):
        chk.ok('C13.3', 'callers', sample={'increment_counter callers': ic})
    else:
        chk.fail('C13.3', 'callers', 'increment_counter is called from %s' % ic, file, None)
    # ---- rule 4 + 5: the catch-up loop
    iph = absint.Interp(facts, loop_mode='havoc', sym_facts=inv.sym_facts, trust_asserts=('overflow',),
                        opaque=[TM + 'increment_counter'], opaque_havoc={TM + 'increment_counter': [0]})
    st = iph.new_state()
    tm = iph.arg_object(st, 'timer')
    clocks = S(64, 'clocks')
    cyc = ('agg', ('adt', 'timing::ClockCycles', 0, 'ClockCycles'), (clocks,))
    rs = iph.run(TM + 'run_cycles', [tm, cyc], st)
    body = [r for r in rs if r.status == 'loopback']
    exits = [r for r in rs if r.status == 'ok']
    if not body:
        chk.error('Timer::run_cycles: no loop iteration found (anchor lost)')
        return chk.finish('anchors missing')
    mask = fld('timer_clock_mask', 32)
    edge_ok = True
    why = ''
    guard_vars = set()
    uniform = True
    for r in body:
        env = r.state.env
        calls = [e for e in r.state.events if e[0] == 'call' and e[1] == TM + 'increment_counter']
        stores = [e for e in r.state.events if e[0] == 'store' and e[2][-1][1] == 'cycle_count']
        decs = r.state.decisions
        # the loop counter: symbol tested first with "> 0"
        cnt_syms = [s_ for d in decs for s_ in syms_of(d[0]) if s_[2].startswith('loopvar:')]
        guard_vars |= set(cnt_syms)
        X = None
        for s_ in (s2 for d in decs for s2 in syms_of(d[0])):
            if s_[3] and s_[3][0] == 'field' and s_[3][2] == 'cycle_count':
                X = s_
        if X is None or len(stores) != 1 or stores[0][3] != O(32, 'add', X, C(32, 1)):
            edge_ok, why = False, 'an iteration does not advance the divider by exactly 1 (%s)' % [fmt(s[3]) for s in stores]
            continue
        prev = O(32, 'and', X, mask)
        new = O(32, 'and', O(32, 'add', X, C(32, 1)), mask)
        pv = env.const_of(O(1, 'ne', prev, C(32, 0)))
        nv = env.const_of(O(1, 'eq', new, C(32, 0)))
        fired = bool(calls)
        should = (pv == 1 and nv == 1)
        decided = (pv is not None) and (pv == 0 or nv is not None)
        if not decided:
            edge_ok, why = False, 'an iteration is not decided by (old & mask != 0, new & mask == 0)'
        elif fired != should:
            edge_ok, why = False, 'TIMA incremented=%s on a path where old bit set=%s, new bit clear=%s' % (fired, pv, nv)
        # uniformity: the remaining-count variable must not flow into stores or call arguments
        for e in r.state.events:
            vals = []
            if e[0] == 'store':
                vals.append(e[3])
            if e[0] == 'call':
                vals += list(e[2])
            for v in vals:
                if any(s_ in cnt_syms or s_ == clocks for s_ in syms_of(v)):
                    uniform = False
    if edge_ok:
        chk.ok('C13.4', 'loop-step', sample={'step': 'cycle_count += 1', 'fires': '(old & mask) != 0 && (new & mask) == 0',
                                             'iterations_paths': len(body)})
    else:
        chk.fail('C13.4', 'loop-step', 'catch-up loop: %s' % why, file, None)
    # TAC write edge
    st = ipo.new_state()
    tm = ipo.arg_object(st, 'timer')
    rs2 = ipo.run(TM + 'set_timer_control', [tm, flags], st)
    tac_ok = True
    tac_why = ''
    cc0 = fld('cycle_count', 32)
    old = O(32, 'and', O(32, 'and', cc0, fld('timer_clock_mask', 32)), fld('enabled_mask', 32))
    nfire = 0
    for r in rs2:
        env = r.state.env
        calls = [e for e in r.state.events if e[0] == 'call']
        oldv = env.const_of(O(1, 'ne', old, C(32, 0)))
        # new masked bit: cycle_count & stored mask & stored enable
        stm = [e[3] for e in r.state.events if e[0] == 'store' and e[2][-1][1] == 'timer_clock_mask']
        ste = [e[3] for e in r.state.events if e[0] == 'store' and e[2][-1][1] == 'enabled_mask']
        if not stm or not ste:
            tac_ok, tac_why = False, 'set_timer_control path without mask/enable stores'
            continue
        newt = O(32, 'and', O(32, 'and', cc0, stm[-1]), ste[-1])
        newv = env.const_of(O(1, 'eq', newt, C(32, 0)))
        fired = bool(calls)
        if fired:
            nfire += 1
        if fired and not (oldv == 1 and newv == 1):
            tac_ok, tac_why = False, 'TAC write increments TIMA although old bit=%s new bit clear=%s' % (oldv, newv)
        if not fired and oldv == 1 and newv == 1:
            tac_ok, tac_why = False, 'TAC write misses a falling edge'
        if not fired and (oldv is None or (oldv == 1 and newv is None)):
            tac_ok, tac_why = False, 'TAC write path not decided by the old/new selected bit'
    if tac_ok and nfire:
        chk.ok('C13.4', 'tac-write', sample={'fires': 'old(cc & mask & enable) != 0 && new(cc & mask\' & enable\') == 0',
                                             'firing_paths': nfire})
    else:
        chk.fail('C13.4', 'tac-write', tac_why or 'no TAC-write path increments TIMA', file, None)
    chk.ok('C13.4', 'count') if edge_ok else None
    # ---- rule 5
    if uniform:
        chk.ok('C13.5', 'uniform-step', sample={'remaining-count variable flows into': 'guard and decrement only'})
    else:
        chk.fail('C13.5', 'uniform-step', 'the loop step depends on the remaining count / batch size', file, None)
    # accumulator: returned flag after the loop is the loop-carried accumulator (OR-combined inside)
    acc_ok = False
    for r in exits:
        if any('enabled_mask' in fmt(d[0]) and r.state.env.const_of(d[0]) == 0 for d in r.state.decisions):
            if r.ret is not None and r.ret[0] == 's' and r.ret[2].startswith('loopvar:'):
                acc_ok = True
    ors = prog.fns.get('<devices::interrupts::InterruptFlag as std::ops::BitOrAssign>::bitor_assign')
    body_calls = set()
    fn = prog.fns[TM + 'run_cycles']
    loops = iph.loops_of(TM + 'run_cycles')
    for head, blocks in loops.items():
        for b in blocks:
            t = fn['blocks'][b]['term']
            if t['k'] == 'call':
                body_calls.add(t['resolved'] or t['callee'])
    if acc_ok and any('bitor_assign' in c for c in body_calls):
        chk.ok('C13.5', 'accumulator', sample={'requests': 'OR-accumulated across iterations and returned'})
    else:
        chk.fail('C13.5', 'accumulator', 'timer requests are not OR-accumulated over the loop and returned', file, None)
    mav = inv.get(OWNER, 'timer_clock_mask')
    post = []
    for r in exits:
        if any('enabled_mask' in fmt(d[0]) and r.state.env.const_of(d[0]) == 0 for d in r.state.decisions):
            ss = [e for e in r.state.events if e[0] == 'store' and e[2][-1][1] == 'cycle_count']
            if ss:
                post.append(ss[-1])
    final_mask_ok = all(e[3][0] == 'o' and e[3][2] == 'and' and e[3][4] == C(32, 0xffff) for e in post) and post
    if mav is not None and mav.hi <= 0xffff and final_mask_ok:
        chk.ok('C13.5', 'final-mask', sample={'timer_clock_mask range': [mav.lo, mav.hi], 'post-loop': 'cycle_count &= 0xffff'})
    else:
        chk.fail('C13.5', 'final-mask', 'the post-loop mask does not commute with the step (mask range %s)' % mav, file, None)
    # fast path
    fast = [r for r in exits if any('enabled_mask' in fmt(d[0]) and r.state.env.const_of(d[0]) == 1 for d in r.state.decisions)]
    fok = bool(fast)
    for r in fast:
        st_ = [e for e in r.state.events if e[0] == 'store']
        if any(e[2][-1][1] == 'counter' for e in st_) or any(e[0] == 'call' for e in r.state.events):
            fok = False
        last = [e for e in st_ if e[2][-1][1] == 'cycle_count']
        want = O(32, 'and', O(32, 'add', cc0, O(32, 'trunc', clocks)), C(32, 0xffff))
        if not last or last[-1][3] != want:
            fok = False
        if r.ret is None or r.ret[0] != 'agg' or r.ret[2][0] != C(8, 0):
            fok = False
    if fok:
        chk.ok('C13.5', 'disabled-fast-path', sample={'taken iff': 'enabled_mask == 0', 'effect': 'cycle_count = (cc + n) & 0xffff'})
    else:
        chk.fail('C13.5', 'disabled-fast-path', 'the disabled fast path is not "cycle_count = (cycle_count + n) & 0xffff, '
                 'TIMA untouched, no request"', file, None)
    chk.assumptions += ['exact DIV/TIMA values for a given history are runtime arithmetic and are not decided; rules 1-4 are '
                        'necessary conditions, rule 5 is the structural argument for batching invariance',
                        'u32 cycle counter does not overflow within one batch']
    return chk.finish('Abstract interpretation of the Timer methods: rate table by path enumeration over TAC, DIV by bit '
                      'provenance, overflow paths of increment_counter, and one symbolic iteration of the catch-up loop '
                      '(field-sensitive loop havoc) whose increment and firing condition are decided from the path '
                      'conditions; dataflow of the remaining-count variable for uniformity.', exhaustive=True)
