"""C08 - EI delay, DI/RETI immediacy, HALT/STOP suspension (instruction stepping)."""
from .. import absint, busmodel as bm, headercfg, terms as T
from ..terms import C, S, O, AV, fmt
from ..affine import aff, _signed, _range
from .common import *
from .c06 import status_constants

RI = CORE + 'run_interp'
RNO = 'interpreter::run_next_op'
IME = ['Enabled', 'Disabled', 'EnableNext']


def reference(ime, status, names):
    run = None
    if ime == 'EnableNext':
        ime = 'Enabled'
    s = names.get(status)
    if s == 'STATUS_STOP':
        run = 'Stop'
    elif s == 'STATUS_HALT':
        run = 'Halt'
    elif s == 'STATUS_INTERRUPT_DISABLE':
        ime = 'Disabled'
    elif s == 'STATUS_INTERRUPT_ENABLE':
        if ime == 'Disabled':
            ime = 'EnableNext'
    elif s == 'STATUS_INTERRUPT_ENABLE_IMMEDIATE':
        ime = 'Enabled'
    return ime, run


def run(ctx, chk):
    chk.rule('C08.1', 'D', 'one-step relation of Core::run_interp over (IME, status) equals the reference: EnableNext '
             'promoted first, then the status mapping', floor=18)
    chk.rule('C08.2', 'D', 'status constants are pairwise distinct', floor=1)
    chk.rule('C08.3', 'D', 'only handle_interrupt loads an interrupt vector into PC / clears IF bits; no dispatch with IME '
             'off (C07.2)', floor=2)
    chk.rule('C08.4', 'D', 'suspended CPU: update ticks exactly 4 clocks, checks interrupts, executes nothing; run_state '
             ':= Run only in handle_interrupt / constructors', floor=3)
    chk.rule('C08.6', 'D', 'the interpreter reports EI, DI, RETI, HALT and STOP to the step function with their own status '
             'codes (RETI = enable immediately, EI = enable after the next instruction), and every other instruction with '
             'NORMAL', floor=5)
    chk.rule('C08.5', 'D', 'run_next_op returns None only for an empty fetch slice, and no fetchable range is empty', floor=5)
    facts = ctx.facts('default')
    prog = ctx.program('default')
    file = 'src/emulator.rs'
    # ---- rule 6: which status each control instruction hands to the step function
    from .c06 import status_constants
    from .. import opspec as osp2
    sc = status_constants(facts)
    spx = ctx.opspec('default')
    for enc, mn, want in (((None, 0xfb), 'EI', 'STATUS_INTERRUPT_ENABLE'), ((None, 0xf3), 'DI', 'STATUS_INTERRUPT_DISABLE'),
                          ((None, 0xd9), 'RETI', 'STATUS_INTERRUPT_ENABLE_IMMEDIATE'), ((None, 0x76), 'HALT', 'STATUS_HALT'),
                          ((None, 0x10), 'STOP', 'STATUS_STOP'), ((None, 0x00), 'NOP', 'STATUS_NORMAL')):
        got = set()
        for r in spx.interp(enc):
            if r.status == 'ok':
                got.add(r.state.env.const_of(r.ret) if r.ret is not None and T.is_int(r.ret) else None)
        if got == {sc[want]}:
            chk.ok('C08.6', mn, sample={'instruction': mn, 'status': want})
        else:
            chk.fail('C08.6', mn, '%s is reported to the step function with status %s, expected %s = %d' % (
                mn, sorted(map(str, got)), want, sc[want]), 'src/interpreter/mod.rs', None)
    if not need(chk, prog, [RI, RNO, CORE + 'update', CORE + 'handle_interrupt']):
        return chk.finish('anchors missing')
    names = status_constants(facts)
    by_val = {v: k for k, v in names.items()}
    if len(set(names.values())) == len(names) == 6:
        chk.ok('C08.2', 'distinct', sample=names)
    else:
        chk.fail('C08.2', 'distinct', 'status constants are not pairwise distinct: %s' % names, 'src/cpu.rs', None)
    adt = facts['adts']['emulator::InterruptState']
    discr = {v['name']: v['discr'] for v in adt['variants']}
    opaque = [RNO, CORE + 'handle_interrupt', 'mem::MemoryAreas::run_clock_cycles', 'devices::io::IO::run_clock_cycles',
              'cpu::Registers::get_consumed_cycles']
    ip = absint.Interp(facts, opaque=opaque, trust_asserts=('overflow',))
    st = ip.new_state()
    core = ip.arg_object(st, 'core')
    rs = ip.run(RI, [core], st)
    paths = []
    for r in rs:
        calls = [e for e in r.state.events if e[0] == 'call']
        rno = [c for c in calls if c[1] == RNO]
        if r.status != 'ok':
            # the None arm panics: accepted (rule 5)
            continue
        if not rno:
            chk.fail('C08.1', 'no-step', 'a completing path of run_interp does not execute an instruction', file, None)
            continue
        ret = rno[0][3]
        # status = ((ret as Some).0).0
        status = find_status(r, ret)
        imed = S(64, 'discr(core.interrupts_enabled)', ('discr', 'core.interrupts_enabled'))
        stores = [(e[2][-1][1], e[3], len(r.state.events)) for e in r.state.events
                  if e[0] == 'store' and e[1] == 'core' and e[2][-1][1] in ('interrupts_enabled', 'run_state')]
        order = [e for e in r.state.events if (e[0] == 'call') or
                 (e[0] == 'store' and e[1] == 'core' and e[2][-1][1] in ('interrupts_enabled', 'run_state'))]
        paths.append({'r': r, 'status': status, 'ime': imed, 'stores': stores, 'order': order})
    combos = 0
    for ime in IME:
        for sv in list(range(6)) + [7]:
            combos += 1
            hits = []
            for p in paths:
                env = p['r'].state.env
                if p['status'] is None:
                    continue
                if env.possible(p['ime'], discr[ime]) and env.possible(p['status'], sv) and \
                        compatible(env, p['ime'], discr[ime], p['status'], sv):
                    hits.append(p)
            key = '%s:%s' % (ime, by_val.get(sv, 'other(%d)' % sv))
            if not hits:
                chk.fail('C08.1', key, 'no path of run_interp covers IME=%s, status=%d' % (ime, sv), file, None)
                continue
            outs = set()
            for p in hits:
                ime_out, run_out = ime, None
                for fld, val, _ in p['stores']:
                    vn = val[1][3] if val[0] == 'agg' else fmt(val)
                    if fld == 'interrupts_enabled':
                        ime_out = vn
                    else:
                        run_out = vn
                outs.add((ime_out, run_out))
            if len(outs) != 1:
                chk.fail('C08.1', key, 'IME=%s, status=%d: outcome depends on something else: %s' % (ime, sv, sorted(map(str, outs))),
                         file, None)
                continue
            ime_out, run_out = next(iter(outs))
            p = hits[0]
            want = reference(ime, sv, by_val)
            # promotion must precede the status mapping: when both write IME, the promotion store comes first -> last wins
            if (ime_out, run_out) == want:
                chk.ok('C08.1', key, sample={'ime_in': ime, 'status': by_val.get(sv, sv), 'ime_out': ime_out,
                                             'run_state': run_out or 'unchanged'})
            else:
                chk.fail('C08.1', key, 'IME=%s, status=%s: run_interp leaves IME=%s run_state=%s, reference IME=%s run_state=%s'
                         % (ime, by_val.get(sv, sv), ime_out, run_out or 'unchanged', want[0], want[1] or 'unchanged'),
                         file, None)
            # ordering: handle_interrupt after device catch-up after the IME update
            seq = [('call:' + e[1].split('::')[-1]) if e[0] == 'call' else 'store' for e in p['order']]
            if seq and seq[-1] != 'call:handle_interrupt':
                chk.fail('C08.1', key + ':order', 'handle_interrupt is not the last effect of the step: %s' % seq, file, None)
    # ---- rule 3
    # PC is written by the interpreter's instruction functions, by the register-file constructors and - outside
    # instruction execution - by handle_interrupt only (a dispatch from anywhere else would bypass the IME test of C07.2)
    ipst = prog.field_stores('cpu::Registers', 'ip')
    outside = sorted(set(f for f, bb, line, rv, kind in ipst
                         if not f.startswith('interpreter::') and not f.startswith('cpu::Registers::') and
                         not f.startswith('<cpu::Registers as ')))       # trait constructors (a derived Default)
    vec_fns = outside
    if outside and set(outside) <= families(prog, [CORE + 'handle_interrupt']):
        chk.ok('C08.3', 'vector-writers', sample={'writers of PC outside instruction execution': outside})
    else:
        chk.fail('C08.3', 'vector-writers', 'PC is written outside instruction execution by %s (expected handle_interrupt only)'
                 % outside, file, None)
    clr = sorted(set(c[0] for c in prog.callers('devices::interrupts::InterruptFlag::clear')))
    if clr and set(clr) <= families(prog, [CORE + 'handle_interrupt']):
        chk.ok('C08.3', 'if-clear', sample={'callers of InterruptFlag::clear': clr})
    else:
        chk.fail('C08.3', 'if-clear', 'InterruptFlag::clear is called from %s' % clr, file, None)
    # ---- rule 4
    for cfg in ('default', 'jit'):
        fx = ctx.facts(cfg)
        pg = ctx.program(cfg)
        steps = [RI, CORE + 'run_code_block']
        ipu = absint.Interp(fx, opaque=steps + [CORE + 'handle_interrupt', 'mem::MemoryAreas::run_clock_cycles',
                                                'devices::io::IO::run_clock_cycles'])
        st = ipu.new_state()
        core = ipu.arg_object(st, 'core')
        rs = ipu.run(CORE + 'update', [core], st)
        rsd = S(64, 'discr(core.run_state)', ('discr', 'core.run_state'))
        run_discr = [v['discr'] for v in fx['adts']['emulator::RunState']['variants'] if v['name'] == 'Run'][0]
        okk = True
        why = ''
        seen_susp = False
        for r in rs:
            calls = [e for e in r.state.events if e[0] == 'call']
            cn = [c[1] for c in calls]
            env = r.state.env
            running = env.av(rsd).is_const() and env.av(rsd).lo == run_discr
            if running:
                if not any(c in steps for c in cn):
                    okk, why = False, 'Run arm executes nothing'
            else:
                seen_susp = True
                if any(c in steps for c in cn):
                    okk, why = False, 'suspended arm executes instructions (%s)' % cn
                elif cn != ['mem::MemoryAreas::run_clock_cycles', CORE + 'handle_interrupt']:
                    okk, why = False, 'suspended arm performs %s, expected [run_clock_cycles, handle_interrupt]' % cn
                else:
                    a = calls[0][2][1]
                    v = a[2][0] if a[0] == 'agg' else a
                    if not (T.is_int(v) and env.const_of(v) == 4):
                        okk, why = False, 'suspended arm ticks %s clocks, expected 4' % fmt(a)
                if env.possible(rsd, run_discr):
                    okk, why = False, 'suspended arm can be taken while run_state == Run'
        if okk and seen_susp:
            chk.ok('C08.4', cfg + ':update', sample={'suspended': ['run_clock_cycles(4)', 'handle_interrupt']})
        else:
            chk.fail('C08.4', cfg + ':update', 'Core::update: %s' % (why or 'no suspended arm found'), file, None)
        rsw = pg.field_stores('emulator::Core', 'run_state')
        run_writers = set()
        for fname, bb, line, rv, kind in rsw:
            if rv is None:
                continue
            fn = pg.fns[fname]
            # value operand: find the aggregate assigned to that local
            op = rv.get('op') if rv['k'] == 'use' else None
            val = None
            if rv['k'] == 'aggregate':
                val = rv['kind'].get('variant')
            elif op and op['k'] in ('copy', 'move'):
                l = op['place']['local']
                for b in fn['blocks']:
                    for s in b['stmts']:
                        if s['k'] == 'assign' and s['place']['local'] == l and not s['place']['proj'] and \
                                s['rv']['k'] == 'aggregate':
                            val = s['rv']['kind'].get('variant')
            if val == 'Run':
                run_writers.add(fname)
        hfam = families(pg, [CORE + 'handle_interrupt'])
        allowed = hfam | families(pg, [CORE + 'with_code_block', CORE + 'from_rom_file'])
        if run_writers <= allowed and (run_writers & hfam):
            chk.ok('C08.4', cfg + ':run-writers', sample={'run_state := Run in': sorted(run_writers)})
        else:
            chk.fail('C08.4', cfg + ':run-writers', 'run_state := Run is stored in %s' % sorted(run_writers), file, None)
    # ---- rule 7: a suspended CPU resumes only through handle_interrupt's wake-up, which needs an *enabled* request
    chk.rule('C08.7', 'D', 'HALT/STOP end only when an enabled interrupt is requested: handle_interrupt stores '
             'run_state := Run exactly when (IF & IE) != 0 on entry', floor=2)
    from . import c07
    for cfg in ('default', 'jit'):
        _, rs7, _ = c07.analyse(ctx.facts(cfg))
        IF7 = S(8, 'core.memory.io.interrupt_flag.0', ('field', 'devices::interrupts::InterruptFlag', '0', 'u8'))
        c07.wake_rule(chk, 'C08.7', cfg, rs7, IF7, file)
    # ---- rule 8: HALT / STOP / EI / DI / RETI leave PC at the instruction that follows them (value level, both engines)
    chk.rule('C08.8', 'D', 'resume address: after HALT, STOP, EI and DI the interpreter leaves PC = address of the following '
             'instruction (STOP is two bytes), RETI leaves the popped address; translated code agrees', floor=5)
    from .. import valsem, jitsem, sm83 as _sm
    CTRL = {'HALT', 'STOP', 'EI', 'DI', 'RETI'}
    resi = valsem.all_results(ctx)
    resj = jitsem.all_results(ctx)
    from .. import opspec as _osp
    for enc, r in sorted(resi.items(), key=lambda kv: (kv[0][0] or 0, kv[0][1])):
        mn = _sm.TABLE[enc]['mn'].split()[0]
        if mn not in CTRL:
            continue
        name = _osp.enc_name(enc)
        if r.undecided:
            chk.error('C08.8 %s: undecided: %s' % (name, r.undecided))
            continue
        bad = [(c, msg) for c, msg in r.findings if c in ('PC', 'total', 'SP')]
        for lbl, rj in resj.get(enc, []):
            if rj.undecided:
                chk.error('C08.8 %s (translated): undecided: %s' % (name, rj.undecided))
            bad += [(c, 'translated code: ' + msg) for c, msg in rj.findings if c in ('PC', 'SP')]
        if bad:
            chk.fail('C08.8', '%s:%s' % (name, bad[0][0]), '%s: %s' % (_sm.TABLE[enc]['mn'], bad[0][1]),
                     'src/interpreter/mod.rs', None)
        else:
            chk.ok('C08.8', name, sample={'instruction': _sm.TABLE[enc]['mn'], 'PC after': 'address + length (RETI: popped)'})
    # ---- rule 5
    fixed = headercfg.fixed_buffer_sizes(facts)
    lens = {b: v[1] for b, v in fixed.items() if v[0] == 'const'}
    model = bm.BusModel(facts)

    def lf(t):
        m = t[3]
        if m and m[0] == 'len':
            b = bm.buffer_of(m[1])
            if b in lens:
                return AV.const(64, lens[b])
            if b == 'rom':
                return AV(64, 0x8000, 1 << 24)
        return None
    model.extra_facts = lf
    n = 0
    for f in model.fetch_paths():
        if f['status'] != 'ok':
            continue
        n += 1
        env = f['env']
        co, c, w = aff(f['len'], env)
        sco, sc = _signed(co, c, w)
        lo, hi = _range(sco, sc, env)
        key = 'fetch:%04x-%04x:%s' % (f['lo'], f['hi'], '/'.join(x.split('::')[-1] for x in f['cart']) or '-')
        if lo >= 1:
            chk.ok('C08.5', key, sample={'range': '%04x-%04x' % (f['lo'], f['hi']), 'min_len': lo})
        else:
            chk.fail('C08.5', key, 'fetch slice for 0x%04x-0x%04x can be empty (length %s >= %d not provable): run_next_op '
                     'would return None and run_interp panics' % (f['lo'], f['hi'], fmt(f['len'])[:100], lo), 'src/mem.rs', None)
    # block-stepped difference, informational
    chk.info('block stepping (run_code_block) maps STATUS_INTERRUPT_ENABLE directly to Enabled; the property is stated for '
             'instruction stepping and this is not treated as a violation')
    chk.assumptions += ['the status value is the one returned by run_next_op (C06.7 decides which opcode returns which)',
                        'HALT executed while an interrupt is already pending (hardware quirk) is excluded by the property']
    return chk.finish('The complete one-step transition relation of Core::run_interp over (master-enable state x status '
                      'code) is extracted by path-sensitive abstract interpretation (run_next_op, device catch-up and '
                      'handle_interrupt opaque) and compared with the reference relation; a sequence property of this '
                      'finite deterministic machine holds for all sequences iff it holds for the relation.', exhaustive=True)


def find_status(r, ret):
    """the symbol tested by the status match: derived from the Some payload of run_next_op's result"""
    name = ret[2] if ret[0] == 's' else None
    for d in r.state.decisions:
        t = d[0]
        if t[0] == 's' and name and t[2].startswith(name) and t[1] == 8:
            return t
    # an `==` ladder tests eq(status, CONST) instead of switching on the status itself
    from .c03 import syms_of
    for d in r.state.decisions:
        for t in sorted(syms_of(d[0]), key=lambda x: x[2]):
            if name and t[2].startswith(name) and t[1] == 8:
                return t
    # undecided (NORMAL/otherwise arm taken without refinement is impossible: the switch always records a decision)
    for d in r.state.decisions:
        if d[0][0] == 's' and d[0][1] == 8:
            return d[0]
    return None


def compatible(env, t1, v1, t2, v2):
    e = env.copy()
    return e.assume_eq(t1, v1) and e.assume_eq(t2, v2) and e.consistent()
