"""C09 - emulated time is conserved between the CPU and the devices."""
from .. import absint, opspec as osp, emitmodel as em, terms as T
from ..terms import C, S, O, AV, fmt
from .common import *

GCC = 'cpu::Registers::get_consumed_cycles'
MRC = 'mem::MemoryAreas::run_clock_cycles'
IRC = 'devices::io::IO::run_clock_cycles'
TRC = 'devices::timer::Timer::run_cycles'
VRC = 'devices::video::VideoState::run_clock_cycles'
JGI = 'devices::joypad::Joypad::get_interrupt'
HI = CORE + 'handle_interrupt'
TCC = 'timing::MachineCycles::to_clock_cycles'


def unwrap(v):
    """ClockCycles(x) / MachineCycles(x) newtype -> x"""
    while v is not None and v[0] == 'agg' and len(v[2]) == 1:
        v = v[2][0]
    return v


def run(ctx, chk):
    chk.rule('C09.1', 'D', 'machine->clock conversion multiplies by 4; get_consumed_cycles returns the counter and zeroes it',
             floor=2)
    chk.rule('C09.2', 'D', 'every completing path of each step function delivers exactly once: clocks = 4 x the value '
             'returned by get_consumed_cycles (unbroken def-use), before handle_interrupt', floor=3)
    chk.rule('C09.3', 'D', 'interrupt dispatch accounting: every path of handle_interrupt that pushes PC or redirects it '
             'adds exactly 5 machine cycles to Registers.cycles (delivered with the next step); every other path adds none',
             floor=8)
    chk.rule('C09.8', 'D', 'a step spent halted or stopped delivers exactly one machine cycle (4 clocks) to the devices before '
             'interrupts are sampled, on every non-running path of Core::update; every step delivers time', floor=2)
    chk.rule('C09.4', 'D', 'fan-out: MemoryAreas::run_clock_cycles hands the same clock count to IO::run_clock_cycles, '
             'which hands it to the timer and the LCD controller, each exactly once on every path', floor=2)
    chk.rule('C09.5', 'D', 'device tick functions are called only through that chain', floor=4)
    chk.rule('C09.6', 'D', 'progress and congruence: every instruction charges >= 1 machine cycle in both engines; every '
             'clock count delivered to the devices is a multiple of 4', floor=1000)
    chk.rule('C09.7', 'N', 'run_frame loops contain nothing but update() and the mode query (premise of the termination '
             'argument; the bound itself is not machine-checked)', floor=1)
    for cfg in ('default', 'jit'):
        facts = ctx.facts(cfg)
        prog = ctx.program(cfg)
        if not need(chk, prog, [GCC, MRC, IRC, TRC, VRC, HI, TCC, CORE + 'update', CORE + 'run_code_block', CORE + 'run_interp']):
            continue
        file = 'src/emulator.rs'
        dispatch_accounting(chk, cfg, facts, file)
        suspended_steps(chk, cfg, facts, file)
        if cfg == 'default':
            ip = absint.Interp(facts, trust_asserts=('overflow',))
            st = ip.new_state()
            mc = ('agg', ('adt', 'timing::MachineCycles', 0, 'MachineCycles'), (S(64, 'm'),))
            st.mem[('O', 'mc')] = mc
            rs = ip.run(TCC, [('ref', ('O', 'mc'), ())], st)
            v = unwrap(rs[0].ret) if rs and rs[0].status == 'ok' else None
            if v == O(64, 'mul', S(64, 'm'), C(64, 4)):
                chk.ok('C09.1', 'to_clock_cycles', sample={'clocks': fmt(v)})
            else:
                chk.fail('C09.1', 'to_clock_cycles', 'to_clock_cycles computes %s, expected machine cycles * 4' % fmt(v),
                         'src/timing.rs', None)
            st = ip.new_state()
            regs = ip.arg_object(st, 'regs')
            rs = ip.run(GCC, [regs], st)
            okk = False
            if len(rs) == 1 and rs[0].status == 'ok':
                r = rs[0]
                stores = [e for e in r.state.events if e[0] == 'store' and e[2][-1][1] == 'cycles']
                okk = (len(stores) == 1 and stores[0][3] == C(32, 0) and
                       r.ret == O(64, 'zext', S(32, 'regs.cycles', ('field', 'cpu::Registers', 'cycles', 'u32'))))
            if okk:
                chk.ok('C09.1', 'get_consumed_cycles', sample={'returns': 'old cycles', 'stores': 0})
            else:
                chk.fail('C09.1', 'get_consumed_cycles', 'get_consumed_cycles is not read-then-zero', 'src/cpu.rs', None)
        # ---- rule 2: step functions
        engine = ['interpreter::run_code_block', 'interpreter::run_next_op', 'cache::CodeCache::call',
                  'cache::CodeCache::translate_code_block', 'cache::CodeCache::get_address_for_ip', 'mem::can_dynarec',
                  'mem::MemoryAreas::as_ptr']
        ip = absint.Interp(facts, opaque=[GCC, MRC, IRC, HI] + [e for e in engine if e in facts['functions']],
                           trust_asserts=('overflow',))
        delivered_args = []
        for fn in (CORE + 'run_code_block', CORE + 'run_interp'):
            st = ip.new_state()
            core = ip.arg_object(st, 'core')
            rs = ip.run(fn, [core], st)
            bad = None
            n = 0
            for r in rs:
                if r.status != 'ok':
                    continue
                n += 1
                calls = [e for e in r.state.events if e[0] == 'call']
                g = [c for c in calls if c[1] == GCC]
                d = [c for c in calls if c[1] == MRC]
                h = [c for c in calls if c[1] == HI]
                if len(g) != 1 or len(d) != 1 or len(h) != 1:
                    bad = 'path with %d get_consumed_cycles, %d run_clock_cycles, %d handle_interrupt calls' % (len(g), len(d), len(h))
                    break
                arg = unwrap(d[0][2][1])
                if arg != O(64, 'mul', g[0][3], C(64, 4)):
                    bad = 'delivers %s clocks, expected 4 x the consumed machine cycles (%s)' % (fmt(arg), fmt(g[0][3]))
                    break
                idx = [calls.index(g[0]), calls.index(d[0]), calls.index(h[0])]
                if idx != sorted(idx):
                    bad = 'order is not consume -> deliver -> handle_interrupt'
                    break
                delivered_args.append((r, arg))
            key = '%s:%s' % (cfg, fn.split('::')[-1])
            if bad:
                chk.fail('C09.2', key, '%s: %s' % (fn, bad), file, prog.fns[fn]['line'])
            elif not n:
                chk.fail('C09.2', key, '%s has no completing path' % fn, file, None)
            else:
                chk.ok('C09.2', key, sample={'function': fn, 'paths': n, 'delivered': '4 * get_consumed_cycles()'})
        # congruence of every delivered argument
        for r, arg in delivered_args:
            av = r.state.env.av(arg)
            if av.m0 & 3 != 3:
                chk.fail('C09.6', cfg + ':congruence', 'a delivered clock count %s is not provably a multiple of 4' % fmt(arg),
                         file, None)
                break
        else:
            chk.ok('C09.6', cfg + ':congruence', sample={'delivered': 'mul(consumed, 4)', 'low bits': 'known zero'})
        # ---- rule 4: fan-out
        ipm = absint.Interp(facts, opaque=['mem::memory_read_byte', 'mem::memory_write_byte', IRC], loop_mode='havoc',
                            trust_asserts=('overflow', 'bounds'), opaque_havoc={'mem::memory_write_byte': [0]})
        st = ipm.new_state()
        mem = ipm.arg_object(st, 'mem')
        cyc = ('agg', ('adt', 'timing::ClockCycles', 0, 'ClockCycles'), (S(64, 'clocks'),))
        rs = ipm.run(MRC, [mem, cyc], st)
        bad = None
        n = 0
        for r in rs:
            if r.status in ('loopback', 'unreachable'):
                continue            # (unreachable: the impossible arm of a match on a two-variant Option)
            if r.status != 'ok':
                bad = 'path %s %s' % (r.status, r.detail)
                break
            n += 1
            io = [e for e in r.state.events if e[0] == 'call' and e[1] == IRC]
            if len(io) != 1 or unwrap(io[0][2][1]) != S(64, 'clocks'):
                bad = 'IO::run_clock_cycles called %d times with %s' % (len(io), [fmt(unwrap(c[2][1])) for c in io])
                break
        if bad or not n:
            chk.fail('C09.4', cfg + ':memory', 'MemoryAreas::run_clock_cycles: %s' % (bad or 'no completing path'), 'src/mem.rs', None)
        else:
            chk.ok('C09.4', cfg + ':memory', sample={'paths': n, 'passes': 'cycles unchanged to IO::run_clock_cycles'})
        ipi = absint.Interp(facts, opaque=[TRC, VRC, JGI])
        st = ipi.new_state()
        io = ipi.arg_object(st, 'io')
        rs = ipi.run(IRC, [io, cyc, S(0, 'vram'), S(0, 'oam')], st)
        bad = None
        for r in rs:
            if r.status != 'ok':
                bad = 'path %s' % r.status
                break
            calls = [e for e in r.state.events if e[0] == 'call']
            t = [c for c in calls if c[1] == TRC]
            v = [c for c in calls if c[1] == VRC]
            if len(t) != 1 or len(v) != 1 or unwrap(t[0][2][1]) != S(64, 'clocks') or unwrap(v[0][2][1]) != S(64, 'clocks'):
                bad = 'timer called %d times, LCD %d times, args %s' % (len(t), len(v),
                                                                     [fmt(unwrap(c[2][1])) for c in t + v])
                break
            stores = [e for e in r.state.events if e[0] == 'store' and 'interrupt_flag' in str(e[2])]
            if not stores:
                bad = 'returned interrupt requests are not merged into IF'
                break
            val = stores[-1][3]
            need_syms = {t[0][3], v[0][3]}
            jg = [c for c in calls if c[1] == JGI]
            if jg:
                need_syms.add(jg[0][3])
            have = set()
            _collect(val, have)
            if not all(any(x == y or (y[0] == 's' and x[0] == 's' and y[2].startswith(x[2])) for y in have) for x in need_syms):
                bad = 'IF update %s does not include the timer, LCD and joypad results' % fmt(val)[:160]
                break
        if bad:
            chk.fail('C09.4', cfg + ':io', 'IO::run_clock_cycles: %s' % bad, 'src/devices/io.rs', None)
        else:
            chk.ok('C09.4', cfg + ':io', sample={'passes': 'cycles unchanged to Timer::run_cycles and VideoState::run_clock_cycles'})
        # ---- rule 5
        # the step function and the private helpers it is split into (run_interp, run_code_block, ...)
        want = {TRC: private_family(prog, IRC), VRC: private_family(prog, IRC), IRC: private_family(prog, MRC),
                MRC: private_family(prog, STEP3)}
        for f, allowed in want.items():
            cs = set(c[0] for c in prog.callers(f))
            key = '%s:%s' % (cfg, f.split('::')[-2] + '::' + f.split('::')[-1])
            if cs and cs <= allowed:
                chk.ok('C09.5', key, sample={'callee': f, 'callers': sorted(cs)})
            else:
                chk.fail('C09.5', key, '%s is called from %s (allowed: %s)' % (f, sorted(cs), sorted(allowed)),
                         prog.fns[f]['file'], None)
    # ---- rule 6: progress per instruction
    sp = ctx.opspec('jit')
    rm = em.RegMaps(ctx.facts('jit'))
    for enc in osp.all_encodings():
        name = osp.enc_name(enc)
        try:
            opv, ln, cy = sp.decoded(enc)
        except absint.Abort:
            continue
        if opv[1][3] == 'Invalid':
            continue
        if cy is None or cy < 4 or cy % 4:
            chk.fail('C09.6', 'dec:' + name, 'decoder charges %s clocks (must be a positive multiple of 4)' % cy,
                     'src/decoder/mod.rs', None)
        else:
            chk.ok('C09.6', 'dec:' + name, nontrivial=False)
        ers = sp.emit(enc)
        if len(ers) == 1 and ers[0].status == 'ok':
            try:
                summ = em.summarise_emit(ers[0], rm)
                base, extra, bad = em.emitted_cycles(summ)
                if base >= 1 and not bad:
                    chk.ok('C09.6', 'emit:' + name, nontrivial=False)
                else:
                    chk.fail('C09.6', 'emit:' + name, 'emitted code charges %d cycles on the fall-through path' % base,
                             'src/emitter/x86_64.rs', None)
            except absint.Abort as e:
                chk.error('emitter summary %s: %s' % (name, e.why))
    # ---- rule 7
    prog = ctx.program('default')
    rf = CORE + 'run_frame'
    if rf in prog.fns:
        # run_frame and the private helpers it is split into
        rfam = private_family(prog, rf)
        callees = sorted(set(n for f_ in rfam if f_ in prog.fns for bb, t, names in prog.call_sites(f_) for n in names
                             if n not in rfam and not n.startswith(('<', 'std::', 'core::', 'alloc::'))))
        allowed = {CORE + 'update', 'devices::video::VideoState::get_current_mode'}
        if set(callees) <= allowed and CORE + 'update' in callees:
            chk.ok('C09.7', 'run_frame', sample={'callees': callees})
        else:
            chk.fail('C09.7', 'run_frame', 'run_frame calls %s' % callees, 'src/emulator.rs', prog.fns[rf]['line'])
    # ---- rule 9: cycles pending in Registers.cycles (the 5 of a dispatch) survive the entry into translated code
    chk.rule('C09.9', 'D', 'the cycle counter survives the call frame of translated code: the entry trampoline loads '
             'Registers.cycles, the exit stores it back (a dispatch leaves its 5 cycles there for the next step)', floor=2)
    from .. import jitsem
    jitsem.apply_frame_rule(ctx, chk, 'C09.9', lambda c: c in ('load:cycles', 'store:cycles'))
    chk.assumptions += ['run_frame termination within two frame periods is argued from rules 2, 6 and C14 on paper; the bound '
                        'itself is a liveness statement and is not decided',
                        'usize multiplication by 4 does not overflow (cycle counts are drained every step)']
    return chk.finish('Must-pass-through and def-use analysis of the step functions in both configurations (exactly one '
                      'consume -> x4 -> deliver -> handle_interrupt chain per completing path), fan-out of the clock count '
                      'through MemoryAreas/IO to timer and LCD, who-may-call for device ticks, and per-opcode progress / '
                      'congruence of cycle constants in decoder and emitter.', exhaustive=True)


def _collect(t, out):
    stack = [t]
    while stack:
        x = stack.pop()
        if not isinstance(x, tuple) or not x:
            continue
        if x[0] == 's':
            out.add(x)
        elif x[0] in ('o',):
            stack.extend(x[3:])
        elif x[0] == 'agg':
            stack.extend(x[2])
        elif x[0] == 'snap':
            stack.extend(v for _, v in x[2])
            if x[1]:
                stack.append(x[1])


def dispatch_accounting(chk, cfg, facts, file):
    from . import c07
    from ..affine import diff_const
    ip, rs, inv = c07.analyse(facts)
    cyc0 = S(32, 'core.registers.cycles', ('field', 'cpu::Registers', 'cycles', 'u32'))
    for i, r in enumerate(rs):
        key = '%s:path%d' % (cfg, i)
        if r.status != 'ok':
            chk.fail('C09.3', key, 'handle_interrupt can diverge: %s %s' % (r.status, r.detail), file, None)
            continue
        st_ = c07.stores_of(r)
        calls = [e for e in r.state.events if e[0] == 'call']
        dispatch = bool(calls) or any(n in ('registers.ip', 'registers.sp') for n, _, _ in st_)
        cyc = [v for n, v, _ in st_ if n == 'registers.cycles']
        if cyc:
            base = [t for t in _syms(cyc[-1]) if t[2].endswith('registers.cycles')]
            delta = diff_const(cyc[-1], base[0], r.state.env, 32) if base else None
        else:
            delta = 0
        want = 5 if dispatch else 0
        if delta == want:
            chk.ok('C09.3', key, nontrivial=dispatch, sample={'path': key, 'dispatch': dispatch, 'cycles_added': delta}
                   if dispatch and i % 3 == 0 else None)
        else:
            line = None
            for e in r.state.events:
                if e[0] == 'store' and e[1] == 'core' and e[2][-1][1] == 'ip':
                    line = e[4][1]
            chk.fail('C09.3', key, 'a handle_interrupt path that %s adds %s machine cycles to Registers.cycles, expected %d '
                     '(the devices would %s the CPU)' % ('dispatches (pushes PC / sets PC)' if dispatch else 'does not dispatch',
                                                           delta, want, 'fall behind' if (delta or 0) < want else 'run ahead of'),
                     file, line)


def _syms(t, out=None):
    out = [] if out is None else out
    if t[0] == 's':
        out.append(t)
    elif t[0] == 'o':
        for a in t[3:]:
            if isinstance(a, tuple):
                _syms(a, out)
    return out


def suspended_steps(chk, cfg, facts, file):
    steps = [CORE + 'run_interp', CORE + 'run_code_block']
    ipu = absint.Interp(facts, opaque=steps + [HI, MRC, IRC])      # a direct device tick is reported by C09.5, not followed
    st = ipu.new_state()
    core = ipu.arg_object(st, 'core')
    rs = ipu.run(CORE + 'update', [core], st)
    bad = None
    nsusp = nrun = 0
    for r in rs:
        if r.status != 'ok':
            bad = bad or 'Core::update can diverge (%s)' % (r.detail,)
            continue
        calls = [e for e in r.state.events if e[0] == 'call']
        cn = [c[1] for c in calls]
        if any(c in steps for c in cn):
            nrun += 1            # the step function delivers its own time (rule 2)
            continue
        nsusp += 1
        if MRC not in cn and IRC in cn:
            bad = bad or 'a suspended step hands its clocks to IO::run_clock_cycles directly, bypassing ' \
                         'MemoryAreas::run_clock_cycles: the OAM DMA engine gets no time while the CPU is halted or stopped'
            continue
        if MRC not in cn:
            bad = bad or 'a path of Core::update on which no instruction runs delivers no clocks to the devices (time stands ' \
                         'still while the CPU is suspended; run_frame cannot terminate)'
            continue
        if HI in cn and cn.index(MRC) > cn.index(HI):
            bad = bad or 'the suspended step samples interrupts before delivering its clocks'
        a = calls[cn.index(MRC)][2][1]
        v = unwrap(a)
        if not (v is not None and T.is_int(v) and r.state.env.const_of(v) == 4):
            bad = bad or 'the suspended step delivers %s clocks, expected 4 (one machine cycle)' % fmt(a)
        if cn.count(MRC) != 1:
            bad = bad or 'the suspended step delivers clocks %d times' % cn.count(MRC)
    key = cfg + ':suspended'
    if bad:
        chk.fail('C09.8', key, bad, file, None)
    elif not nsusp or not nrun:
        chk.error('C09.8: Core::update has no %s path' % ('suspended' if not nsusp else 'running'))
    else:
        chk.ok('C09.8', key, sample={'suspended paths': nsusp, 'running paths': nrun, 'clocks per suspended step': 4})
