"""C07 - interrupt dispatch: priority, masking, master enable."""
import re
from .. import absint, sm83, terms as T
from ..terms import C, S, O, AV, fmt, bit_provenance
from ..affine import diff_const, equal_mod
from ..invariants import FieldInvariants
from .common import *

HI = CORE + 'handle_interrupt'
WB = 'mem::memory_write_byte'


def core_field(name, ty='u32', owner='emulator::Core'):
    return S(T.int_type(ty)[0] if T.int_type(ty) else 0, 'core.' + name, ('field', owner, name, ty))


def reg(name):
    return S(32, 'core.registers.' + name, ('field', 'cpu::Registers', name, 'u32'))


def analyse(facts, cfg_inv=True):
    inv = FieldInvariants(facts)
    inv.track('devices::interrupts::InterruptFlag', '0')
    inv.track('devices::io::IO', 'interrupt_mask')

    def sf(t):
        m = t[3]
        if m and m[0] == 'field' and m[1] == 'cpu::Registers':
            if m[2] == 'cycles':
                return AV(32, 0, 1 << 24)
            return AV(32, 0, 0xffff)
        return inv.sym_facts(t)
    ip = absint.Interp(facts, opaque=[WB], opaque_havoc={WB: [0]}, sym_facts=sf, precise=True)
    st = ip.new_state()
    core = ip.arg_object(st, 'core')
    return ip, ip.run(HI, [core], st), inv


def stores_of(r):
    out = []
    for e in r.state.events:
        if e[0] == 'store' and e[1] == 'core':
            out.append(('.'.join(str(x[1]) for x in e[2]), e[3], e[4]))
    return out


def wake_rule(chk, rid, cfg, rs, IF, file):
    """wake-up condition, value level: run_state := Run is stored exactly on the paths whose condition says that an
    *enabled* request is pending on entry ((IF & IE) != 0), and on no path where (IF & IE) == 0"""
    from .. import bvproof as _bp
    IE = S(8, 'core.memory.io.interrupt_mask', ('field', 'devices::io::IO', 'interrupt_mask', 'u8'))
    pend = O(8, 'and', O(8, 'and', IF, IE), C(8, 0x1f))
    wbad = None
    nw = 0
    for i, r in enumerate(rs):
        if r.status != 'ok':
            continue
        woke = any(s_[0] == 'run_state' for s_ in stores_of(r))
        zero = O(1, 'eq', pend, C(8, 0))
        cv = r.state.env.const_of(zero)
        if cv is None:
            pv = _bp.equal_under(zero, C(1, 0 if woke else 1), r.state.env, 1)
            cv = (0 if woke else 1) if pv is True else None
        nw += 1
        if woke and cv != 0:
            wbad = wbad or ('path %d wakes the CPU (run_state := Run) although no enabled request need be pending '
                            '(IF & IE may be 0 on it)' % i)
        elif not woke and cv != 1:
            wbad = wbad or 'path %d leaves run_state alone although an enabled request may be pending' % i
    if wbad:
        chk.fail(rid, cfg + ':wake-condition', wbad, file, None)
    elif nw:
        chk.ok(rid, cfg + ':wake-condition', sample={'run_state := Run iff': '(IF & IE & 0x1f) != 0 on entry', 'paths': nw})
    else:
        chk.error('%s: no completing path of handle_interrupt' % rid)


def ime_of(r):
    """master-enable state assumed by the path: 'Enabled' | 'other' | None"""
    for d in r.state.decisions:
        if 'interrupts_enabled' in fmt(d[0]):
            v = r.state.env.const_of(d[0])
            return v
    return None


def run(ctx, chk):
    chk.rule('C07.1', 'D', 'a pending enabled interrupt wakes the CPU (run_state := Run) before any master-enable test; '
             'no pending interrupt: nothing is written', floor=3)
    chk.rule('C07.2', 'D', 'master enable off: no dispatch - only run_state is written, no bus write', floor=1)
    chk.rule('C07.3', 'D', 'dispatch path: IME := Disabled, push PC high at SP-1 then low at SP-2 (wrapping), pending set '
             're-sampled between the pushes, +5 machine cycles, PC := vector', floor=6)
    chk.rule('C07.4', 'D', 'priority ladder VBlank>STAT>Timer>Serial>Joypad with vectors 0x40..0x60, clears exactly the '
             'dispatched IF bit; cancelled dispatch -> PC 0x0000, no bit cleared', floor=6)
    chk.rule('C07.5', 'D', 'pending set is IF & IE; IF and IE are 5-bit (every store masked / OR of sources)', floor=3)
    chk.rule('C07.6', 'D', 'handle_interrupt is called at the end of every step function and nowhere else', floor=2)
    file = 'src/emulator.rs'
    for cfg in ('default', 'jit'):
        facts = ctx.facts(cfg)
        prog = ctx.program(cfg)
        if not need(chk, prog, [HI, WB, 'devices::io::IO::get_active_interrupts']):
            continue
        ip, rs, inv = analyse(facts)
        IF = S(8, 'core.memory.io.interrupt_flag.0', ('field', 'devices::interrupts::InterruptFlag', '0', 'u8'))
        disp = 0
        agg = {}
        for i, r in enumerate(rs):
            key = '%s:path%d' % (cfg, i)
            st_ = stores_of(r)
            calls = [e for e in r.state.events if e[0] == 'call']
            names = [s[0] for s in st_]
            if r.status != 'ok':
                chk.fail('C07.3', key, 'handle_interrupt can diverge: %s %s' % (r.status, r.detail), file,
                         r.where[1] if r.where else None)
                continue
            if not st_ and not calls:
                # nothing pending: first decision must be "active == 0"
                d0 = r.state.decisions[0] if r.state.decisions else None
                if d0 is not None and r.state.env.const_of(d0[0]) in (0, 1):
                    chk.ok('C07.1', key, sample={'path': 'nothing pending', 'writes': []})
                else:
                    chk.fail('C07.1', key, 'a path without effects is not guarded by "no pending interrupt"', file, None)
                continue
            if names and names[0] != 'run_state':
                chk.fail('C07.1', key, 'first write on a pending-interrupt path is %s, expected run_state := Run'
                         % names[0], file, st_[0][2][1])
                continue
            rsv = st_[0][1]
            if not (rsv[0] == 'agg' and rsv[1][3] == 'Run'):
                chk.fail('C07.1', key, 'run_state is set to %s, expected Run' % fmt(rsv), file, st_[0][2][1])
                continue
            chk.ok('C07.1', key, nontrivial=True)
            if len(st_) == 1 and not calls:
                # IME off path
                chk.ok('C07.2', key, sample={'path': 'IME not Enabled', 'writes': names})
                continue
            # dispatch path: verdicts are filed per pending source (and the cancelled case), not per path, so that the
            # number of instances does not depend on how the ladder is written
            disp += 1
            col = Collector()
            bad = check_dispatch(r, st_, calls, IF)
            if bad:
                col.fail('C07.3', key, bad, file, None)
            else:
                col.ok('C07.3', key)
            check_ladder(col, key, r, st_, calls, file)
            for case in covered_cases(r):
                for rule, okk, msg, sample in col.items:
                    agg.setdefault((rule, case), []).append((okk, msg, sample, key))
            for e in col.errors:
                chk.error(e)
        for rule in ('C07.3', 'C07.4'):
            for case in CASES:
                res = agg.get((rule, case), [])
                k2 = '%s:%s' % (cfg, case)
                fails = [x for x in res if not x[0]]
                if not res:
                    chk.fail(rule, k2, 'no dispatch path of handle_interrupt handles the case "%s"' % case, file, None)
                elif fails:
                    chk.fail(rule, k2, '%s (path %s)' % (fails[0][1], fails[0][3]), file, None)
                else:
                    chk.ok(rule, k2, sample=res[0][2])
        wake_rule(chk, 'C07.1', cfg, rs, IF, file)
        ime_off = [r for r in rs if r.status == 'ok' and len(stores_of(r)) == 1]
        if not ime_off:
            chk.fail('C07.2', cfg + ':none', 'no path leaves the interrupt pending when the master enable is off', file, None)
        # rule 5
        gai = 'devices::io::IO::get_active_interrupts'
        ip2 = absint.Interp(facts)
        st = ip2.new_state()
        io = ip2.arg_object(st, 'io')
        rr = ip2.run(gai, [io], st)
        okk = False
        if len(rr) == 1 and rr[0].status == 'ok' and rr[0].ret[0] == 'o' and rr[0].ret[2] == 'and':
            a, b = rr[0].ret[3], rr[0].ret[4]
            names = sorted(x[3][2] for x in (a, b) if x[0] == 's' and x[3])
            okk = names == ['0', 'interrupt_mask']
        if okk:
            chk.ok('C07.5', cfg + ':active', sample={'active': fmt(rr[0].ret)})
        else:
            chk.fail('C07.5', cfg + ':active', 'get_active_interrupts is not IF & IE', 'src/devices/io.rs', None)
        for owner, fld, nm in (('devices::interrupts::InterruptFlag', '0', 'IF'), ('devices::io::IO', 'interrupt_mask', 'IE')):
            av = inv.get(owner, fld)
            if av is not None and av.hi <= 0x1f:
                chk.ok('C07.5', '%s:%s' % (cfg, nm), sample={'register': nm, 'range': [av.lo, av.hi],
                                                             'stores': inv.why.get((owner, fld), [])[:6]})
            else:
                chk.fail('C07.5', '%s:%s' % (cfg, nm), '%s can hold bits above 0x1f (some store is not masked): %s'
                         % (nm, inv.why.get((owner, fld))), 'src/devices/io.rs', None)
        # rule 6: the dispatcher is called only from the step function and the private helpers it is split into, and
        # every way through a step function reaches it
        fam = private_family(prog, STEP3) - {HI}
        callers = sorted(set(c[0] for c in prog.callers(HI)))
        if callers and set(callers) <= fam:
            chk.ok('C07.6', cfg + ':callers', sample={'callers': callers, 'step family': sorted(fam)})
        else:
            chk.fail('C07.6', cfg + ':callers', 'handle_interrupt is called from %s (the step function Core::update and '
                     'its private helpers are %s)' % (callers, sorted(fam)), file, None)
        good = always_calls(prog, fam, HI)
        for f in sorted(set(callers) | ({CORE + 'update', CORE + 'run_interp', CORE + 'run_code_block'} & fam)):
            if f not in prog.fns:
                continue
            if f in good:
                chk.ok('C07.6', '%s:%s' % (cfg, f.split('::')[-1]))
            else:
                chk.fail('C07.6', '%s:%s' % (cfg, f.split('::')[-1]), '%s can return without calling handle_interrupt' % f,
                         file, prog.fns[f]['line'])
    chk.assumptions += ['Registers.cycles stays far below 2^32 (it is drained every step, C09)',
                        'memory_write_byte may change any part of MemoryAreas (IF/IE included): its effects are havoced '
                        'between the two pushes']
    return chk.finish('All paths of Core::handle_interrupt are enumerated with IF/IE/IME/registers symbolic '
                      '(memory_write_byte opaque with havoc of MemoryAreas, so the re-sampled pending set is independent '
                      'of the first sample); per path: write set, order of effects, bus writes, path condition on the '
                      're-sampled pending set (known bits), vector and cleared bit.', exhaustive=True)


def check_dispatch(r, st_, calls, IF):
    env = r.state.env
    names = [s[0] for s in st_]
    if 'interrupts_enabled' not in names:
        return 'dispatch path does not clear the master enable'
    ie = [s for s in st_ if s[0] == 'interrupts_enabled'][0][1]
    if not (ie[0] == 'agg' and ie[1][3] == 'Disabled'):
        return 'master enable set to %s on dispatch, expected Disabled' % fmt(ie)
    ime = None
    for d in r.state.decisions:
        if 'discr(core.interrupts_enabled)' in fmt(d[0]):
            ime = env.const_of(d[0])
    if ime is None:
        return 'dispatch path is not guarded by a test of the master enable'
    if len(calls) != 2 or any(c[1] != WB for c in calls):
        return 'dispatch performs %d bus calls, expected two byte writes' % len(calls)
    sp0 = O(16, 'trunc', reg('sp'))
    ip0 = reg('ip')
    a1, v1 = calls[0][2][1], calls[0][2][2]
    a2, v2 = calls[1][2][1], calls[1][2][2]
    if diff_const(a1, sp0, env, 16) != 0xffff or diff_const(a2, sp0, env, 16) != 0xfffe:
        return 'pushes go to %s and %s, expected SP-1 then SP-2 (mod 2^16)' % (fmt(a1), fmt(a2))
    pv1 = bit_provenance(v1, env)
    pv2 = bit_provenance(v2, env)
    if pv1 != [('in', ip0, i + 8) for i in range(8)] or pv2 != [('in', ip0, i) for i in range(8)]:
        return 'pushed bytes are %s then %s, expected PC high then PC low' % (fmt(v1), fmt(v2))
    spf = [s for s in st_ if s[0] == 'registers.sp']
    if not spf or diff_const(O(16, 'trunc', spf[-1][1]), sp0, env, 16) != 0xfffe:
        return 'SP is not decremented by 2'
    if env.av(spf[-1][1]).hi > 0xffff:
        return 'SP leaves the 16-bit range after the push (%s): it must wrap modulo 65536' % fmt(spf[-1][1])
    cyc = [s for s in st_ if s[0] == 'registers.cycles']
    if not cyc or diff_const(cyc[-1][1], reg('cycles'), env, 32) != 5:
        return 'dispatch does not charge exactly 5 machine cycles'
    # re-sample between the two pushes: the term tested by the ladder must come from state havoced by the first write
    ipf = [s for s in st_ if s[0] == 'registers.ip']
    if not ipf:
        return 'PC is not redirected'
    order = [s[0] for s in st_]
    if order.index('interrupts_enabled') > order.index('registers.sp'):
        return 'master enable is cleared after the push started'
    return None


def check_ladder(chk, key, r, st_, calls, file):
    env = r.state.env
    ipf = [s for s in st_ if s[0] == 'registers.ip']
    iff = [s for s in st_ if s[0].endswith('interrupt_flag.0')]
    if not ipf:
        return
    # the re-sampled pending term: find the decision terms over 'havoc' symbols
    resample = None
    for d in r.state.decisions:
        s = fmt(d[0])
        if 'havoc' in s or 'call(memory_write_byte)' in s:
            resample = d[0]
            break
    if resample is None:
        chk.fail('C07.4', key, 'the priority ladder does not test a pending set sampled after the first push', file, None)
        return
    # which bus write produced the sampled state: the SM83 samples IF & IE after the high byte of PC has been pushed and
    # before the low byte is (only the high-byte write can cancel or re-route the dispatch)
    gens = [int(x) for x in re.findall(r'@(\d+):', fmt(resample))]
    hav = [e for e in r.state.events if e[0] == 'havoc']
    which = set()
    for g in gens:
        for n, e in enumerate(hav):
            if e[2] <= g <= e[3]:
                which.add(n)
    if which != {0}:
        chk.fail('C07.4', key, 'the pending set used by the priority ladder is sampled after bus write(s) %s of the '
                 'dispatch; it must be sampled after the first (PC high byte) and before the second (PC low byte)'
                 % sorted(w + 1 for w in which), file, None)
        return
    # the acknowledge is the last word on IF: a store to IF that is followed by a bus write of the dispatch can be
    # overwritten by it (the push lands on 0xFF0F when SP = 0xFF11 / 0xFF10), so that the serviced source stays requested
    evs = r.state.events
    bus = [i for i, e in enumerate(evs) if e[0] == 'call' and e[1] == WB]
    ifs = [i for i, e in enumerate(evs) if e[0] == 'store' and e[1] == 'core' and
           '.'.join(str(x[1]) for x in e[2]).endswith('interrupt_flag.0')]
    if ifs and bus and min(ifs) < max(bus):
        chk.fail('C07.4', key, 'IF is acknowledged before bus write %d of the dispatch: a push that lands on 0xFF0F '
                 'overwrites the cleared bit; the SM83 clears the IF bit after both bytes of PC have been pushed'
                 % (1 + len([b for b in bus if b < min(ifs)])), file, None)
        return
    # find the and(IF', IE') term inside the decision
    pend = find_and(resample)
    if pend is None:
        chk.fail('C07.4', key, 'cannot identify the re-sampled pending set in %s' % fmt(resample), file, None)
        return
    # value level: for every value of the sampled pending set P (and of everything else on the path)
    #   PC' = 0 and IF' = IF            when P == 0   (cancelled dispatch)
    #   PC' = 0x40 + 8 * tz(P), IF' = IF & ~lowest_set_bit(P)   otherwise
    from .. import bvproof
    from ..bdd import BV, Unsupported
    try:
        m, conv, K = bvproof.setup(env)
        P = conv(pend)
        V = conv(ipf[-1][1])
        ifsym = [x for x in pend[3:] if x[0] == 's' and 'interrupt_flag' in x[2]]
        if not ifsym:
            chk.fail('C07.4', key, 'cannot identify the re-sampled IF in %s' % fmt(pend), file, None)
            return
        # IF as it is when the bit is cleared (the second push may have changed it again): the IF symbol of the stored term
        cur = ifsym[0]
        if iff:
            st_syms = [x for x in _all_syms(iff[-1][1]) if 'interrupt_flag' in x[2]]
            if st_syms:
                # the latest sample (highest havoc generation) is the IF being updated; earlier samples may legitimately
                # appear inside the mask (it is computed from the pending set sampled between the pushes)
                def gen(x):
                    g = re.findall(r'@(\d+):', x[2])
                    return int(g[0]) if g else 0
                cur = max(st_syms, key=gen)
        IF1 = conv(cur)
        IFn = conv(iff[-1][1]) if iff else IF1
        w = len(P)
        low = P & P.neg()
        tz = BV.const(m, len(V), 0)
        for i in range(w - 1, -1, -1):
            tz = BV.mux(m, P.b[i], BV.const(m, len(V), i), tz)
        zero = m.NOT(P.nonzero())
        wantV = BV.mux(m, zero, BV.const(m, len(V), 0), BV.const(m, len(V), 0x40) + tz.shl(3))
        wantIF = IF1 & ~low
        dV = m.AND(K, V.diff(wantV))
        dI = m.AND(K, IFn.diff(wantIF))
    except Unsupported as e:
        chk.error('C07.4 %s: outside the bit-vector fragment: %s' % (key, e.why))
        return
    table = {v: (b_, m_) for b_, v, m_, _ in sm83.INTERRUPT_VECTORS}

    def ev(bv, wit):
        out = 0
        for i, n in enumerate(bv.b):
            while n > 1:
                v_, lo_, hi_ = m.node[n]
                sy, bit = m.names[v_]
                n = hi_ if (wit.get(sy, 0) >> bit) & 1 else lo_
            out |= n << i
        return out
    if dV != 0:
        wit = m.witness(dV)
        chk.fail('C07.4', key, 'pending set %#04x (sampled between the pushes): PC := %#x, the SM83 dispatches to %#x'
                 % (ev(P, wit), ev(V, wit), ev(wantV, wit)), file, None)
    elif dI != 0:
        wit = m.witness(dI)
        chk.fail('C07.4', key, 'pending set %#04x, IF %#04x: IF becomes %#04x, expected %#04x (exactly the dispatched bit '
                 'cleared; nothing cleared on a cancelled dispatch)' % (ev(P, wit), ev(IF1, wit), ev(IFn, wit), ev(wantIF, wit)),
                 file, None)
    else:
        pv = ev(V, m.witness(K)) if K != 0 else None
        chk.ok('C07.4', key, sample={'vector on this path': hex(pv) if pv is not None else None,
                                     'source': table.get(pv, ('cancelled', 0))[0] if pv is not None else None})


def find_and(t):
    stack = [t]
    best = None
    while stack:
        x = stack.pop()
        if not isinstance(x, tuple) or not x or x[0] != 'o':
            continue
        if x[2] == 'and' and x[3][0] == 's' and x[4][0] == 's':
            return x
        stack.extend(x[3:])
    return best


def _all_syms(t):
    out = []
    stack = [t]
    while stack:
        x = stack.pop()
        if isinstance(x, tuple) and x:
            if x[0] == 's':
                out.append(x)
            elif x[0] == 'o':
                stack.extend(x[3:])
    return list(dict.fromkeys(out))


CASES = ('cancelled', 'VBlank', 'STAT', 'Timer', 'Serial', 'Joypad')


class Collector:
    """stands in for Check while one path is examined"""

    def __init__(self):
        self.items = []
        self.errors = []

    def ok(self, rule, key, sample=None, nontrivial=True):
        self.items.append((rule, True, None, sample))

    def fail(self, rule, key, what, file=None, line=None, detail=None):
        self.items.append((rule, False, what, None))

    def error(self, msg):
        self.errors.append(msg)


def covered_cases(r):
    """which pending-source cases (by the set sampled between the pushes) a dispatch path can be taken for"""
    from .. import bvproof
    from ..bdd import Unsupported
    pend = None
    for d in r.state.decisions:
        if 'call(memory_write_byte)' in fmt(d[0]) or 'havoc' in fmt(d[0]):
            pend = find_and(d[0])
            if pend is not None:
                break
    if pend is None:
        for e in r.state.events:
            if e[0] == 'store' and e[1] == 'core' and e[2][-1][1] == 'ip':
                pend = find_and(e[3])
    if pend is None:
        return list(CASES)
    try:
        m, conv, K = bvproof.setup(r.state.env)
        P = conv(pend)
    except Unsupported:
        return list(CASES)
    out = []
    if m.AND(K, m.NOT(P.nonzero())) != 0:
        out.append('cancelled')
    lower = 1
    for i in range(5):
        if m.AND(K, m.AND(lower, P.b[i])) != 0:
            out.append(CASES[i + 1])
        lower = m.AND(lower, m.NOT(P.b[i]))
    return out
