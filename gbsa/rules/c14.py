"""C14 - LCD line/mode schedule, 70224-clock frame, VBlank/STAT requests, independence of batching."""
from .. import absint, terms as T
from ..terms import C, S, O, AV, fmt, bit_provenance
from .common import *
from .c03 import syms_of

V = 'devices::video::VideoState::'
OW = 'devices::video::VideoState'
RCC = V + 'run_clock_cycles'
HEAVY = [V + n for n in ('find_current_line_sprites', 'cache_next_tile_row', 'cache_next_window_tile_row')] + \
    ['devices::video::lcd::LCD::get_writing_buffer_line']
SWAP = 'devices::video::lcd::LCD::swap_buffers'
FRAME = 70224
LINE = 456


class Machine:
    def __init__(self, facts):
        self.facts = facts
        adt = facts['adts'][OW]
        self.fidx = {f['name']: (i, f['ty']) for i, f in enumerate(adt['fields'])}
        fn = facts['functions'][RCC]
        self.acc_local = None
        for i, l in enumerate(fn['locals']):
            if l['name'] == 'interrupt_state' or (l['ty'].endswith('InterruptFlag') and i > fn['arg_count'] and self.acc_local is None
                                                   and l['name']):
                self.acc_local = i

    def elem(self, name):
        i, ty = self.fidx[name]
        return ('f', i, name, ty, OW)

    def step(self, mode, line, dots):
        """one symbolic iteration of the catch-up loop from abstract state (mode, line interval, dots interval)"""
        def sf(t):
            m = t[3]
            if m and m[0] == 'field' and m[1] == OW and 'loop(' in t[2]:
                if m[2] == 'current_mode':
                    return AV.const(8, mode)
                if m[2] == 'current_line':
                    return AV(8, line[0], line[1])
                if m[2] == 'current_mode_dots':
                    return AV(64, dots[0], dots[1], 3, 0)
            return None
        opq = [h for h in HEAVY + [SWAP] if h in self.facts['functions']]
        ip = absint.Interp(self.facts, loop_mode='havoc', sym_facts=sf, opaque=opq, opaque_havoc={h: [0] for h in opq},
                           trust_asserts=('overflow', 'bounds', 'slice_index'), path_budget=5000)
        st = ip.new_state()
        vs = ip.arg_object(st, 'video')
        cyc = ('agg', ('adt', 'timing::ClockCycles', 0, 'ClockCycles'), (S(64, 'clocks'),))
        rs = ip.run(RCC, [vs, cyc, S(0, 'vram'), S(0, 'oam')], st)
        out = []
        for r in rs:
            if r.status != 'loopback':
                if r.status not in ('ok',):
                    out.append({'status': r.status, 'detail': r.detail, 'r': r})
                continue
            env = r.state.env
            fin = {}
            for nm in ('current_mode', 'current_line', 'current_mode_dots'):
                v = ip.read(r.state, ('O', 'video'), (self.elem(nm),))
                fin[nm] = (v, env.av(v) if v is not None and T.is_int(v) else None)
            stores = [(e[2][-1][1], e[3]) for e in r.state.events if e[0] == 'store' and e[1] == 'video']
            calls = [e[1] for e in r.state.events if e[0] == 'call']
            acc = None
            if self.acc_local is not None:
                acc = r.state.mem.get(('L', 1, self.acc_local))
            out.append({'status': 'loopback', 'r': r, 'env': env, 'fin': fin, 'stores': stores, 'calls': calls, 'acc': acc,
                        'ip': ip, 'acc_keeps': self.acc_keeps(acc, env)})
        return out

    def acc_keeps(self, acc, env):
        """does the request accumulator at the end of the iteration still contain every bit it had at the head?
        True / False / None (accumulator not understood)"""
        v = acc
        for _ in range(4):
            if v is not None and v[0] == 'agg' and len(v[2]) == 1:
                v = v[2][0]
            elif v is not None and v[0] == 'snap':
                ov = [x for k, x in v[2] if k == ('f', 0)]
                if ov:
                    v = ov[0]
                else:
                    return True
            elif v is not None and v[0] == 's' and v[1] == 0:
                return True        # untouched in this step
        if v is None or not T.is_int(v):
            return None
        from .c03 import syms_of
        from ..affine import equal_mod
        tagl = '_%d' % self.acc_local
        heads = [s_ for s_ in syms_of(v) if 'loopvar:' in s_[2] and (s_[2].endswith(tagl) or (tagl + '.') in s_[2])]
        if v[0] == 'c':
            return False if self.acc_local is not None else None
        if not heads:
            return False
        h = heads[0]

        def keeps(t):
            if t == h:
                return True
            if t[0] == 'o' and t[2] == 'or':
                return any(keeps(a) for a in t[3:])
            return False
        if keeps(v):
            return True
        return bool(equal_mod(O(v[1], 'and', h, O(v[1], 'not', v)), C(v[1], 0), env, v[1]))


def acc_bits(p):
    """(vblank requested, stat requested) on this path: 1, 0 or None, from the accumulator's known bits"""
    acc = p['acc']
    if acc is None:
        return (None, None)
    v = acc
    for _ in range(4):
        if v is not None and v[0] == 'agg' and len(v[2]) == 1:
            v = v[2][0]
        elif v is not None and v[0] == 'snap':
            ov = [x for k, x in v[2] if k == ('f', 0)]
            if ov:
                v = ov[0]
            else:
                return (0, 0)
        elif v is not None and v[0] == 's' and v[1] == 0:
            return (0, 0)      # accumulator untouched in this step
    if v is None or not T.is_int(v):
        return (None, None)
    prov = bit_provenance(v, p['env'])
    def b(i):
        x = prov[i]
        if x == 1:
            return 1
        if x == 0:
            return 0
        if x is not None and x[0] == 'in':
            return 0      # bit passes through from the previous iterations: nothing requested in this step
        return None
    return (b(0), b(1))


def decision_value(p, needle):
    """value of the decision whose condition mentions `needle` (field name), or None"""
    for d in p['r'].state.decisions:
        s = fmt(d[0])
        if needle in s:
            return p['env'].const_of(d[0]) if T.is_int(d[0]) else None
    return None


def run(ctx, chk):
    chk.rule('C14.1', 'D', 'mode/line invariant (abstract reachable set of the schedule machine): modes 2,3,0 only on '
             'lines 0-143, mode 1 only on lines 144-153', floor=4)
    chk.rule('C14.2', 'D', 'durations: every mode exit tests dots >= K and subtracts the same K; K2+K3+K0 = K1 = 456; LY '
             'changes only at those exits and wraps to 0 only from 153; frame = 70224 clocks', floor=6)
    chk.rule('C14.3', 'D', 'VBlank is requested exactly on the step that makes LY = 144 / mode 1, together with the buffer swap',
             floor=2)
    chk.rule('C14.4', 'D', 'STAT: entering mode 0/1/2 tests that mode\'s enable; every LY change (increments and the wrap to 0), '
             'every LYC write and STAT write compares LY with LYC; STAT register composes enables, coincidence and mode',
             floor=8)
    chk.rule('C14.5', 'D', 'batching: the loop advances in uniform 4-clock steps (remaining count used only in guard and '
             'decrement), requests are OR-accumulated, and mode / line / dots change nowhere but in those steps', floor=3)
    facts = ctx.facts('default')
    prog = ctx.program('default')
    file = 'src/devices/video/mod.rs'
    if not need(chk, prog, [RCC, V + 'new', V + 'check_current_line', V + 'check_mode_interrupt', V + 'get_lcd_status',
                            V + 'set_ly_compare', V + 'set_lcd_status']):
        return chk.finish('anchors missing')
    M = Machine(facts)
    # initial state from VideoState::new
    ip0 = absint.Interp(facts, trust_asserts=('overflow', 'bounds'), opaque=['devices::video::lcd::LCD::new'])
    r0 = [r for r in ip0.run(V + 'new', []) if r.status == 'ok']
    if len(r0) != 1 or r0[0].ret[0] != 'agg':
        chk.error('cannot evaluate VideoState::new')
        return chk.finish('anchors missing')
    init = {}
    for nm in ('current_mode', 'current_line', 'current_mode_dots'):
        v = r0[0].ret[2][M.fidx[nm][0]]
        if v[0] != 'c':
            chk.error('VideoState::new: %s is not a constant' % nm)
            return chk.finish('anchors missing')
        init[nm] = v[2]
    states = {init['current_mode']: [init['current_line'], init['current_line'], init['current_mode_dots'],
                                     init['current_mode_dots']]}
    work = [init['current_mode']]
    all_paths = {}
    rounds = 0
    bad_paths = []
    while work and rounds < 2000:
        rounds += 1
        m = work.pop()
        lo, hi, dlo, dhi = states[m]
        paths = M.step(m, (lo, hi), (dlo, dhi))
        all_paths[m] = paths
        for p in paths:
            if p['status'] != 'loopback':
                bad_paths.append((m, p))
                continue
            fm = p['fin']['current_mode'][1]
            fl = p['fin']['current_line'][1]
            fd = p['fin']['current_mode_dots'][1]
            if fm is None or not fm.is_const() or fl is None or fd is None:
                bad_paths.append((m, p))
                continue
            m2 = fm.lo
            new = [fl.lo, fl.hi, fd.lo, fd.hi]
            cur = states.get(m2)
            if cur is None:
                states[m2] = new
                work.append(m2)
            else:
                j = [min(cur[0], new[0]), max(cur[1], new[1]), min(cur[2], new[2]), max(cur[3], new[3])]
                if j != cur:
                    states[m2] = j
                    if m2 not in work:
                        work.append(m2)
    chk.extra['schedule_fixpoint'] = {str(m): {'line': [s[0], s[1]], 'dots': [s[2], s[3]]} for m, s in states.items()}
    chk.extra['fixpoint_rounds'] = rounds
    if bad_paths:
        m, p = bad_paths[0]
        chk.fail('C14.1', 'analysis', 'a step of the schedule loop in mode %d cannot be summarised: %s %s'
                 % (m, p['status'], p.get('detail')), file, None)
    # final pass: all paths at the fixpoint
    for m in sorted(states):
        lo, hi, dlo, dhi = states[m]
        all_paths[m] = M.step(m, (lo, hi), (dlo, dhi))
    # ---- rule 1
    want = {2: (0, 143), 3: (0, 143), 0: (0, 143), 1: (144, 153)}
    for m in (2, 3, 0, 1):
        s = states.get(m)
        key = 'mode%d' % m
        if s is None:
            chk.fail('C14.1', key, 'mode %d is never reached by the schedule' % m, file, None)
        elif (s[0], s[1]) == want[m]:
            chk.ok('C14.1', key, sample={'mode': m, 'lines': [s[0], s[1]], 'dots': [s[2], s[3]]})
        else:
            chk.fail('C14.1', key, 'mode %d occurs on lines %d-%d, the schedule allows %d-%d'
                     % (m, s[0], s[1], want[m][0], want[m][1]), file, None)
    extra_modes = [m for m in states if m not in want]
    if extra_modes:
        chk.fail('C14.1', 'modes', 'unexpected mode values %s' % extra_modes, file, None)
    # ---- rule 2
    K = {}
    for m in sorted(states):
        ks = set()
        bad = None
        nonexit = []
        for p in all_paths[m]:
            if p['status'] != 'loopback':
                continue
            env = p['env']
            dstores = [v for n, v in p['stores'] if n == 'current_mode_dots']
            lstores = [v for n, v in p['stores'] if n == 'current_line']
            mstores = [v for n, v in p['stores'] if n == 'current_mode']
            # The threshold is read off what the step does, not how the test is written: a mode exit is a step that
            # takes K clocks off the counter a second time (dots' = dots + 4 - K) and its path condition must imply
            # dots + 4 >= K; every other step must imply dots + 4 < K (checked below, once K is known)
            from ..affine import diff_const
            from .. import bvproof as _bp
            if not dstores:
                bad = 'a step does not advance the dot counter'
                continue
            d0 = dstores[0]
            if len(dstores) >= 2:
                dk = diff_const(dstores[-1], d0, env, 64)
                if dk is None:
                    dk = _bp.const_diff_under(dstores[-1], d0, env, 64)
                if dk is None:
                    bad = 'mode exit leaves dots = %s, not dots + 4 - K for a constant K' % fmt(dstores[-1])[:80]
                    continue
                k = (-dk) & T.mask(64)
                ge = O(1, 'uge', d0, C(64, k))
                if not (env.const_of(ge) == 1 or _bp.equal_under(ge, C(1, 1), env, 1) is True):
                    bad = 'a step takes %d clocks off the dot counter without a "dots >= %d" guard' % (k, k)
                    continue
                ks.add(k)
            else:
                nonexit.append((d0, env))
                if lstores or mstores:
                    bad = 'LY or mode changes on a step that is not a mode exit'
            for lv in lstores:
                av = env.av(lv)
                if av.is_const() and av.lo == 0:
                    # wrap: the old line must be exactly 153
                    ol = [s_ for s_ in syms_of(p['fin']['current_line'][0])]
                    linesym = [s_ for d in p['r'].state.decisions for s_ in syms_of(d[0]) if s_[3] and s_[3][0] == 'field'
                               and s_[3][2] == 'current_line']
                    if linesym and not (env.av(linesym[0]).is_const() and env.av(linesym[0]).lo == 153):
                        bad = 'LY wraps to 0 from a line other than 153 (%s)' % env.av(linesym[0])
        key = 'K:mode%d' % m
        if not bad and len(ks) == 1:
            from .. import bvproof as _bp
            kk = next(iter(ks))
            for d0, env in nonexit:
                lt = O(1, 'ult', d0, C(64, kk))
                if not (env.const_of(lt) == 1 or _bp.equal_under(lt, C(1, 1), env, 1) is True):
                    bad = 'a step stays in the mode although dots + 4 may have reached %d' % kk
                    break
        if bad:
            chk.fail('C14.2', key, 'mode %d: %s' % (m, bad), file, None)
        elif len(ks) != 1:
            chk.fail('C14.2', key, 'mode %d has exit thresholds %s' % (m, sorted(ks)), file, None)
        else:
            K[m] = ks.pop()
            chk.ok('C14.2', key, sample={'mode': m, 'clocks': K[m]})
    if all(m in K for m in (0, 1, 2, 3)):
        vis = K[2] + K[3] + K[0]
        if vis == LINE and K[1] == LINE and K[2] == 80:
            chk.ok('C14.2', 'line-length', sample={'mode2': K[2], 'mode3': K[3], 'mode0': K[0], 'mode1_per_line': K[1]})
        else:
            chk.fail('C14.2', 'line-length', 'a visible line takes %d+%d+%d = %d clocks, a VBlank line %d (expected 456; mode 2 = 80)'
                     % (K[2], K[3], K[0], vis, K[1]), file, None)
        s2, s1 = states.get(2), states.get(1)
        if s2 and s1:
            frame = (s2[1] - s2[0] + 1) * vis + (s1[1] - s1[0] + 1) * K[1]
            # lines in mode 2 are entered once each; lines in mode 1 likewise
            if frame == FRAME:
                chk.ok('C14.2', 'frame', sample={'visible_lines': s2[1] - s2[0] + 1, 'vblank_lines': s1[1] - s1[0] + 1,
                                                 'frame_clocks': frame})
            else:
                chk.fail('C14.2', 'frame', 'frame takes %d clocks (%d lines through modes 2/3/0 and %d lines of mode 1), '
                         'expected 70224' % (frame, s2[1] - s2[0] + 1, s1[1] - s1[0] + 1), file, None)
    # ---- rule 3 / 4
    vb_paths = 0
    for m in sorted(states):
        for i, p in enumerate(all_paths[m]):
            if p['status'] != 'loopback':
                continue
            env = p['env']
            vb, stat = acc_bits(p)
            fm = p['fin']['current_mode'][1]
            fl = p['fin']['current_line'][1]
            mstores = [v for n, v in p['stores'] if n == 'current_mode']
            lstores = [v for n, v in p['stores'] if n == 'current_line']
            enters_vblank = bool(mstores) and fm.is_const() and fm.lo == 1
            key = 'vblank:mode%d:path%d' % (m, i)
            if vb is None:
                chk.fail('C14.3', key, 'cannot decide whether this step requests VBlank', file, None)
            elif enters_vblank:
                vb_paths += 1
                becomes = bool(lstores) and env.const_of(lstores[-1]) == 144
                okk = vb == 1 and fl.is_const() and fl.lo == 144 and SWAP in p['calls'] and becomes
                if okk:
                    chk.ok('C14.3', key, sample={'from_mode': m, 'LY': 144, 'vblank': 1, 'swap_buffers': True}
                           if vb_paths == 1 else None)
                else:
                    chk.fail('C14.3', key, 'entering mode 1 from mode %d: VBlank requested=%s, LY=%s, LY changes to 144 in this '
                             'step=%s, buffers swapped=%s (expected the request at the moment LY becomes 144)'
                             % (m, vb, fl, becomes, SWAP in p['calls']), file, None)
            elif vb == 1:
                chk.fail('C14.3', key, 'VBlank requested on a step that does not enter mode 1 (mode %d -> %s, LY %s)'
                         % (m, fm, fl), file, None)
            # STAT
            if mstores and fm.is_const() and fm.lo in (0, 1, 2):
                en = decision_value(p, 'interrupt_on_mode_%d' % fm.lo)
                k4 = 'stat-mode:%d->%d' % (m, fm.lo)
                if en is None:
                    chk.fail('C14.4', k4, 'entering mode %d does not test its STAT enable' % fm.lo, file, None)
                elif en == 1 and stat != 1:
                    chk.fail('C14.4', k4, 'mode %d enable set but no STAT request on entry' % fm.lo, file, None)
                else:
                    chk.ok('C14.4', k4, nontrivial=True)
            if lstores:
                newline = lstores[-1]
                k4 = 'stat-lyc:mode%d:LY->%s' % (m, 'wrap0' if env.const_of(newline) == 0 else 'inc')
                cmpd = None
                for d in p['r'].state.decisions:
                    t = d[0]
                    if t[0] == 'o' and t[2] in ('eq', 'ne') and 'ly_compare' in fmt(t):
                        other = t[4] if 'ly_compare' in fmt(t[3]) else t[3]
                        if other == newline or (env.const_of(other) is not None and env.const_of(other) == env.const_of(newline)):
                            cmpd = env.const_of(t)
                if cmpd is None:
                    chk.fail('C14.4', k4, 'LY changes in mode %d (new value %s) without comparing it with LYC: a coincidence '
                             'at that line never raises STAT' % (m, fmt(newline)[:60]), file, None)
                else:
                    lycen = decision_value(p, 'interrupt_on_lyc')
                    if cmpd == 1 and lycen == 1 and stat != 1:
                        chk.fail('C14.4', k4, 'LY == LYC with the coincidence enable set does not request STAT', file, None)
                    else:
                        chk.ok('C14.4', k4)
            if stat == 1 and not mstores and not lstores:
                chk.fail('C14.4', 'stat-spurious:mode%d:path%d' % (m, i), 'STAT requested on a step without mode or LY change',
                         file, None)
            elif stat == 1:
                # a request needs a reason that belongs to this step: a mode that was entered now with its enable set,
                # or an LY that changed now, equals LYC, with the coincidence enable set
                why_mode = bool(mstores) and fm.is_const() and fm.lo in (0, 1, 2) and \
                    decision_value(p, 'interrupt_on_mode_%d' % fm.lo) == 1
                why_lyc = False
                if lstores:
                    newline = lstores[-1]
                    for d in p['r'].state.decisions:
                        t = d[0]
                        if t[0] == 'o' and t[2] in ('eq', 'ne') and 'ly_compare' in fmt(t):
                            other = t[4] if 'ly_compare' in fmt(t[3]) else t[3]
                            if (other == newline or (env.const_of(other) is not None and
                                                     env.const_of(other) == env.const_of(newline))) and \
                                    env.const_of(t) == (1 if t[2] == 'eq' else 0) and decision_value(p, 'interrupt_on_lyc') == 1:
                                why_lyc = True
                if not why_mode and not why_lyc:
                    chk.fail('C14.4', 'stat-spurious:mode%d:path%d' % (m, i), 'STAT requested on a step (mode %d -> %s, LY -> %s) '
                             'although no mode with its enable set is entered and LY == LYC with its enable does not hold: '
                             'the request repeats a condition that did not change in this step'
                             % (m, fm.lo if fm.is_const() else fm, ('%d' % fl.lo) if fl.is_const() else '%d..%d' % (fl.lo, fl.hi)),
                             file, None)
    if not vb_paths:
        chk.fail('C14.3', 'none', 'no step of the schedule requests VBlank', file, None)
    register_rules(ctx, chk, facts, prog, file)
    # the requests a STAT / LYC write produces are merged into IF by IO::set_byte
    V_ = 'devices::video::VideoState::'
    res = register_write_requests_reach_if(facts, prog, [V_ + 'set_lcd_status', V_ + 'set_ly_compare'])
    for cal, bad in sorted(res.items()):
        k4 = 'write-routing:' + cal.split('::')[-1]
        if bad:
            chk.fail('C14.4', k4, '%s: %s' % (cal, bad), 'src/devices/io.rs', None)
        else:
            chk.ok('C14.4', k4)
    # ---- rule 5
    uniform = True
    dec_ok = False
    for m in sorted(states):
        for p in all_paths[m]:
            if p['status'] != 'loopback':
                continue
            cnt = [s_ for d in p['r'].state.decisions for s_ in syms_of(d[0]) if s_[2].startswith('loopvar:') and s_[1] == 64]
            clk = S(64, 'clocks')
            for e in p['r'].state.events:
                vals = [e[3]] if e[0] == 'store' else (list(e[2]) if e[0] == 'call' else [])
                for v in vals:
                    if any(s_ in cnt or s_ == clk for s_ in syms_of(v)):
                        uniform = False
            dd = [v for n, v in p['stores'] if n == 'current_mode_dots']
            if dd:
                from ..affine import diff_const
                dsym = [s_ for s_ in syms_of(dd[0]) if s_[3] and s_[3][0] == 'field' and s_[3][2] == 'current_mode_dots']
                if dsym and diff_const(dd[0], dsym[0], p['env'], 64) == 4:
                    dec_ok = True
    if uniform and dec_ok:
        chk.ok('C14.5', 'uniform-step', sample={'step': '4 clocks', 'remaining-count variable flows into': 'guard/decrement only'})
    else:
        chk.fail('C14.5', 'uniform-step', 'the schedule step is not a uniform 4-clock step independent of the batch size', file, None)
    # all of the schedule's progress is made by loop iterations: a path through run_clock_cycles that returns without
    # passing the loop, or that changes mode / line / dots outside an iteration (a shortcut for "idle" stretches), makes
    # the result depend on how time is split into batches
    opq_ = [h for h in HEAVY + [SWAP] if h in facts['functions']]
    ipo = absint.Interp(facts, loop_mode='havoc', opaque=opq_, opaque_havoc={h: [0] for h in opq_},
                        trust_asserts=('overflow', 'bounds', 'slice_index'), path_budget=5000)
    st_ = ipo.new_state()
    vs_ = ipo.arg_object(st_, 'video')
    clk_ = S(64, 'clocks')
    cyc_ = ('agg', ('adt', 'timing::ClockCycles', 0, 'ClockCycles'), (clk_,))
    outside = None
    nexit = 0
    for r in ipo.run(RCC, [vs_, cyc_, S(0, 'vram'), S(0, 'oam')], st_):
        if r.status != 'ok':
            continue
        nexit += 1
        sched = [e for e in effective_stores(r.state.events) if e[1] == 'video' and e[2] and
                 e[2][-1][1] in ('current_mode', 'current_line', 'current_mode_dots')]
        if sched:
            outside = outside or ('%s is changed outside the 4-clock loop step (to %s)' % (sched[0][2][-1][1], fmt(sched[0][3])[:80]))
        if not any(e[0] == 'loopinit' for e in r.state.events) and r.state.env.possible(clk_, 4):
            outside = outside or 'a path returns without entering the catch-up loop although clocks were delivered'
    if nexit and not outside:
        chk.ok('C14.5', 'loop-only', sample={'exit paths': nexit, 'schedule state changes outside the loop': 0})
    else:
        chk.fail('C14.5', 'loop-only', 'VideoState::run_clock_cycles: %s' % (outside or 'no exit path found'), file, None)
    fn = prog.fns[RCC]
    ipx = absint.Interp(facts)
    loops = ipx.loops_of(RCC)
    outer = max(loops.items(), key=lambda kv: len(kv[1]))[1] if loops else set()
    calls = set()
    for b in outer:
        t = fn['blocks'][b]['term']
        if t['k'] == 'call':
            calls.add(t['resolved'] or t['callee'])
    ACC_LOSS = {}
    for m_ in sorted(all_paths):
        for i_, p in enumerate(all_paths[m_]):
            if p['status'] == 'loopback':
                ACC_LOSS['in mode %d (path %d)' % (m_, i_)] = (p.get('acc_keeps') is False)
    lost = [k for k, v in ACC_LOSS.items() if v]
    if any('bitor_assign' in c for c in calls) and not lost:
        chk.ok('C14.5', 'accumulator', sample={'requests': 'OR-accumulated', 'iteration paths examined': len(ACC_LOSS)})
    else:
        chk.fail('C14.5', 'accumulator', 'interrupt requests are not OR-accumulated in the loop'
                 + ((': requests collected earlier in the same batch are dropped on the step %s' % lost[0]) if lost else ''),
                 file, None)
    chk.assumptions += ['every clock count delivered to the LCD controller is a multiple of 4 (C09.6)',
                        'pixel output during mode 3 is outside this property (C15)',
                        'the emulator splits the 376 clocks of modes 3+0 evenly (188/188), as the property states']
    return chk.finish('The schedule is a finite machine over (mode, LY, dots). One symbolic iteration of the catch-up loop is '
                      'abstractly interpreted per mode with LY and dots constrained to the current abstract state; the '
                      'successors are joined to a fixpoint starting from VideoState::new. Durations, VBlank and STAT '
                      'requests are read off the per-path decisions, stores and the known bits of the request '
                      'accumulator.', exhaustive=True)


def register_rules(ctx, chk, facts, prog, file):
    from ..invariants import FieldInvariants
    inv = FieldInvariants(facts)
    inv.track(OW, 'current_mode')
    ip = absint.Interp(facts, sym_facts=inv.sym_facts, trust_asserts=('overflow', 'bounds'))
    # LYC write and STAT write both compare LY with LYC
    for fn, key in ((V + 'set_ly_compare', 'lyc-write'), (V + 'set_lcd_status', 'stat-write')):
        st = ip.new_state()
        vs = ip.arg_object(st, 'video')
        rs = ip.run(fn, [vs, S(8, 'value')], st)
        bad = None
        fired = 0
        for r in rs:
            if r.status != 'ok':
                bad = 'can diverge'
                continue
            env = r.state.env
            cmpv = None
            for d in r.state.decisions:
                t = d[0]
                if t[0] == 'o' and t[2] in ('eq', 'ne') and 'current_line' in fmt(t):
                    cmpv = env.const_of(t)
                    # after a LYC write the compared value must be the written value
                    if fn.endswith('set_ly_compare') and S(8, 'value') not in syms_of(t):
                        bad = 'compares the old LYC, not the written value'
            ret = r.ret[2][0] if r.ret is not None and r.ret[0] == 'agg' else None
            if cmpv is None:
                bad = 'does not compare LY with LYC'
            elif ret is not None and env.const_of(ret) == 2:
                fired += 1
        if bad or not fired:
            chk.fail('C14.4', key, '%s: %s' % (fn, bad or 'never requests STAT'), file, None)
        else:
            chk.ok('C14.4', key)
    # STAT register composition
    st = ip.new_state()
    vs = ip.arg_object(st, 'video')
    rs = ip.run(V + 'get_lcd_status', [vs], st)
    # value level: STAT = lyc_en<<6 | mode2_en<<5 | mode1_en<<4 | mode0_en<<3 | (LY == LYC)<<2 | mode, however it is composed
    from .. import valfn
    from ..bdd import BV, Unsupported

    def stat_ref(m, F):
        out = F.u('current_mode', 8) & 3
        for bit, fld in ((6, 'interrupt_on_lyc'), (5, 'interrupt_on_mode_2'), (4, 'interrupt_on_mode_1'),
                         (3, 'interrupt_on_mode_0')):
            out = out | BV.from_bit(m, F.b(fld), 8).shl(bit)
        eq = F.u('ly_compare', 8).eq(F.u('current_line', 8))
        return out | BV.from_bit(m, eq, 8).shl(2)
    n = len(rs)
    try:
        bad = valfn.compare(rs, stat_ref, width=8)
    except Unsupported as e:
        chk.error('C14.4 stat-register: outside the bit-vector fragment: %s' % e.why)
        bad = None
        n = 0
    if bad or not n:
        chk.fail('C14.4', 'stat-register', 'get_lcd_status: %s' % (bad or 'no path'), file, None)
    else:
        chk.ok('C14.4', 'stat-register', sample={'paths': n, 'layout': 'bit6 LYC enable, 5/4/3 mode 2/1/0 enables, bit2 LY==LYC, bits1-0 mode'})
