"""C19 - ROM files are validated by header checksum and sized from the header tables."""
from .. import absint, sm83, headercfg, terms as T
from ..terms import C, S, O, AV, fmt
from ..affine import aff
from .common import *
from .c03 import syms_of

HDR = 'cart::Header'
LOAD = 'load_rom'
LEN_QUERIES = ('std::fs::File::metadata', 'std::fs::Metadata::len', 'std::io::Seek::stream_len',
               '<std::fs::File as std::io::Seek>::seek', 'std::io::Seek::seek', 'std::fs::metadata')
UNCHECKED = ('std::str::from_utf8_unchecked', 'core::str::from_utf8_unchecked', 'std::string::String::from_utf8_unchecked',
             'core::str::converts::from_utf8_unchecked', 'std::str::from_utf8_unchecked_mut')


def run(ctx, chk):
    chk.rule('C19.1', 'D', 'header layout: repr(C, packed), 0x50 bytes, type/ROM size/RAM size/checksum at 0x47/0x48/0x49/0x4d; '
             'read_header seeks to 0x100, reads exactly size_of::<Header>() bytes and propagates errors', floor=6)
    chk.rule('C19.2', 'D', 'valid_checksum: x = x - byte - 1 (wrapping u8) over header offsets 0x34..=0x4c, compared with the '
             'byte at 0x4d', floor=1)
    chk.rule('C19.3', 'D', 'acceptance is dominated by validation: from_rom_file is reached only on the true edge of '
             'valid_checksum; every rejecting branch returns None', floor=2)
    chk.rule('C19.4', 'D', 'size tables equal the cartridge header tables; ROM bytes = banks x 16 KiB', floor=3)
    chk.rule('C19.5', 'D', 'a file shorter than its declared ROM size is rejected before it is mapped: the file length is '
             'compared with the declared size on every path to mmap', floor=1)
    chk.rule('C19.8', 'D', 'a failed mapping is a controlled termination: the pointer returned by mmap is compared with '
             'MAP_FAILED (all ones) and that branch diverges before the pointer is used', floor=1)
    chk.rule('C19.6', 'D', 'unsupported controller types terminate at load: create_cart_state diverges for them and is '
             'called from with_rom_file only', floor=2)
    chk.rule('C19.7', 'D', 'no unchecked reinterpretation of file bytes (from_utf8_unchecked and the like on header data)', floor=1)
    facts = ctx.facts('default')
    prog = ctx.program('default')
    if not need(chk, prog, [LOAD, 'system::read_header', 'cart::Header::valid_checksum', 'cart::Header::create_cart_state',
                            'system::linux::map_rom_file', CORE + 'from_rom_file']):
        return chk.finish('anchors missing')
    adt = facts['adts'].get(HDR)
    # ---- rule 1
    if not adt:
        chk.error('ADT cart::Header not found')
        return chk.finish('anchors missing')
    offs = {f['name']: f['offset'] for f in adt['fields']}
    if adt['size'] == 0x50 and 'pack: Some' in adt['repr'] and 'IS_C' in adt['repr']:
        chk.ok('C19.1', 'size', sample={'size': adt['size'], 'repr': adt['repr']})
    else:
        chk.fail('C19.1', 'size', 'Header is %d bytes, repr %s (expected 0x50 bytes, packed)' % (adt['size'], adt['repr']),
                 'src/cart.rs', None)
    for nm, want in (('cart_type', 0x47), ('rom_size', 0x48), ('ram_size', 0x49), ('header_checksum', 0x4d)):
        if offs.get(nm) == want:
            chk.ok('C19.1', 'offset:' + nm, sample={'field': nm, 'offset': hex(want), 'file_offset': hex(0x100 + want)})
        else:
            chk.fail('C19.1', 'offset:' + nm, 'Header.%s is at offset %s, the cartridge header has it at %#x'
                     % (nm, offs.get(nm), want), 'src/cart.rs', None)
    # read protocol, decided on the paths of read_header: every seek goes to Start(0x100); every read_exact fills
    # exactly size_of::<Header>() bytes; Ok(header) is returned only on a path where the seek succeeded, reported
    # position 0x100, and the read succeeded; every other path returns Err
    ipr = absint.Interp(facts)
    st = ipr.new_state()
    rsr = ipr.run('system::read_header', [S(0, 'file')], st)
    hdr_size = adt['size']
    problems = []
    ok_paths = 0
    for r in rsr:
        if r.status == 'unreachable':
            continue        # the impossible arm of a match on a two-variant Result
        if r.status != 'ok':
            problems.append('read_header can diverge (%s)' % r.status)
            continue
        seeks = [e for e in r.state.events if e[0] == 'extcall' and e[1].endswith('::seek')]
        reads = [e for e in r.state.events if e[0] == 'extcall' and e[1].endswith('::read_exact')]
        for e in seeks:
            a1 = e[2][1] if len(e[2]) > 1 else None
            if not (a1 is not None and a1[0] == 'agg' and a1[1][3] == 'Start' and a1[2] and a1[2][0] == C(64, 0x100)):
                problems.append('seek target is %s, the header is at Start(0x100)' % (fmt(a1) if a1 else None))
        for e in reads:
            buf = e[2][1] if len(e[2]) > 1 else None
            ln = None
            if buf is not None and buf[0] == 'slice':
                ln = r.state.env.const_of(buf[4])
            elif buf is not None and buf[0] == 'ref':
                tgt = ipr.read(r.state, buf[1], buf[2])
                if tgt is not None and tgt[0] == 'agg':
                    ln = len(tgt[2])
            if ln != hdr_size:
                problems.append('read_exact fills %s bytes, the header is %d bytes' % (ln, hdr_size))
        isok = r.ret is not None and r.ret[0] == 'agg' and r.ret[1][3] == 'Ok'
        if isok:
            ok_paths += 1
            env = r.state.env
            decs = [(fmt(d[0]), env.const_of(d[0])) for d in r.state.decisions]
            seek_ok = any(f.startswith('discr(ext:seek') and v == 0 for f, v in decs)
            read_ok = any(f.startswith('discr(ext:read_exact') and v == 0 for f, v in decs)
            pos_ok = any('0x100' in f and 'seek' in f and ((f.startswith('ne(') and v == 0) or (f.startswith('eq(') and v == 1))
                         for f, v in decs)
            if not (seeks and reads and seek_ok and read_ok and pos_ok):
                problems.append('Ok(header) is returned on a path where seek ok=%s, position == 0x100 tested=%s, read ok=%s'
                                % (seek_ok, pos_ok, read_ok))
    if not ok_paths:
        problems.append('read_header never returns Ok')
    if not problems:
        chk.ok('C19.1', 'read_header', sample={'seek': 'Start(0x100)', 'reads': '%d bytes = size_of::<Header>()' % hdr_size,
                                               'Ok only when': 'seek ok, position 0x100, read ok'})
    else:
        chk.fail('C19.1', 'read_header', 'read_header: %s' % '; '.join(sorted(set(problems))[:3]), 'src/system/mod.rs', None)
    # ---- rule 2: checksum
    ip = absint.Interp(facts, trust_asserts=('bounds', 'overflow'), step_limit=400000)
    st = ip.new_state()
    hdr = ip.arg_object(st, 'hdr')
    rs = [r for r in ip.run('cart::Header::valid_checksum', [hdr], st) if r.status == 'ok']
    okk = False
    why = 'no completing path'
    if len(rs) == 1:
        r = rs[0]
        ret = r.ret
        why = 'result is %s' % fmt(ret)[:120]
        if ret[0] == 'o' and ret[2] == 'eq':
            a, b = ret[3], ret[4]
            chks = [x for x in (a, b) if x[0] == 's' and x[3] and x[3][0] == 'field' and x[3][2] == 'header_checksum']
            other = [x for x in (a, b) if x not in chks]
            if chks and other:
                co, c, w = aff(other[0], r.state.env)
                idx = []
                coeff_ok = True
                for atom, k in co.items():
                    if atom[0] == 's' and atom[3] and atom[3][0] == 'elem':
                        i = r.state.env.const_of(atom[3][2])
                        idx.append(i)
                        if k != 0xff:
                            coeff_ok = False
                    else:
                        coeff_ok = False
                want_idx = list(range(0x34, 0x4d))
                if sorted(idx) == want_idx and coeff_ok and c == ((-len(want_idx)) & 0xff) and w == 8:
                    okk = True
                else:
                    why = 'sum covers offsets %s with constant %#x (expected 0x34..0x4c, each subtracted once, minus 25)' % (
                        [hex(i) for i in sorted(idx)][:30], c)
    # value level: the returned boolean, as a function of the 80 header bytes, equals
    #   header[0x4d] == (0 - sum over 0x34..=0x4c of (byte + 1)) mod 256   - any way of writing the sum is accepted
    if len(rs) >= 1 and all(r_.ret is not None and T.is_int(r_.ret) for r_ in rs):
        from .. import bvproof
        from ..bdd import BV, Unsupported
        try:
            vbad = None
            for r_ in rs:
                m_, conv_, K_ = bvproof.setup(r_.state.env)
                elems = {}
                stack = [r_.ret]
                seen_ = set()
                while stack:
                    x = stack.pop()
                    if not isinstance(x, tuple) or not x or x in seen_:
                        continue
                    seen_.add(x)
                    if x[0] == 's' and x[3] and x[3][0] == 'elem':
                        i_ = r_.state.env.const_of(x[3][2])
                        if i_ is not None:
                            elems[i_] = x
                    elif x[0] == 's' and x[3] and x[3][0] == 'field' and x[3][2] == 'header_checksum':
                        elems['chk'] = x
                    elif x[0] == 'o':
                        stack.extend(x[3:])
                acc = BV.const(m_, 8, 0)
                for i_ in range(0x34, 0x4d):
                    b_ = conv_(elems[i_]) if i_ in elems else BV.sym(m_, 'header[%#x]' % i_, 8)
                    acc = acc - b_ - 1
                hc = conv_(elems['chk']) if 'chk' in elems else BV.sym(m_, 'header[0x4d]', 8)
                want_ = acc.eq(hc)
                got_ = conv_(r_.ret).nonzero()
                D_ = m_.AND(K_, m_.XOR(got_, want_))
                if D_ != 0:
                    w_ = m_.witness(D_)
                    nz = {k_: v_ for k_, v_ in w_.items() if v_}
                    vbad = 'accepts / rejects differently from the header checksum formula, e.g. for header bytes %s' % (
                        ', '.join('%s=%#x' % (k_.split('.')[-1][-12:], v_) for k_, v_ in sorted(nz.items())[:6]) or 'all zero')
            okk = vbad is None
            if vbad:
                why = vbad
        except Unsupported:
            pass
    opaque_iter = sorted(set(e[1].split('::')[-1] for r_ in rs for e in r_.state.events
                             if e[0] == 'extcall' and any(k_ in e[1] for k_ in ('iter', 'Iterator', 'fold', 'sum', 'IntoIter'))))
    if okk:
        chk.ok('C19.2', 'checksum', sample={'range': '0x34..=0x4c', 'recurrence': 'x = x - byte - 1', 'compared_with': 'header_checksum @0x4d'})
    elif opaque_iter:
        # the sum is computed by library iterator adaptors whose bodies are not part of the crate: no verdict
        chk.error('C19.2: valid_checksum computes the sum through %s, which this check does not model (no verdict)' % opaque_iter)
    else:
        chk.fail('C19.2', 'checksum', 'valid_checksum: %s' % why, 'src/cart.rs', None)
    # as_buffer covers the whole header from its first byte
    ab = prog.fns.get('cart::Header::as_buffer')
    if ab:
        # evaluated, not pattern-matched: the result must be the byte view of the receiver from offset 0 over exactly
        # size_of::<Header>() bytes, however the pointer and the length are written
        ipb = absint.Interp(facts)
        stb = ipb.new_state()
        hb = ipb.arg_object(stb, 'hdr')
        hsize = facts['adts']['cart::Header']['size']
        rb = list(ipb.run('cart::Header::as_buffer', [hb], stb))
        okb = len(rb) == 1 and rb[0].status == 'ok' and rb[0].ret is not None and rb[0].ret[0] == 'slice' and \
            rb[0].ret[1] == ('O', 'hdr') and rb[0].ret[2] == () and rb[0].ret[3] == C(64, 0) and rb[0].ret[4] == C(64, hsize)
        if not okb:
            chk.fail('C19.2', 'as_buffer', 'Header::as_buffer is not the byte view of the whole header (%s)'
                     % [(r_.status, fmt(r_.ret)[:80] if r_.ret is not None else None) for r_ in rb][:2], 'src/cart.rs', None)
    # ---- rule 3 / 5: load_rom paths
    opq = ['system::open_rom_file', 'system::read_header', 'cart::Header::valid_checksum', 'cart::Header::get_title',
           CORE + 'from_rom_file']
    models = {q: absint.m_pure('filelen', None) for q in LEN_QUERIES}
    models['std::result::Result::<T, E>::map'] = absint.m_pure('resmap', None)
    models['std::result::Result::<T, E>::unwrap_or'] = absint.m_pure('unwrap_or', None)
    ipl = absint.Interp(facts, opaque=opq, models=models, trust_asserts=('overflow',))
    st = ipl.new_state()
    rs = ipl.run(LOAD, [S(0, 'name')], st)
    accept = 0
    bad3 = None
    len_cmp_all = True
    for r in rs:
        calls = [e for e in r.state.events if e[0] == 'call']
        names = [c[1] for c in calls]
        if CORE + 'from_rom_file' in names:
            accept += 1
            vc = [c for c in calls if c[1] == 'cart::Header::valid_checksum']
            if not vc or names.index('cart::Header::valid_checksum') > names.index(CORE + 'from_rom_file'):
                bad3 = 'from_rom_file is reached without a preceding valid_checksum call'
                continue
            v = vc[0][3]
            if r.state.env.const_of(v) != 1:
                bad3 = 'from_rom_file is reached on a path where valid_checksum is not known true'
            # rule 5, decided on values: on an accepting path the file length is at least the declared ROM size (the size
            # table is evaluated on the path's header, however the comparison is written - bytes, banks, rounded)
            hrefs = [c[2][0] for c in calls if c[1] == 'cart::Header::valid_checksum' and c[2]]
            lsyms = set()
            for d in r.state.decisions:
                for s_ in syms_of(d[0]):
                    if any(k_ in s_[2] for k_ in ('filelen', 'resmap', 'unwrap_or')):
                        lsyms.add(s_)
            sem_ok = False
            rh_ = [c for c in calls if c[1] == 'system::read_header' and c[3] is not None]
            if rh_ and lsyms:
                from .. import bvproof as _bp5
                # the header this path validated: the Ok payload of read_header (a helper may have moved it since)
                s5 = r.state.copy()
                hv_ = ipl.project(s5, ipl.project(s5, rh_[-1][3], ('d', 0, 'Ok')), ('f', 0, '0', 'cart::Header', ''))
                s5.mem[('O', 'c19.header')] = hv_
                szs = [(q.ret, q.state.env) for q in ipl.run('cart::Header::get_rom_size_bytes', [('ref', ('O', 'c19.header'), ())], s5)
                       if q.status == 'ok' and q.ret is not None and T.is_int(q.ret)]
                for L_ in lsyms:
                    L64 = L_ if L_[1] == 64 else O(64, 'zext', L_)
                    if szs and all(_bp5.equal_under(O(1, 'ult', L64, sz_ if sz_[1] == 64 else O(64, 'zext', sz_)), C(1, 0), env_, 1)
                                   is True or env_.const_of(O(1, 'ult', L64, sz_ if sz_[1] == 64 else O(64, 'zext', sz_))) == 0
                                   for sz_, env_ in szs):
                        sem_ok = True
            if not sem_ok:
                len_cmp_all = False
            continue
            lens = [e[3] for e in r.state.events if e[0] == 'pure' and 'filelen' in fmt(e[3])]
            decl = [c[3] for c in calls if c[1] == 'cart::Header::get_rom_size_bytes']
            found = False
            for d in r.state.decisions:
                ss = syms_of(d[0])
                has_len = any(('filelen' in s_[2] or 'resmap' in s_[2] or 'unwrap_or' in s_[2]) for s_ in ss)
                has_decl = any(s_ in decl for s_ in ss)
                if has_len and has_decl:
                    found = True
                # the length query failed and the code substituted 0: comparing the declared size with that 0 is the
                # same guard (it rejects every real image)
                t_ = d[0]
                if has_decl and not has_len and t_[0] == 'o' and t_[2] in ('ult', 'ule', 'ugt', 'uge') and \
                        any(a_[0] == 'c' and a_[2] == 0 for a_ in t_[3:]):
                    found = True
            if not found:
                len_cmp_all = False
        else:
            # rejecting path: returns None
            if r.status == 'ok' and not (r.ret is not None and r.ret[0] == 'agg' and r.ret[1][3] == 'None'):
                bad3 = 'a path that does not build a Core returns %s' % fmt(r.ret)
    if bad3 or not accept:
        chk.fail('C19.3', 'dominance', bad3 or 'load_rom never reaches Core::from_rom_file', 'src/main.rs', None)
    else:
        chk.ok('C19.3', 'dominance', sample={'accepting_paths': accept, 'guard': 'valid_checksum() == true'})
    rej = [r for r in rs if CORE + 'from_rom_file' not in [e[1] for e in r.state.events if e[0] == 'call']]
    if rej and all(any(e[0] == 'effect' and e[1] in ('stdout', 'stderr') for e in r.state.events) for r in rej if r.status == 'ok'):
        chk.ok('C19.3', 'messages', sample={'rejecting_paths': len(rej), 'each prints a message': True})
    else:
        chk.fail('C19.3', 'messages', 'a rejecting path of load_rom prints no message', 'src/main.rs', None)
    if accept and len_cmp_all:
        chk.ok('C19.5', 'length-check', sample={'proved on every accepting path': 'file length >= get_rom_size_bytes() (size table evaluated on the path)'})
    else:
        path = prog.path_to(prog.reachable_fns([LOAD]), 'system::linux::map_rom_file')
        chk.fail('C19.5', 'length-check', 'an accepting path of load_rom does not imply file length >= declared ROM size, which '
                 'guards the path to mmap (%s): a file shorter than its header declares is mapped beyond its end and faults '
                 'when the missing part is read' % ' -> '.join(p[0] for p in path), 'src/system/linux.rs',
                 prog.fns['system::linux::map_rom_file']['line'])
    # ---- rule 8: mmap failure
    mapfail(chk, prog)
    # ---- rule 4
    cs = headercfg.configuration_space(facts)
    banks = {}
    for v, res in cs['tables']['banks'].items():
        vals = [x for k, x in res if k == 'const']
        banks[v] = vals[0] if len(vals) == 1 else None
    rams = {}
    for v, res in cs['tables']['rams'].items():
        vals = [x for k, x in res if k == 'const']
        rams[v] = vals[0] if len(vals) == 1 else None
    badb = [(hex(v), banks.get(v), w) for v, w in sm83.ROM_BANKS.items() if banks.get(v) != w]
    badr = [(hex(v), rams.get(v), w) for v, w in sm83.RAM_SIZES.items() if rams.get(v) != w]
    if badb:
        chk.fail('C19.4', 'rom-banks', 'ROM size codes with wrong bank counts (code, got, expected): %s' % badb, 'src/cart.rs', None)
    else:
        chk.ok('C19.4', 'rom-banks', sample={'codes': len(sm83.ROM_BANKS), 'table': {hex(k): v for k, v in sm83.ROM_BANKS.items()}})
    if badr:
        chk.fail('C19.4', 'ram-sizes', 'RAM size codes with wrong sizes (code, got, expected): %s' % badr, 'src/cart.rs', None)
    else:
        chk.ok('C19.4', 'ram-sizes', sample={hex(k): v for k, v in sm83.RAM_SIZES.items()})
    if cs['rom_factor'] == 16 * 1024:
        chk.ok('C19.4', 'rom-bytes', sample={'bytes_per_bank': cs['rom_factor']})
    else:
        chk.fail('C19.4', 'rom-bytes', 'get_rom_size_bytes = bank count x %s' % cs['rom_factor'], 'src/cart.rs', None)
    # ---- rule 6
    rejected = cs['rejected_types']
    supported = sorted(v for lst in cs['cart_types'].values() for v in lst)
    if len(rejected) + len(supported) == 256 and rejected:
        chk.ok('C19.6', 'diverges', sample={'supported': [hex(v) for v in supported], 'rejected_count': len(rejected)})
    else:
        chk.fail('C19.6', 'diverges', 'create_cart_state neither builds a controller nor diverges for some type bytes', 'src/cart.rs', None)
    cc = sorted(set(c[0] for c in prog.callers('cart::Header::create_cart_state')))
    if cc and set(cc) <= families(prog, ['mem::MemoryAreas::with_rom_file']):
        chk.ok('C19.6', 'called-at-load', sample={'callers': cc})
    else:
        chk.fail('C19.6', 'called-at-load', 'create_cart_state is called from %s' % cc, 'src/mem.rs', None)
    # the refusal comes before the mapping exists: the ROM is an mmap region wrapped in a Box<[u8]>; a panic raised while
    # that box is a live local unwinds through its drop glue and hands the mapping to free() - a fault, not a refusal
    WRF = 'mem::MemoryAreas::with_rom_file'
    late, nmap = None, 0
    for cf in sorted(families(prog, [WRF])):
        if cf not in prog.fns:
            continue
        sites = list(prog.call_sites(cf))
        for bb, t, names in sites:
            if not any(n.endswith('get_rom_buffer') or n.endswith('map_rom_file') for n in names):
                continue
            nmap += 1
            nxt = t.get('target', -1)
            if nxt is None or nxt < 0:
                continue
            after = prog.reachable_blocks(cf, nxt)
            for bb2, t2, names2 in sites:
                if bb2 in after and 'cart::Header::create_cart_state' in names2:
                    late = late or ('%s calls create_cart_state (which panics for unsupported controller types) after the ROM '
                                    'file has been mapped (bb%d after bb%d): unwinding drops the Box built over the mapping' % (cf, bb2, bb))
    if late or not nmap:
        chk.fail('C19.6', 'before-mapping', late or 'no call of get_rom_buffer / map_rom_file found in with_rom_file (anchor lost)',
                 'src/mem.rs', None)
    else:
        chk.ok('C19.6', 'before-mapping', sample={'mapping calls': nmap, 'rule': 'create_cart_state is not reachable after the mapping call'})
    # ---- rule 9: the ROM / RAM buffers are built with exactly the sizes the header tables give
    chk.rule('C19.9', 'D', 'MemoryAreas::with_rom_file sizes the ROM and cartridge RAM buffers with the values of '
             'Header::get_rom_size_bytes / get_ram_size_bytes, unmodified', floor=2)
    fixed9 = headercfg.fixed_buffer_sizes(facts)
    for buf9, getter9 in (('rom', 'cart::Header::get_rom_size_bytes'), ('cart_ram', 'cart::Header::get_ram_size_bytes')):
        got9 = fixed9.get(buf9)
        if got9 == ('call', getter9):
            chk.ok('C19.9', 'size:' + buf9, sample={'buffer': buf9, 'sized_by': getter9})
        else:
            chk.fail('C19.9', 'size:' + buf9, '%s is sized by %s, expected exactly the value of %s' % (buf9, got9, getter9),
                     'src/mem.rs', None)
    # ---- rule 7
    offenders = []
    for fname, fn in prog.fns.items():
        for bb, t, names in prog.call_sites(fname):
            for n in names:
                if any(n.startswith(u) for u in UNCHECKED):
                    # is the argument derived from Header data?
                    ipx = absint.Interp(facts, trust_asserts=('bounds', 'overflow'))
                    stx = ipx.new_state()
                    args = []
                    for i in range(1, fn['arg_count'] + 1):
                        ty = fn['locals'][i]['ty']
                        args.append(ipx.arg_object(stx, 'arg%d' % i) if ('&' in ty or '*' in ty) else S(T.int_type(ty)[0] if T.int_type(ty) else 0, 'arg%d' % i))
                    tainted = False
                    for r in ipx.run(fname, args, stx):
                        for e in r.state.events:
                            if e[0] == 'extcall' and any(e[1].startswith(u) for u in UNCHECKED):
                                a = e[2][0]
                                if a is not None and a[0] in ('ref', 'slice'):
                                    pathstr = ' '.join(str(x) for x in a[2])
                                    if HDR in pathstr or HDR in str(fn['locals'][1]['ty'] if fn['arg_count'] else ''):
                                        tainted = True
                    offenders.append((fname, t['line'], n, tainted))
    tainted = [o for o in offenders if o[3]]
    if tainted:
        f, line, n, _ = tainted[0]
        chk.fail('C19.7', 'unchecked:' + f, '%s passes bytes read from the ROM file to %s without validation (invalid UTF-8 in '
                 'the title makes the resulting &str undefined behaviour)' % (f, n), prog.fns[f]['file'], line)
    else:
        chk.ok('C19.7', 'unchecked', sample={'unchecked conversions in crate': [(o[0], o[2]) for o in offenders]})
    chk.assumptions += ['std File/Read/Seek/metadata APIs behave per their contracts',
                        'mmap of the declared size itself succeeds or panics (controlled termination)']
    return chk.finish('Layout facts from rustc, structural scan of read_header, concrete unrolling of the checksum loop into an '
                      'affine form over header bytes, path enumeration of load_rom (dominance of validation and of the '
                      'length check), exhaustive evaluation of the size/type tables over all 256 codes, taint of unchecked '
                      'conversions.', exhaustive=True)


def mapfail(chk, prog):
    MAPF = 'system::linux::map_rom_file'
    fn = prog.fns.get(MAPF)
    if fn is None:
        chk.error('C19.8: %s not found' % MAPF)
        return
    file = fn['file']
    calls = [(i, b['term']) for i, b in enumerate(fn['blocks']) if b['term']['k'] == 'call' and
             (b['term']['resolved'] or b['term']['callee'] or '').endswith('libc::mmap')]
    if not calls:
        chk.error('C19.8: %s does not call libc::mmap (anchor lost)' % MAPF)
        return
    ok_all = True
    why = ''
    for bi, t in calls:
        ptr = {t['dest']['local']}
        # copies of the returned pointer
        changed = True
        while changed:
            changed = False
            for b in fn['blocks']:
                for s_ in b['stmts']:
                    if s_['k'] == 'assign' and not s_['place']['proj'] and s_['rv']['k'] in ('use', 'cast'):
                        op = s_['rv'].get('op')
                        if op and op['k'] in ('copy', 'move') and op['place']['local'] in ptr and not op['place']['proj'] \
                                and s_['place']['local'] not in ptr:
                            ptr.add(s_['place']['local'])
                            changed = True
        guarded = False
        for b in fn['blocks']:
            for s_ in b['stmts']:
                rv = s_['rv'] if s_['k'] == 'assign' else None
                if not rv or rv['k'] != 'binop' or rv['op'] not in ('Eq', 'Ne'):
                    continue
                ops = [rv['a'], rv['b']]
                has_ptr = any(o['k'] in ('copy', 'move') and o['place']['local'] in ptr for o in ops)
                consts = [o for o in ops if o['k'] == 'const']
                if not has_ptr or not consts or consts[0].get('val') != (1 << 64) - 1:
                    continue
                flag = s_['place']['local']
                tt = b['term']
                if tt['k'] != 'switch':
                    continue
                # the edge taken when the pointer equals MAP_FAILED must diverge
                eq_edge = None
                if rv['op'] == 'Eq':
                    eq_edge = tt['otherwise'] if all(v == 0 for v, _ in tt['targets']) else None
                    for v, tgt in tt['targets']:
                        if v == 1:
                            eq_edge = tgt
                else:
                    for v, tgt in tt['targets']:
                        if v == 0:
                            eq_edge = tgt
                if eq_edge is None:
                    continue
                tb = fn['blocks'][eq_edge]['term']
                if tb['k'] == 'call' and tb['target'] < 0 and prog.is_panic_callee(tb['resolved'] or tb['callee'] or ''):
                    guarded = True
        if not guarded:
            ok_all = False
            why = ('the pointer returned by mmap is not compared with MAP_FAILED ((void*)-1) on a branch that diverges: a '
                   'failed mapping is handed on as the ROM buffer and faults at the first access')
    if ok_all:
        chk.ok('C19.8', 'mmap-failure', sample={'function': MAPF, 'guard': 'pointer == MAP_FAILED -> panic'})
    else:
        chk.fail('C19.8', 'mmap-failure', why, file, fn['line'])
