"""C20 - debugger command parsing and disassembly are total and agree with the decoder."""
from .. import absint, opspec as osp, terms as T
from ..terms import C, S, O, AV, fmt
from ..affine import diff_const
from .common import *
from .c03 import syms_of

PC = 'debug::command::parse_command'
NC = 'debug::command::normalize_command'
PA = 'debug::command::parse_address'
DIS = 'debug::disassembly::disassemble'
STR_EQ = 'core::str::traits::<impl std::cmp::PartialEq for str>::eq'


def str_models(log):
    def pure(name):
        def f(ip, st, fr, t, args, site, dest_ty):
            ret = T.UNIT if dest_ty == '()' else st.fresh(T.int_type(dest_ty)[0] if T.int_type(dest_ty) else 0, name)
            texts = tuple(absint.as_str(ip, st, a) for a in args)
            vals = []
            for a in args:
                v = None
                if a is not None and a[0] == 'ref':
                    try:
                        v = ip.read(st, a[1], a[2])
                    except absint.Abort:
                        v = None
                vals.append(v)
            st.events.append(('pure', t['resolved'], tuple(args), ret, site, texts, tuple(vals)))
            log.append((name, t['resolved'], texts, args, ret, site))
            yield (ret, st, 'ok', None)
        return f
    def strip_prefix(ip, st, fr, t, args, site, dest_ty):
        # str::strip_prefix(s, lit): Some(rest of s after lit) when s starts with lit, None otherwise
        texts = tuple(absint.as_str(ip, st, a) for a in args)
        payload = st.fresh(0, 'strip_prefix')
        s2 = st.copy()
        s2.events.append(('pure', t['resolved'], tuple(args), payload, site, texts, (), 'Some'))
        st.events.append(('pure', t['resolved'], tuple(args), payload, site, texts, (), 'None'))
        log.append(('strip_prefix', t['resolved'], texts, args, payload, site))
        yield (('agg', absint.SOME, (payload,)), s2, 'ok', None)
        yield (('agg', absint.NONE, ()), st, 'ok', None)
    return {
        'core::str::<impl str>::strip_prefix': strip_prefix,
        'core::str::<impl str>::split_whitespace': pure('split_whitespace'),
        '<std::str::SplitWhitespace<\'a> as std::iter::Iterator>::next': pure('ws_next'),
        'core::str::<impl str>::trim': pure('trim'),
        'std::str::<impl str>::to_lowercase': pure('to_lowercase'),
        'core::str::<impl str>::starts_with': pure('starts_with'),
        'core::str::<impl str>::get_unchecked': pure('get_unchecked'),
        'core::str::<impl str>::parse': pure('parse'),
        'core::num::<impl u16>::from_str_radix': pure('from_str_radix'),
        STR_EQ: pure('str_eq'),
        'std::string::String::as_str': pure('as_str'),
        '<std::string::String as std::str::FromStr>::from_str': pure('from_str'),
        'std::result::Result::<T, E>::ok': pure('ok'),
        '<std::string::String as std::ops::Deref>::deref': pure('deref'),
    }


def same(arg, val):
    """arg is the value `val` or a reference to the object it denotes"""
    if arg == val:
        return True
    if arg is not None and val is not None and arg[0] == 'ref' and val[0] == 's' and arg[1] == ('O', val[2]) and not arg[2]:
        return True
    return False


def run(ctx, chk):
    chk.rule('C20.1', 'D', 'parsing is total: no assert / panic / unwrap reachable from parse_command, normalize_command, '
             'parse_address; the unsafe get_unchecked(k..) is dominated by starts_with(lit) with len(lit) = k, lit ASCII', floor=4)
    chk.rule('C20.2', 'D', 'case and whitespace: every command word compared is a lower-case literal; the compared value flows '
             'from trim().to_lowercase(); tokens come from split_whitespace', floor=8)
    chk.rule('C20.3', 'N', 'numeric parsing: hexadecimal through u16::from_str_radix(_, 16) on the text after the prefix, '
             'decimal through str::parse::<u16>; results reach the Command payload unmodified', floor=2)
    chk.rule('C20.4', 'D', 'disassembler tiling: cursor and address advance by the length of the same decode call whose slice '
             'starts at cursor; loop runs while cursor < len; the 4-byte copy buffer covers the maximum length', floor=4)
    facts = ctx.facts('default')
    prog = ctx.program('default')
    file = 'src/debug/command.rs'
    if not need(chk, prog, [PC, NC, PA, DIS, 'decoder::decode']):
        return chk.finish('anchors missing')
    # ---- rule 1: panic reachability
    roots = [PC, NC, PA]
    parent = prog.reachable_fns(roots)
    crate_reach = [f for f in parent if f in prog.fns]
    panics = [f for f in parent if prog.is_panic_callee(f) or f.endswith('::unwrap') or f.endswith('::expect')]
    for f in crate_reach:
        fn = prog.fns[f]
        asserts = [(i, b['term']) for i, b in enumerate(fn['blocks']) if not b['cleanup'] and b['term']['k'] == 'assert'
                   and b['term']['akind'] not in ('misaligned', 'null_deref')]
        key = 'fn:' + f
        if asserts:
            chk.fail('C20.1', key, '%s contains a runtime check (%s) that can abort parsing' % (f, asserts[0][1]['akind']),
                     fn['file'], asserts[0][1]['line'])
        else:
            chk.ok('C20.1', key)
    if panics:
        chk.fail('C20.1', 'panic-callee', 'parsing can reach %s via %s' % (panics[0], ' -> '.join(
            p[0] for p in prog.path_to(parent, panics[0]))), file, None)
    else:
        chk.ok('C20.1', 'panic-callee', sample={'reachable_crate_functions': crate_reach})
    # ---- parse_address
    log = []
    ip = absint.Interp(facts, models=str_models(log))
    st = ip.new_state()
    tok = S(0, 'token')
    rs = ip.run(PA, [tok], st)
    gu_ok = None
    hex_ok = dec_ok = False
    for r in rs:
        evs = [e for e in r.state.events if e[0] == 'pure']
        names = [e[1] for e in evs]
        gu = [e for e in evs if e[1].endswith('get_unchecked')]
        sw = [e for e in evs if e[1].endswith('starts_with')]
        if gu:
            rng = gu[0][2][1]
            k = rng[2][0][2] if rng is not None and rng[0] == 'agg' and rng[2] and rng[2][0][0] == 'c' else None
            lit = sw[0][5][1] if sw else None
            same_s = bool(sw) and sw[0][2][0] == gu[0][2][0]
            cond = r.state.env.const_of(sw[0][3]) if sw else None
            gu_ok = (k is not None and lit is not None and same_s and cond == 1 and len(lit.encode()) == k and
                     all(ord(ch) < 128 for ch in lit))
            if not gu_ok:
                chk.fail('C20.1', 'get_unchecked', 'get_unchecked(%s..) is not justified: prefix literal %r, same string=%s, '
                         'starts_with known true=%s' % (k, lit, same_s, cond), file, gu[0][4][1])
            fr_ = [e for e in evs if e[1].endswith('from_str_radix')]
            if fr_ and same(fr_[0][2][0], gu[0][3]) and fr_[0][2][1] == C(32, 16):
                okr = [e for e in evs if e[1].endswith('Result::<T, E>::ok')]
                if okr and same(okr[-1][2][0], fr_[0][3]) and r.ret == okr[-1][3]:
                    hex_ok = True
        elif any(e[1].endswith('strip_prefix') and e[7] == 'Some' for e in evs):
            # the safe form of the same thing: the text after the prefix is what strip_prefix hands back
            sp_ = [e for e in evs if e[1].endswith('strip_prefix')][0]
            lit = sp_[5][1]
            fr_ = [e for e in evs if e[1].endswith('from_str_radix')]
            if fr_ and same(fr_[0][2][0], sp_[3]) and fr_[0][2][1] == C(32, 16) and lit is not None and lit == lit.lower():
                okr = [e for e in evs if e[1].endswith('Result::<T, E>::ok')]
                if okr and same(okr[-1][2][0], fr_[0][3]) and r.ret == okr[-1][3]:
                    hex_ok = True
        elif any(n.endswith('<impl str>::parse') for n in names):
            pr = [e for e in evs if e[1].endswith('<impl str>::parse')][0]
            okr = [e for e in evs if e[1].endswith('Result::<T, E>::ok')]
            u16 = 'u16' in prog.fns[PA]['locals'][0]['ty']
            if okr and same(okr[-1][2][0], pr[3]) and r.ret == okr[-1][3] and u16:
                # the parsed text is the trimmed token
                tr = [e for e in evs if e[1].endswith('trim')]
                if tr and same(pr[2][0], tr[-1][3]):
                    dec_ok = True
    if gu_ok:
        chk.ok('C20.1', 'get_unchecked', sample={'prefix': '0x', 'skipped_bytes': 2, 'guard': 'starts_with true'})
    elif gu_ok is None:
        chk.ok('C20.1', 'get_unchecked', nontrivial=False)
    if hex_ok:
        chk.ok('C20.3', 'hex', sample={'hex': 'u16::from_str_radix(text after prefix, 16).ok()'})
    else:
        chk.fail('C20.3', 'hex', 'hexadecimal addresses are not parsed by u16::from_str_radix(<text after prefix>, 16) with the '
                 'result returned unmodified', file, None)
    if dec_ok:
        chk.ok('C20.3', 'decimal', sample={'decimal': 'trimmed.parse::<u16>().ok()'})
    else:
        chk.fail('C20.3', 'decimal', 'decimal addresses are not parsed by str::parse::<u16> on the trimmed token with the result '
                 'returned unmodified', file, None)
    # ---- rule 2: literals and normalisation
    lits = []
    log0 = []
    ipq = absint.Interp(facts, models=str_models(log0), opaque=[NC, PA])
    ipq.run(PC, [S(0, 'line')], ipq.new_state())
    seen_l = set()
    for name, res, texts, args, ret, site in log0:
        if name == 'str_eq':
            for tx in texts:
                if tx is not None and (tx, site[1]) not in seen_l:
                    seen_l.add((tx, site[1]))
                    lits.append((tx, site[1]))
    for lit, line in lits:
        key = 'literal:' + lit
        if lit == lit.lower() and lit == lit.strip() and lit:
            chk.ok('C20.2', key, nontrivial=False)
        else:
            chk.fail('C20.2', key, 'command word literal %r is not lower case / trimmed: it can never match the normalised '
                     'input' % lit, file, line)
    if not lits:
        chk.fail('C20.2', 'literals', 'no command word comparisons found in parse_command', file, None)
    log2 = []
    ipn = absint.Interp(facts, models=str_models(log2))
    st = ipn.new_state()
    some = ('agg', ('adt', 'std::option::Option', 1, 'Some'), (('str', 'TOKEN'),))
    rs = ipn.run(NC, [some], st)
    norm_ok = False
    for r in rs:
        if r.status != 'ok' or r.ret is None or r.ret[0] != 'agg' or r.ret[1][3] != 'Some':
            continue
        evs = [e for e in r.state.events if e[0] == 'pure']
        tl = [e for e in evs if e[1].endswith('to_lowercase')]
        tr = [e for e in evs if e[1].endswith('trim')]
        if tl and tr and r.ret[2][0] == tl[-1][3] and same(tl[-1][2][0], tr[-1][3]):
            norm_ok = True
    if norm_ok:
        chk.ok('C20.2', 'normalize', sample={'normalize_command': 'Some(token.trim().to_lowercase())'})
    else:
        chk.fail('C20.2', 'normalize', 'normalize_command does not return trim().to_lowercase() of the token', file, None)
    # tokens come from split_whitespace and the matched word is the normalised first token
    log3 = []
    ipp = absint.Interp(facts, models=str_models(log3), opaque=[NC, PA])
    st = ipp.new_state()
    rs = ipp.run(PC, [S(0, 'line')], st)
    flow_ok = True
    npaths = 0
    raw_words = set()
    for r in rs:
        evs = [e for e in r.state.events if e[0] in ('pure', 'call')]
        sw = [e for e in evs if e[1].endswith('split_whitespace')]
        nx = [e for e in evs if e[1].endswith('Iterator>::next')]
        nc = [e for e in evs if e[1] == NC]
        eqs = [e for e in evs if e[1] == STR_EQ]
        if eqs:
            npaths += 1
            if not (sw and nx and nc and same(nc[0][2][0], nx[0][3])):
                flow_ok = False
            # every comparison with a command-word literal compares a string obtained from normalize_command
            for e in eqs:
                lit = [tx for tx in e[5] if tx is not None]
                other = [a for a, tx in zip(e[2], e[5]) if tx is None]
                if not lit or not other:
                    continue
                okv = False
                a = other[0]
                for src in evs:
                    if src[0] == 'pure' and src[1].split('::')[-1] in ('as_str', 'deref') and same(a, src[3]):
                        recv = src[6][0] if len(src) > 6 else None
                        if recv is not None and 'normalize_command' in fmt(recv):
                            okv = True
                if not okv:
                    flow_ok = False
                    raw_words.add(lit[0])
    if flow_ok and npaths:
        chk.ok('C20.2', 'flow', sample={'paths_with_comparisons': npaths,
                                        'flow': 'line.split_whitespace().next() -> normalize_command -> match'})
    else:
        chk.fail('C20.2', 'flow', 'the compared command word does not flow from split_whitespace through normalize_command'
                 + ((': the words %s are compared with a token that was not trimmed and lower-cased' % sorted(raw_words))
                    if raw_words else ''), file, None)
    # payload: parse_address result reaches the Command unmodified
    pay_ok = True
    for r in rs:
        pa = [e for e in r.state.events if e[0] == 'call' and e[1] == PA]
        if r.status == 'ok' and r.ret is not None and r.ret[0] == 'agg' and r.ret[1][3] == 'Some' and pa:
            cmd = r.ret[2][0]
            if cmd[0] == 'agg' and cmd[2]:
                names = [s_[2] for s_ in syms_of(cmd[2][0])]
                if not any(n.startswith(pa[-1][3][2]) for n in names):
                    pay_ok = False
    if pay_ok:
        chk.ok('C20.3', 'payload', nontrivial=False)
    else:
        chk.fail('C20.3', 'payload', 'the address in the returned Command is not the value parse_address produced', file, None)
    # ---- rule 4: disassembler
    sp = ctx.opspec('default')
    maxlen = 0
    for enc in osp.all_encodings():
        try:
            _, ln, _ = sp.decoded(enc)
            maxlen = max(maxlen, ln or 0)
        except absint.Abort:
            pass

    def sf(t):
        if t[2].startswith('ret:decode') and t[2].endswith('.1'):
            return AV(64, 1, maxlen)
        return None
    # Two consecutive iterations from the summarised loop state.  Whatever the loop keeps (a cursor into the input or the
    # remaining slice), the relation is between the slices handed to decode() and the addresses pushed:
    #   decode#1 gets input[s1..], s1 < len;  decode#2 gets input[s1 + length#1 ..];  address#2 = address#1 + length#1
    from .. import bvproof
    ipd = absint.Interp(facts, loop_mode='havoc', opaque=['decoder::decode'], sym_facts=sf,
                        models={'<T as std::string::ToString>::to_string': absint.m_pure('tostring', 0),
                                'std::vec::Vec::<T, A>::push': absint.m_pure('push', 0),
                                'std::vec::Vec::<T>::new': absint.m_pure('vecnew', 0)},
                        trust_asserts=('overflow',), extra_iterations=1)
    st = ipd.new_state()
    st.mem[('O', 'code')] = S(0, 'code')
    code_len = S(64, 'len(code)', ('len', 'code'))
    ins = ('slice', ('O', 'code'), (), C(64, 0), code_len)
    addr0 = S(16, 'addr0')
    rs = ipd.run(DIS, [addr0, ins], st)
    dfile = 'src/debug/disassembly/mod.rs'
    fn = prog.fns[DIS]
    loops = ipd.loops_of(DIS)
    # decode may be called from a private helper the loop body is split into
    fam_ = private_family(prog, DIS)
    via = {'decoder::decode'}
    grew = True
    while grew:
        grew = False
        for f_ in sorted(fam_ - via - {DIS}):
            if any(n_ in via for _, _, names_ in prog.call_sites(f_) for n_ in names_):
                via.add(f_)
                grew = True
    dec_blocks = [i for i, b_ in enumerate(fn['blocks']) if b_['term']['k'] == 'call' and
                  (b_['term']['resolved'] or b_['term']['callee']) in via]
    outer = [h for h, body_ in loops.items() if any(d in body_ for d in dec_blocks)]
    outer = max(outer, key=lambda h: len(loops[h])) if outer else None
    tile_ok = outer is not None
    why = 'no loop calling decode found'
    buf_ok = True
    pairs = 0
    singles = 0
    htag = ':bb%d)' % outer if outer is not None else '\0'

    def proved(cond, env):
        return env.const_of(cond) == 1 or bvproof.equal_under(cond, C(1, 1), env, 1) is True

    def eq64(a_, b_, env, w=64):
        return a_ == b_ or diff_const(a_, b_, env, w) == 0 or bvproof.equal_under(a_, b_, env, w) is True
    start_head = None
    for r in rs:
        if r.status not in ('ok', 'loopback'):
            continue
        if r.status == 'loopback' and r.where and r.where[2] != outer:
            continue      # cut inside the inner byte-copy loop
        env = r.state.env
        evs = r.state.events
        hv = [i for i, e in enumerate(evs) if e[0] == 'loopinit' and htag in e[1][2]]
        if not hv:
            continue
        inits = {e[1]: e[2] for e in evs if e[0] == 'loopinit'}
        evs = evs[hv[-1] + 1:]
        decs = [e for e in evs if e[0] == 'call' and e[1] == 'decoder::decode']
        pushes = [e for e in evs if e[0] == 'pure' and e[1].endswith('::push')]
        for e in evs:
            if e[0] == 'assert' and e[1] == 'bounds' and e[3] != 'discharged':
                d = e[4]
                if d and d[2] is not None and d[2][0] == 'c':
                    buf_ok = False
        if not decs:
            continue
        sl1 = decs[0][2][0]
        if sl1[0] != 'slice' or sl1[1] != ('O', 'code'):
            tile_ok, why = False, 'decode is not given a part of the input (%s)' % fmt(sl1)[:80]
            continue
        s1, n1 = sl1[3], sl1[4]
        singles += 1
        if start_head is None:
            start_head = s1
        if not eq64(O(64, 'add', s1, n1), code_len, env):
            tile_ok, why = False, 'the slice handed to decode (%s, %s bytes) does not run to the end of the input' % (fmt(s1), fmt(n1))
            continue
        if not proved(O(1, 'ult', s1, code_len), env):
            tile_ok, why = False, 'loop is not guarded by cursor < instructions.len()'
            continue
        # base case: with the loop variables at their initial values the first slice starts at 0
        s1_0 = bvproof.subst(s1, inits)
        if env.const_of(s1_0) != 0 and not eq64(s1_0, C(64, 0), env):
            tile_ok, why = False, 'the first slice handed to decode starts at %s, not at the start of the input' % fmt(s1_0)
            continue
        length1 = S(64, decs[0][3][2] + '.1', None)
        if len(decs) >= 2:
            sl2 = decs[1][2][0]
            if sl2[0] != 'slice' or sl2[1] != ('O', 'code') or not eq64(sl2[3], O(64, 'add', s1, length1), env):
                tile_ok, why = False, ('cursor after the instruction is %s, expected cursor + decoded length'
                                       % (fmt(sl2[3]) if sl2[0] == 'slice' else fmt(sl2)))
                continue
            if len(pushes) < 2:
                tile_ok, why = False, 'an iteration does not push an instruction'
                continue

            def addr_of(pe):
                v = pe[2][1] if len(pe[2]) > 1 else None
                if v is not None and v[0] == 'agg' and v[1][0] == 'adt' and v[2]:
                    adt = facts['adts'].get(v[1][1])
                    names_ = [f_['name'] for f_ in adt['fields']] if adt else []
                    if 'address' in names_:
                        return v[2][names_.index('address')]
                return None
            a1, a2 = addr_of(pushes[0]), addr_of(pushes[1])
            if a1 is None or a2 is None or not T.is_int(a1) or not T.is_int(a2) or \
                    not eq64(a2, O(16, 'add', a1, O(16, 'trunc', length1)), env, 16):
                tile_ok, why = False, 'the address does not advance by the decoded length'
                continue
            a1_0 = bvproof.subst(a1, inits)
            if not eq64(a1_0, addr0, env, 16):
                tile_ok, why = False, 'the first address is %s, not the initial address' % fmt(a1_0)
                continue
            pairs += 1
    if tile_ok and not pairs:
        tile_ok, why = False, 'no complete iteration of the instruction loop found'
    if tile_ok:
        chk.ok('C20.4', 'tiling', sample={'decode#2 slice start, address#2': 'decode#1 slice start + length#1, address#1 + length#1',
                                          'guard': 'slice start < instructions.len(), slice runs to the end',
                                          'paths with two iterations': pairs})
    else:
        chk.fail('C20.4', 'tiling', 'disassemble: %s' % why, dfile, None)
    if buf_ok and maxlen and maxlen <= 4:
        chk.ok('C20.4', 'copy-buffer', sample={'buffer': 4, 'max_decoder_length': maxlen})
    else:
        chk.fail('C20.4', 'copy-buffer', 'the per-instruction byte buffer does not cover the maximum decoder length %d'
                 % maxlen, dfile, None)
    # exit: the function returns only when the loop state says nothing is left (start of the next slice >= len)
    exits = [r for r in rs if r.status == 'ok']
    exit_ok = bool(exits) and start_head is not None
    for r in exits:
        evs = r.state.events
        hv = [i for i, e in enumerate(evs) if e[0] == 'loopinit' and htag and htag in e[1][2]]
        decs = [e for e in (evs[hv[-1] + 1:] if hv else evs) if e[0] == 'call' and e[1] == 'decoder::decode']
        if decs:
            nxt = O(64, 'add', decs[-1][2][0][3], S(64, decs[-1][3][2] + '.1', None)) if decs[-1][2][0][0] == 'slice' else None
        else:
            nxt = start_head if hv else C(64, 0)
        if nxt is None or not (r.state.env.const_of(O(1, 'ult', nxt, code_len)) == 0 or
                               bvproof.equal_under(O(1, 'ult', nxt, code_len), C(1, 0), r.state.env, 1) is True):
            exit_ok = False
    if exit_ok:
        chk.ok('C20.4', 'exit', sample={'loop exits when': 'cursor >= instructions.len()'})
    else:
        chk.fail('C20.4', 'exit', 'disassemble can return before the cursor reaches the end of the input', dfile, None)
    callers = sorted(set(c[0] for c in prog.callers('decoder::decode')))
    if set(callers) & fam_:
        chk.ok('C20.4', 'same-decoder', sample={'decoder::decode callers': callers})
    else:
        chk.fail('C20.4', 'same-decoder', 'disassemble does not use decoder::decode', dfile, None)
    # ---- rule 5: the decoder reads only the bytes of the instruction it reports
    chk.rule('C20.5', 'D', 'the decoder reads only the bytes it claims: for each of the 511 encodings, decode() on a slice that '
             'ends exactly at the end of the instruction completes and reports that length (a sequence of complete '
             'instructions is then disassembled without running off its end)', floor=500)
    sp = ctx.opspec('default')
    for enc in osp.all_encodings():
        name = osp.enc_name(enc)
        try:
            op, ln, cy = sp.decoded(enc)
        except absint.Abort as e:
            chk.fail('C20.5', name, 'decode does not give one result on a 3-byte window: %s' % e.why, 'src/decoder/mod.rs', None)
            continue
        if ln is None or not 1 <= ln <= 3:
            chk.fail('C20.5', name, 'decode reports length %s' % ln, 'src/decoder/mod.rs', None)
            continue
        rs = sp.decode(enc, ln)
        bad = [r for r in rs if r.status != 'ok']
        lens = set(r.ret[2][1] for r in rs if r.status == 'ok' and r.ret is not None)
        if bad:
            chk.fail('C20.5', name, 'decode of %s reads past the %d byte(s) of the instruction: it does not complete on a slice '
                     'that ends at the instruction boundary (%s)' % (name, ln, bad[0].status), 'src/decoder/mod.rs', None)
        elif lens != {C(64, ln)}:
            chk.fail('C20.5', name, 'decode reports a different length on the exact slice', 'src/decoder/mod.rs', None)
        else:
            chk.ok('C20.5', name, nontrivial=ln > 1)
    chk.assumptions += ['std parsing functions (split_whitespace, trim, to_lowercase, parse, from_str_radix) are total and '
                        'behave per their contracts; leniencies inherited from std (an accepted leading "+") are not errors here',
                        'disassembly precondition from the property: the byte sequence ends on an instruction boundary']
    return chk.finish('Panic reachability over the resolved call graph of the three parsing functions, path enumeration of '
                      'parse_address / normalize_command / parse_command with std string functions modelled as pure symbols '
                      '(def-use of their results), and one symbolic iteration of the disassembly loop for the tiling '
                      'relation.', exhaustive=True)
