"""C11 - no guest-controlled bus access can crash the emulator (panic freedom of the bus helpers)."""
from .. import absint, busmodel as bm, headercfg, terms as T
from ..terms import C, S, O, AV, fmt
from ..invariants import FieldInvariants
from .common import *

BUFS = ('rom', 'video_ram', 'cart_ram', 'work_ram', 'oam_ram', 'high_ram')
WORD = ('mem::memory_write_word', 'mem::memory_read_word')


def create_buffer_len_is_arg(prog):
    """create_buffer(n): one Range 0..n loop with exactly one push per iteration, then into_boxed_slice"""
    fn = prog.fns.get('mem::create_buffer')
    if not fn:
        return False
    pushes = 0
    ranges = 0
    boxed = 0
    for b in fn['blocks']:
        if b['cleanup']:
            continue
        for s in b['stmts']:
            if s['k'] == 'assign' and s['rv']['k'] == 'aggregate' and s['rv']['kind']['k'] == 'adt' \
                    and s['rv']['kind']['name'].endswith('ops::Range'):
                ops = s['rv']['ops']
                if ops[0]['k'] == 'const' and ops[0]['val'] == 0 and ops[1]['k'] in ('copy', 'move') \
                        and ops[1]['place']['local'] in (1,) + tuple(range(2, 40)):
                    ranges += 1
        t = b['term']
        if t['k'] == 'call':
            c = t['resolved'] or t['callee']
            if c.endswith('Vec::<T, A>::push'):
                pushes += 1
            if c.endswith('into_boxed_slice'):
                boxed += 1
    if pushes == 1 and ranges == 1 and boxed == 1:
        return True
    # vec![x; n] (std::vec::from_elem(x, n)) or Vec::resize(n, x) on a fresh vector, then into_boxed_slice
    def is_arg(op, depth=0):
        if op['k'] not in ('copy', 'move') or op['place']['proj'] or depth > 6:
            return False
        loc_ = op['place']['local']
        if loc_ == 1:
            return True
        defs = [s_['rv'] for b_ in fn['blocks'] for s_ in b_['stmts']
                if s_['k'] == 'assign' and s_['place']['local'] == loc_ and not s_['place']['proj']]
        return len(defs) == 1 and defs[0]['k'] == 'use' and is_arg(defs[0]['op'], depth + 1)
    sized = 0
    other = 0
    for b in fn['blocks']:
        if b['cleanup']:
            continue
        t = b['term']
        if t['k'] != 'call':
            continue
        c = t['resolved'] or t['callee']
        if c.startswith('std::vec::from_elem') and len(t['args']) == 2 and is_arg(t['args'][1]):
            sized += 1
        elif c.endswith('Vec::<T, A>::resize') and len(t['args']) == 3 and is_arg(t['args'][1]):
            sized += 1
        elif c.endswith('into_boxed_slice') or c.endswith('Vec::<T>::new') or c.endswith('Vec::<T>::with_capacity'):
            pass
        else:
            other += 1
    return sized == 1 and boxed == 1 and pushes == 0 and other == 0


def obligation_key(fname, ev, ordinal):
    kind = ev[1]
    d = ev[4]
    disc = ''
    if d and d[0] in ('bounds',) and d[2] is not None and d[2][0] == 's':
        disc = bm.buffer_of(d[2][2])
    elif d and d[0] == 'slice_index':
        disc = 'slice'
    return '%s:%s:%s#%d' % (ev[2][0], kind, disc, ordinal)


def run(ctx, chk):
    chk.rule('C11.1', 'D', 'every bounds / overflow / division assert and every panicking call reachable from the four '
             'bus helpers is discharged for every (controller, ROM size, RAM size) a header can declare', floor=30)
    chk.rule('C11.2', 'D', 'buffer lengths follow the header tables: with_rom_file sizes rom / cart_ram from the header '
             'getters and the fixed buffers from constants; create_buffer(n) has length n', floor=7)
    chk.rule('C11.3', 'D', 'results of stdout write/flush on the bus path are discarded, not unwrapped; print! is not '
             'reachable from a bus helper', floor=1)
    chk.rule('C11.4', 'D', 'unsupported controller types diverge in create_cart_state before any bus access', floor=1)
    facts = ctx.facts('default')
    prog = ctx.program('default')
    if not need(chk, prog, BUS + ['cart::Header::create_cart_state', 'mem::MemoryAreas::with_rom_file',
                                  'mem::create_buffer']):
        return chk.finish('anchors missing')
    cs = headercfg.configuration_space(facts)
    fixed = headercfg.fixed_buffer_sizes(facts)
    mfile = prog.fns[bm.RD]['file']
    # ---- rule 2
    want = {'rom': ('call', 'cart::Header::get_rom_size_bytes'), 'cart_ram': ('call', 'cart::Header::get_ram_size_bytes')}
    for buf in BUFS:
        got = fixed.get(buf)
        if buf in want:
            if got == want[buf]:
                chk.ok('C11.2', 'size:' + buf, sample={'buffer': buf, 'sized_by': got[1]})
            else:
                chk.fail('C11.2', 'size:' + buf, '%s is sized by %s, expected the header getter %s' % (buf, got, want[buf][1]),
                         mfile, None)
        else:
            if got and got[0] == 'const':
                chk.ok('C11.2', 'size:' + buf, sample={'buffer': buf, 'bytes': got[1]})
            else:
                chk.fail('C11.2', 'size:' + buf, '%s is not sized by a constant: %s' % (buf, got), mfile, None)
    if create_buffer_len_is_arg(prog):
        chk.ok('C11.2', 'create_buffer')
    else:
        chk.fail('C11.2', 'create_buffer', 'create_buffer(n) is not a single 0..n push loop; its length is not known to be n',
                 mfile, prog.fns['mem::create_buffer']['line'])
    if not cs['cart_types'] or cs['rom_factor'] is None:
        chk.error('could not extract the header configuration space')
        return chk.finish('anchors missing')
    lens_fixed = {b: fixed[b][1] for b in BUFS if fixed.get(b) and fixed[b][0] == 'const'}
    # ---- rule 1
    inv = FieldInvariants(facts)
    for o, f in (('mem::MemoryAreas', 'vram_bank'), ('mem::MemoryAreas', 'wram_bank'),
                 ('cart::MBC1CartState', 'rom_bank'), ('cart::MBC1CartState', 'ram_bank'),
                 ('cart::MBC3CartState', 'rom_bank'), ('cart::MBC3CartState', 'ram_bank'),
                 ('devices::joypad::Joypad', 'action_state'), ('devices::joypad::Joypad', 'direction_state')):
        inv.track(o, f)
    failures = {}   # key -> {'what':..., 'configs': [...], 'site':...}
    seen = {}       # key -> site
    nconf = 0
    for cart in sorted(cs['cart_types']):
        for banks in cs['bank_counts']:
            for ram in cs['ram_sizes']:
                nconf += 1
                lens = dict(lens_fixed)
                lens['rom'] = banks * cs['rom_factor']
                lens['cart_ram'] = ram

                def sf(t, lens=lens):
                    m = t[3]
                    if m and m[0] == 'len':
                        b = bm.buffer_of(m[1])
                        if b in lens:
                            return AV.const(64, lens[b])
                    return inv.sym_facts(t)
                ip = absint.Interp(facts, sym_facts=sf, dyn_filter=(lambda mth, ty, cart=cart: ty == cart))
                for helper, args in ((bm.RD, [S(0, 'areas'), S(16, 'addr')]),
                                     (bm.WR, [S(0, 'areas'), S(16, 'addr'), S(8, 'value')])):
                    collect(ip, helper, args, (cart, banks, ram), failures, seen, chk)
    # word helpers: byte helpers opaque (their obligations are covered above for every address)
    ipw = absint.Interp(facts, opaque=[bm.RD, bm.WR])
    for helper, args in ((WORD[0], [S(0, 'areas'), S(16, 'addr'), S(16, 'value')]),
                         (WORD[1], [S(0, 'areas'), S(16, 'addr')])):
        collect(ipw, helper, args, ('any', 0, 0), failures, seen, chk)
    extra_helpers = [n for n in prog.fns if n.startswith('mem::memory_') and n not in BUS and
                     'sysv64' in prog.fns[n]['abi'].lower()]
    for helper in extra_helpers:
        fn = prog.fns[helper]
        args = [S(0, 'areas')] + [S(16, 'a%d' % i) for i in range(fn['arg_count'] - 1)]
        collect(ipw, helper, args, ('any', 0, 0), failures, seen, chk)
    for key, site in sorted(seen.items()):
        if key in failures:
            f = failures[key]
            cfgs = f['configs']
            chk.fail('C11.1', key, '%s can fail (%s) for %d of %d configurations, e.g. controller %s, %d ROM banks, %d bytes '
                     'of cartridge RAM' % (f['what'], f['how'], len(cfgs), nconf, cfgs[0][0].split('::')[-1], cfgs[0][1],
                                           cfgs[0][2]), prog.fns[site[0]]['file'] if site[0] in prog.fns else mfile, site[1],
                     {'configs': [list(c) for c in cfgs[:12]]})
        else:
            chk.ok('C11.1', key, sample={'obligation': key} if len(chk.samples) < 12 else None)
    chk.extra['configurations'] = nconf
    chk.extra['configuration_space'] = {'controllers': {k: v for k, v in cs['cart_types'].items()},
                                        'rom_banks': cs['bank_counts'], 'ram_bytes': cs['ram_sizes']}
    # ---- rule 3
    parent = prog.reachable_fns(BUS)
    printers = [f for f in parent if f.startswith('std::io::_print') or f.startswith('std::io::_eprint')]
    if printers:
        chk.fail('C11.3', 'print', 'print!/println! (panics on a closed stream) is reachable from a bus helper via %s'
                 % ' -> '.join(p[0] for p in prog.path_to(parent, printers[0])), mfile, None)
    else:
        chk.ok('C11.3', 'print')
    # ---- rule 4
    if cs['rejected_types'] and all(all(k == 'panic' for k, _ in cs['tables']['cart'][v]) for v in cs['rejected_types']):
        supported = sorted(v for lst in cs['cart_types'].values() for v in lst)
        if len(cs['rejected_types']) + len(supported) == 256:
            chk.ok('C11.4', 'unsupported-types', sample={'supported_type_bytes': supported,
                                                         'rejected': len(cs['rejected_types'])})
        else:
            chk.fail('C11.4', 'unsupported-types', 'some controller type bytes neither construct a controller nor diverge',
                     'src/cart.rs', None)
    else:
        chk.fail('C11.4', 'unsupported-types', 'create_cart_state does not diverge for unsupported types', 'src/cart.rs', None)
    chk.assumptions += ['debug/test profile semantics: arithmetic overflow asserts are present in MIR and count as aborts',
                        'compiler-inserted null / misalignment checks on references derived from &/&mut are listed as '
                        'skipped, not discharged',
                        'MemoryAreas::with_rom (16 KiB test constructor) is outside the quantifier "a loadable ROM file"',
                        'std::io::stdout().write / flush do not panic (they return Result)']
    # ---- rule 5: reads of the mapped ROM stay inside the file
    from ..report import borrow
    borrow(ctx, chk, 'C11.5', 'D', 'the ROM mapping is backed by the file: a file is accepted only if it is at least as long as the '
           'size its header declares (a bus read of a mapped but unbacked page kills the process with SIGBUS) - clause C19.5, '
           'evaluated here as well', 'c19', ['C19.5'], floor=1)
    return chk.finish('Abstract interpretation of memory_read_byte / memory_write_byte (devices and controller methods '
                      'inlined) with the address and value symbolic, once per (controller type, ROM bank count, RAM size) '
                      'that the header tables can produce (enumerated exhaustively from the code), buffer lengths fixed '
                      'per configuration, controller registers bounded by field invariants. Every assert / panicking '
                      'call on every path is an obligation.', exhaustive=True)


def collect(ip, helper, args, cfg, failures, seen, chk):
    st = ip.new_state()
    rs = ip.run(helper, list(args), st)
    ords = {}
    for r in rs:
        if r.status in ('abort', 'loop'):
            key = '%s:analysis:%s' % (helper, str(r.detail)[:60])
            seen[key] = r.where or (helper, None, 0)
            failures.setdefault(key, {'what': 'analysis of %s' % helper, 'how': 'path not analysable: %s' % (r.detail,),
                                      'configs': []})['configs'].append(cfg)
            continue
        for e in r.state.events:
            if e[0] == 'assert':
                site = e[2]
                kind = e[1]
                d = e[4]
                disc = ''
                if d and d[0] == 'bounds' and d[2] is not None and d[2][0] == 's' and d[2][3] and d[2][3][0] == 'len':
                    disc = bm.buffer_of(d[2][3][1])
                elif d and d[0] == 'bounds':
                    disc = 'array'
                elif d and d[0] == 'arith':
                    disc = ''
                key = '%s:%s:%s@bb%d' % (site[0], kind, disc, site[2])
                seen.setdefault(key, site)
                if e[3] in ('may_fail', 'fails'):
                    what = describe(e)
                    f = failures.setdefault(key, {'what': what, 'how': e[3].replace('_', ' '), 'configs': []})
                    if cfg not in f['configs']:
                        f['configs'].append(cfg)
            elif e[0] == 'panic':
                site = e[2]
                key = '%s:panic:%s@bb%d' % (site[0], e[1].split('::')[-1], site[2])
                seen.setdefault(key, site)
                f = failures.setdefault(key, {'what': 'call to %s' % e[1], 'how': 'reachable', 'configs': []})
                if cfg not in f['configs']:
                    f['configs'].append(cfg)


def describe(e):
    d = e[4]
    kind = e[1]
    site = e[2]
    if d and d[0] == 'bounds':
        return 'index %s < len %s in %s' % (fmt(d[1])[:120], fmt(d[2])[:60], site[0])
    if d and d[0] == 'arith':
        return '%s of %s and %s in %s' % (kind, fmt(d[1])[:80], fmt(d[2])[:40], site[0])
    return '%s in %s' % (kind, site[0])
