"""SM83 reference *value* semantics, written from the instruction set definition (x/y/z decomposition of the
opcode), independent of the repository's decoder and interpreter.

`execute(enc, M)` applies one instruction to a machine `M` whose registers are bit vectors (gbsa.bdd.BV).  The
machine supplies operand bytes, the bus (reads return fresh input symbols, writes are recorded) and decides branch
conditions under the current path condition.  Everything is expressed with BV operations only, so the result is
one canonical ROBDD vector per register bit.
"""
from .bdd import BV

R8 = ['B', 'C', 'D', 'E', 'H', 'L', '(HL)', 'A']
RP = ['BC', 'DE', 'HL', 'SP']
RP2 = ['BC', 'DE', 'HL', 'AF']
INVALID = (0xD3, 0xDB, 0xDD, 0xE3, 0xE4, 0xEB, 0xEC, 0xED, 0xF4, 0xFC, 0xFD)
PAIRS = {'BC': ('B', 'C'), 'DE': ('D', 'E'), 'HL': ('H', 'L'), 'AF': ('A', 'F')}


class Machine:
    """register file + bus + flags over BV.  Subclass / construct with callbacks."""

    def __init__(self, m, regs, d8, d16, read, decide, length):
        self.m = m
        self.r = dict(regs)            # 'A','F','B','C','D','E','H','L' (8 bits), 'SP','PC' (16 bits)
        self.d8 = d8
        self.d16 = d16
        self._read = read
        self._decide = decide
        self.writes = []
        self.length = length
        self.ime = None                # 'ei' | 'di' | 'reti' | None
        self.halt = None               # 'halt' | 'stop' | None
        self.taken = None

    # -- registers ---------------------------------------------------------------
    def c8(self, v):
        return BV.const(self.m, 8, v)

    def c16(self, v):
        return BV.const(self.m, 16, v)

    def pair(self, n):
        if n in ('SP', 'PC'):
            return self.r[n]
        h, l = PAIRS[n]
        return self.r[l].concat_high(self.r[h])

    def set_pair(self, n, v):
        if n in ('SP', 'PC'):
            self.r[n] = v
            return
        h, l = PAIRS[n]
        self.r[h] = v.bits(8, 16)
        self.r[l] = v.bits(0, 8)
        if n == 'AF':
            self.r['F'] = self.r['F'] & 0xf0

    def get8(self, n):
        if n == '(HL)':
            return self.read(self.pair('HL'))
        return self.r[n]

    def set8(self, n, v):
        if n == '(HL)':
            self.write(self.pair('HL'), v)
        else:
            self.r[n] = v

    # -- flags -----------------------------------------------------------------
    def flag(self, f):
        return self.r['F'].bit({'Z': 7, 'N': 6, 'H': 5, 'C': 4}[f])

    def set_flags(self, Z=None, N=None, H=None, C=None):
        b = list(self.r['F'].b)
        for bit, v in ((7, Z), (6, N), (5, H), (4, C)):
            if v is not None:
                b[bit] = v
        b[0] = b[1] = b[2] = b[3] = 0
        self.r['F'] = BV(self.m, b)

    # -- bus ---------------------------------------------------------------------
    def read(self, addr):
        return self._read(addr)

    def write(self, addr, v):
        self.writes.append((addr, v))

    def cond(self, cc):
        """decide a branch condition (BDD node) under the path condition"""
        m = self.m
        c = {'NZ': m.NOT(self.flag('Z')), 'Z': self.flag('Z'), 'NC': m.NOT(self.flag('C')), 'C': self.flag('C')}[cc]
        return self._decide(c)

    def push16(self, v):
        sp = self.r['SP']
        self.write(sp - 1, v.bits(8, 16))
        self.write(sp - 2, v.bits(0, 8))
        self.r['SP'] = sp - 2

    def pop16(self):
        sp = self.r['SP']
        lo = self.read(sp)
        hi = self.read(sp + 1)
        self.r['SP'] = sp + 2
        return lo.concat_high(hi)


def zero(m, v):
    return m.NOT(v.nonzero())


def alu(M, kind, v):
    m = M.m
    a = M.r['A']
    cf = M.flag('C')
    if kind in ('ADD', 'ADC'):
        cin = cf if kind == 'ADC' else 0
        r, cout, _ = a.add_c(v, cin)
        _, hc, _ = a.bits(0, 4).add_c(v.bits(0, 4), cin)
        M.r['A'] = r
        M.set_flags(Z=zero(m, r), N=0, H=hc, C=cout)
    elif kind in ('SUB', 'SBC', 'CP'):
        bin_ = cf if kind == 'SBC' else 0
        # a - v - bin = a + ~v + (1 - bin); borrow = not carry
        r, cout, _ = a.add_c(~v, m.NOT(bin_))
        _, hc, _ = a.bits(0, 4).add_c(~v.bits(0, 4), m.NOT(bin_))
        if kind != 'CP':
            M.r['A'] = r
        M.set_flags(Z=zero(m, r), N=1, H=m.NOT(hc), C=m.NOT(cout))
    elif kind == 'AND':
        r = a & v
        M.r['A'] = r
        M.set_flags(Z=zero(m, r), N=0, H=1, C=0)
    elif kind == 'XOR':
        r = a ^ v
        M.r['A'] = r
        M.set_flags(Z=zero(m, r), N=0, H=0, C=0)
    elif kind == 'OR':
        r = a | v
        M.r['A'] = r
        M.set_flags(Z=zero(m, r), N=0, H=0, C=0)


def rot(M, kind, v):
    """-> (result, carry out)"""
    m = M.m
    cf = M.flag('C')
    b = v.b
    if kind == 'RLC':
        return BV(m, [b[7]] + b[0:7]), b[7]
    if kind == 'RRC':
        return BV(m, b[1:8] + [b[0]]), b[0]
    if kind == 'RL':
        return BV(m, [cf] + b[0:7]), b[7]
    if kind == 'RR':
        return BV(m, b[1:8] + [cf]), b[0]
    if kind == 'SLA':
        return BV(m, [0] + b[0:7]), b[7]
    if kind == 'SRA':
        return BV(m, b[1:8] + [b[7]]), b[0]
    if kind == 'SWAP':
        return BV(m, b[4:8] + b[0:4]), 0
    if kind == 'SRL':
        return BV(m, b[1:8] + [0]), b[0]
    raise KeyError(kind)


def daa(M):
    m = M.m
    a = M.r['A']
    n, h, c = M.flag('N'), M.flag('H'), M.flag('C')
    # addition case
    hi_fix = m.OR(c, M.c8(0x99).ult(a))
    lo_fix = m.OR(h, M.c8(0x09).ult(a & 0x0f))
    add = a + BV.mux(m, hi_fix, M.c8(0x60), M.c8(0)) + BV.mux(m, lo_fix, M.c8(0x06), M.c8(0))
    # subtraction case
    sub = a - BV.mux(m, c, M.c8(0x60), M.c8(0)) - BV.mux(m, h, M.c8(0x06), M.c8(0))
    r = BV.mux(m, n, sub, add)
    cout = m.ite(n, c, hi_fix)
    M.r['A'] = r
    M.set_flags(Z=zero(m, r), H=0, C=cout)


def add_sp_e8(M):
    """-> SP + sign-extended d8 with flags Z=0 N=0, H/C from the unsigned low-byte addition"""
    m = M.m
    sp = M.r['SP']
    e = M.d8
    r = sp + e.sext(16)
    _, c7, _ = sp.bits(0, 8).add_c(e)
    _, c3, _ = sp.bits(0, 4).add_c(e.bits(0, 4))
    M.set_flags(Z=0, N=0, H=c3, C=c7)
    return r


def execute(enc, M):
    """apply encoding (prefix, opcode) to M; control-flow results go to M.r['PC']"""
    m = M.m
    pc = M.r['PC']
    nxt = pc + M.length
    M.r['PC'] = nxt
    if enc[0] == 0xcb:
        o = enc[1]
        x, y, z = o >> 6, (o >> 3) & 7, o & 7
        reg = R8[z]
        v = M.get8(reg)
        if x == 0:
            kind = ['RLC', 'RRC', 'RL', 'RR', 'SLA', 'SRA', 'SWAP', 'SRL'][y]
            r, c = rot(M, kind, v)
            M.set8(reg, r)
            M.set_flags(Z=zero(m, r), N=0, H=0, C=c)
        elif x == 1:
            M.set_flags(Z=m.NOT(v.bit(y)), N=0, H=1)
        elif x == 2:
            M.set8(reg, v & (0xff ^ (1 << y)))
        else:
            M.set8(reg, v | (1 << y))
        return
    o = enc[1]
    x, y, z = o >> 6, (o >> 3) & 7, o & 7
    p, q = y >> 1, y & 1
    if o in INVALID:
        raise KeyError('invalid opcode')
    if x == 0:
        if z == 0:
            if y == 0:
                return
            if y == 1:
                a = M.d16
                sp = M.r['SP']
                M.write(a, sp.bits(0, 8))
                M.write(a + 1, sp.bits(8, 16))
                return
            if y == 2:
                M.halt = 'stop'
                return
            taken = True if y == 3 else M.cond(['NZ', 'Z', 'NC', 'C'][y - 4])
            M.taken = taken
            if taken:
                M.r['PC'] = nxt + M.d8.sext(16)
            return
        if z == 1:
            if q == 0:
                M.set_pair(RP[p], M.d16)
                return
            hl = M.pair('HL')
            v = M.pair(RP[p])
            r, c15, _ = hl.add_c(v)
            _, c11, _ = hl.bits(0, 12).add_c(v.bits(0, 12))
            M.set_pair('HL', r)
            M.set_flags(N=0, H=c11, C=c15)
            return
        if z == 2:
            areg = ['BC', 'DE', 'HL', 'HL'][p]
            addr = M.pair(areg)
            if q == 0:
                M.write(addr, M.r['A'])
            else:
                M.r['A'] = M.read(addr)
            if p == 2:
                M.set_pair('HL', addr + 1)
            elif p == 3:
                M.set_pair('HL', addr - 1)
            return
        if z == 3:
            v = M.pair(RP[p])
            M.set_pair(RP[p], v + 1 if q == 0 else v - 1)
            return
        if z in (4, 5):
            reg = R8[y]
            v = M.get8(reg)
            if z == 4:
                r = v + 1
                M.set8(reg, r)
                M.set_flags(Z=zero(m, r), N=0, H=(v & 0x0f).eq(0x0f))
            else:
                r = v - 1
                M.set8(reg, r)
                M.set_flags(Z=zero(m, r), N=1, H=(v & 0x0f).eq(0x00))
            return
        if z == 6:
            M.set8(R8[y], M.d8)
            return
        # z == 7
        a = M.r['A']
        if y < 4:
            r, c = rot(M, ['RLC', 'RRC', 'RL', 'RR'][y], a)
            M.r['A'] = r
            M.set_flags(Z=0, N=0, H=0, C=c)
        elif y == 4:
            daa(M)
        elif y == 5:
            M.r['A'] = ~a
            M.set_flags(N=1, H=1)
        elif y == 6:
            M.set_flags(N=0, H=0, C=1)
        else:
            M.set_flags(N=0, H=0, C=m.NOT(M.flag('C')))
        return
    if x == 1:
        if o == 0x76:
            M.halt = 'halt'
            return
        M.set8(R8[y], M.get8(R8[z]))
        return
    if x == 2:
        alu(M, ['ADD', 'ADC', 'SUB', 'SBC', 'AND', 'XOR', 'OR', 'CP'][y], M.get8(R8[z]))
        return
    # x == 3
    if z == 0:
        if y < 4:
            taken = M.cond(['NZ', 'Z', 'NC', 'C'][y])
            M.taken = taken
            if taken:
                M.r['PC'] = M.pop16()
            return
        if y == 4:
            M.write(M.d8.zext(16) | 0xff00, M.r['A'])
            return
        if y == 5:
            M.r['SP'] = add_sp_e8(M)
            return
        if y == 6:
            M.r['A'] = M.read(M.d8.zext(16) | 0xff00)
            return
        M.set_pair('HL', add_sp_e8(M))
        return
    if z == 1:
        if q == 0:
            M.set_pair(RP2[p], M.pop16())
            return
        if p == 0:
            M.taken = True
            M.r['PC'] = M.pop16()
        elif p == 1:
            M.taken = True
            M.r['PC'] = M.pop16()
            M.ime = 'reti'
        elif p == 2:
            M.r['PC'] = M.pair('HL')
        else:
            M.r['SP'] = M.pair('HL')
        return
    if z == 2:
        if y < 4:
            taken = M.cond(['NZ', 'Z', 'NC', 'C'][y])
            M.taken = taken
            if taken:
                M.r['PC'] = M.d16
            return
        if y == 4:
            M.write(M.r['C'].zext(16) | 0xff00, M.r['A'])
        elif y == 5:
            M.write(M.d16, M.r['A'])
        elif y == 6:
            M.r['A'] = M.read(M.r['C'].zext(16) | 0xff00)
        else:
            M.r['A'] = M.read(M.d16)
        return
    if z == 3:
        if y == 0:
            M.taken = True
            M.r['PC'] = M.d16
        elif y == 6:
            M.ime = 'di'
        elif y == 7:
            M.ime = 'ei'
        return
    if z == 4:
        taken = M.cond(['NZ', 'Z', 'NC', 'C'][y])
        M.taken = taken
        if taken:
            M.push16(nxt)
            M.r['PC'] = M.d16
        return
    if z == 5:
        if q == 0:
            M.push16(M.pair(RP2[p]))
            return
        M.taken = True
        M.push16(nxt)
        M.r['PC'] = M.d16
        return
    if z == 6:
        alu(M, ['ADD', 'ADC', 'SUB', 'SBC', 'AND', 'XOR', 'OR', 'CP'][y], M.d8)
        return
    # z == 7: RST
    M.taken = True
    M.push16(nxt)
    M.r['PC'] = M.c16(y * 8)
