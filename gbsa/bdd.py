"""Bit-precise relational abstract domain: every bit of a value is a reduced ordered BDD over the input bits.

For loop-free bit-vector code (which is what one SM83 instruction is, in the interpreter, in the reference
semantics and in an emitted x86 template) the domain is exact, and the ROBDD is a canonical form: two terms
denote the same function of the inputs iff their bit vectors are identical node ids.  Equivalence is therefore
decided by construction + pointer comparison - there is no search and nothing is executed.

Variable order: bit-index major, symbol minor (bit i of every symbol before bit i+1 of any), which keeps adders,
comparators and carry chains linear in size.
"""
import sys

sys.setrecursionlimit(20000)


class Unsupported(Exception):
    def __init__(self, why):
        Exception.__init__(self, why)
        self.why = why


import os as _os
MSB_FIRST = _os.environ.get('GBSA_BDD_ORDER', 'msb') == 'msb'
MSB_FIRST_TOP = 255


class BDD:
    FALSE = 0
    TRUE = 1

    def __init__(self):
        self.node = [None, None]        # id -> (var, lo, hi)
        self.uniq = {}
        self.cache = {}
        self.names = {}                 # var -> (symbol, bit)
        self.rank = {}                  # symbol name -> rank
        self.limit = 3000000            # node budget: exceeding it is "undecided", never a verdict

    # -- variables ---------------------------------------------------------------
    def var_of(self, sym, bit):
        r = self.rank.get(sym)
        if r is None:
            r = len(self.rank)
            if r >= 256:
                raise Unsupported('too many symbols')
            self.rank[sym] = r
        v = (MSB_FIRST_TOP - bit) * 256 + r if MSB_FIRST else bit * 256 + r
        self.names[v] = (sym, bit)
        return self.mk(v, 0, 1)

    def mk(self, v, lo, hi):
        if lo == hi:
            return lo
        k = (v, lo, hi)
        n = self.uniq.get(k)
        if n is None:
            n = len(self.node)
            if n > self.limit:
                raise Unsupported('BDD node budget exceeded')
            self.node.append(k)
            self.uniq[k] = n
        return n

    def ite(self, f, g, h):
        if f == 1:
            return g
        if f == 0:
            return h
        if g == h:
            return g
        if g == 1 and h == 0:
            return f
        k = (f, g, h)
        r = self.cache.get(k)
        if r is not None:
            return r
        node = self.node
        vf = node[f][0]
        v = vf
        if g > 1 and node[g][0] < v:
            v = node[g][0]
        if h > 1 and node[h][0] < v:
            v = node[h][0]
        f0, f1 = (node[f][1], node[f][2]) if vf == v else (f, f)
        if g > 1 and node[g][0] == v:
            g0, g1 = node[g][1], node[g][2]
        else:
            g0 = g1 = g
        if h > 1 and node[h][0] == v:
            h0, h1 = node[h][1], node[h][2]
        else:
            h0 = h1 = h
        r = self.mk(v, self.ite(f0, g0, h0), self.ite(f1, g1, h1))
        self.cache[k] = r
        return r

    def NOT(self, a):
        return self.ite(a, 0, 1)

    def AND(self, a, b):
        return self.ite(a, b, 0)

    def OR(self, a, b):
        return self.ite(a, 1, b)

    def XOR(self, a, b):
        return self.ite(a, self.NOT(b), b)

    def IMPLIES(self, a, b):
        return self.ite(a, b, 1) == 1

    def exists(self, f, quantify):
        """existential quantification of every variable whose symbol name satisfies quantify(name)"""
        memo = {}
        node = self.node
        names = self.names

        def rec(n):
            if n <= 1:
                return n
            r = memo.get(n)
            if r is not None:
                return r
            v, lo, hi = node[n]
            a, b = rec(lo), rec(hi)
            r = self.OR(a, b) if quantify(names[v][0]) else self.ite(self.mk(v, 0, 1), b, a)
            memo[n] = r
            return r
        return rec(f)

    def sat_one(self, f):
        """one satisfying assignment {(sym, bit): 0/1} or None"""
        if f == 0:
            return None
        out = {}
        while f > 1:
            v, lo, hi = self.node[f]
            if lo != 0:
                out[self.names[v]] = 0
                f = lo
            else:
                out[self.names[v]] = 1
                f = hi
        return out

    def witness(self, f):
        """satisfying assignment grouped by symbol -> integer (unmentioned bits 0)"""
        a = self.sat_one(f)
        if a is None:
            return None
        vals = {}
        for (sym, bit), b in a.items():
            vals[sym] = vals.get(sym, 0) | (b << bit)
        return vals


class BV:
    """bit vector of BDD nodes, LSB first"""
    __slots__ = ('m', 'b')

    def __init__(self, m, bits):
        self.m = m
        self.b = list(bits)

    def __len__(self):
        return len(self.b)

    @staticmethod
    def const(m, width, v):
        return BV(m, [(v >> i) & 1 for i in range(width)])

    @staticmethod
    def sym(m, name, width, known0=0, known1=0):
        return BV(m, [0 if (known0 >> i) & 1 else (1 if (known1 >> i) & 1 else m.var_of(name, i)) for i in range(width)])

    def _coerce(self, o):
        if isinstance(o, int):
            return BV.const(self.m, len(self.b), o & ((1 << len(self.b)) - 1))
        if len(o.b) != len(self.b):
            raise Unsupported('width mismatch %d vs %d' % (len(self.b), len(o.b)))
        return o

    # -- bitwise ---------------------------------------------------------------
    def __and__(self, o):
        o = self._coerce(o)
        return BV(self.m, [self.m.AND(x, y) for x, y in zip(self.b, o.b)])

    def __or__(self, o):
        o = self._coerce(o)
        return BV(self.m, [self.m.OR(x, y) for x, y in zip(self.b, o.b)])

    def __xor__(self, o):
        o = self._coerce(o)
        return BV(self.m, [self.m.XOR(x, y) for x, y in zip(self.b, o.b)])

    def __invert__(self):
        return BV(self.m, [self.m.NOT(x) for x in self.b])

    # -- structure ---------------------------------------------------------------
    def zext(self, w):
        return BV(self.m, (self.b + [0] * w)[:w]) if w >= len(self.b) else self.trunc(w)

    def sext(self, w):
        return BV(self.m, (self.b + [self.b[-1]] * w)[:w])

    def trunc(self, w):
        return BV(self.m, self.b[:w])

    def bits(self, lo, hi):
        """bits lo..hi-1"""
        return BV(self.m, self.b[lo:hi])

    def bit(self, i):
        return self.b[i]

    def concat_high(self, hi):
        """self is the low part"""
        return BV(self.m, self.b + hi.b)

    def shl(self, n):
        w = len(self.b)
        return BV(self.m, ([0] * n + self.b)[:w])

    def shr(self, n):
        w = len(self.b)
        return BV(self.m, (self.b[n:] + [0] * w)[:w])

    def sar(self, n):
        w = len(self.b)
        return BV(self.m, (self.b[n:] + [self.b[-1]] * w)[:w])

    def shift_var(self, amt, kind):
        """shift by a symbolic amount (taken modulo the width, as rustc's unchecked shifts are after the range assert)"""
        w = len(self.b)
        cur = self
        k = 0
        while (1 << k) < w:
            sh = {'shl': cur.shl, 'shr': cur.shr, 'sar': cur.sar}[kind](1 << k)
            cur = BV.mux(self.m, amt.b[k] if k < len(amt.b) else 0, sh, cur)
            k += 1
        return cur

    # -- arithmetic ---------------------------------------------------------------
    def add_c(self, o, cin=0):
        """-> (sum, carry out, carry into the top bit)"""
        o = self._coerce(o)
        m = self.m
        out = []
        c = cin
        ctop = cin
        for i, (x, y) in enumerate(zip(self.b, o.b)):
            if i == len(self.b) - 1:
                ctop = c
            s = m.XOR(m.XOR(x, y), c)
            c = m.OR(m.AND(x, y), m.AND(c, m.XOR(x, y)))
            out.append(s)
        return BV(m, out), c, ctop

    def __add__(self, o):
        return self.add_c(o)[0]

    def __sub__(self, o):
        o = self._coerce(o)
        return self.add_c(~o, 1)[0]

    def neg(self):
        return (~self).add_c(BV.const(self.m, len(self.b), 0), 1)[0]

    def mul(self, o):
        o = self._coerce(o)
        w = len(self.b)
        acc = BV.const(self.m, w, 0)
        nz = [i for i, y in enumerate(o.b) if y != 0]
        if len(nz) > 10 and not all(y in (0, 1) for y in o.b) and not all(x in (0, 1) for x in self.b):
            raise Unsupported('general multiplication')
        for i in nz:
            part = self.shl(i)
            acc = acc + BV.mux(self.m, o.b[i], part, BV.const(self.m, w, 0))
        return acc

    def divmod_const(self, c):
        """unsigned division by a constant: restoring long division, MSB first"""
        m = self.m
        w = len(self.b)
        cw = max(c.bit_length() + 1, 2)
        r = BV.const(m, cw, 0)
        cc = BV.const(m, cw, c)
        q = [0] * w
        for i in range(w - 1, -1, -1):
            r = BV(m, [self.b[i]] + r.b[:-1])
            ge = m.NOT(r.ult(cc))
            r = BV.mux(m, ge, r - cc, r)
            q[i] = ge
        return BV(m, q), r.zext(w) if cw <= w else r.trunc(w)

    # -- predicates (BDD node results) ----------------------------------------------
    def eq(self, o):
        o = self._coerce(o)
        m = self.m
        r = 1
        for x, y in zip(self.b, o.b):
            r = m.AND(r, m.NOT(m.XOR(x, y)))
            if r == 0:
                break
        return r

    def ult(self, o):
        o = self._coerce(o)
        # borrow out of self - o
        return self.m.NOT(self.add_c(~o, 1)[1])

    def ule(self, o):
        o = self._coerce(o)
        return self.m.NOT(o.ult(self))

    def slt(self, o):
        o = self._coerce(o)
        m = self.m
        sa, sb = self.b[-1], o.b[-1]
        return m.ite(m.XOR(sa, sb), sa, self.ult(o))

    def nonzero(self):
        r = 0
        for x in self.b:
            r = self.m.OR(r, x)
        return r

    @staticmethod
    def mux(m, c, a, b):
        if isinstance(a, int):
            a = BV.const(m, len(b.b), a)
        if isinstance(b, int):
            b = BV.const(m, len(a.b), b)
        return BV(m, [m.ite(c, x, y) for x, y in zip(a.b, b.b)])

    @staticmethod
    def from_bit(m, c, width=1):
        return BV(m, [c] + [0] * (width - 1))

    def same(self, o):
        return self.b == o.b

    def diff(self, o):
        """BDD of inputs on which the two vectors differ"""
        m = self.m
        r = 0
        for x, y in zip(self.b, o.b):
            r = m.OR(r, m.XOR(x, y))
        return r

    def const_value(self):
        if all(x in (0, 1) for x in self.b):
            return sum(x << i for i, x in enumerate(self.b))
        return None


class TermBV:
    """terms (gbsa.terms) -> BV over one BDD manager; symbol facts give known-zero / known-one bits"""

    def __init__(self, m, sym_known=None, atoms=False):
        self.m = m
        self.memo = {}
        self.atoms = atoms
        self.atom_names = {}
        self.sym_known = sym_known or (lambda t: (0, 0))

    def __call__(self, t):
        r = self.memo.get(t)
        if r is None:
            try:
                r = self._conv(t)
            except Unsupported as e:
                # a sub-term outside the fragment (division by a variable, general product, ...) becomes an uninterpreted
                # atom: one fresh input per distinct term.  Equal terms get the same atom, so proofs of equality stay
                # sound; anything *refuted* with the help of an atom is reported as undecided by the callers
                if not self.atoms or t[0] != 'o' or not t[1] or e.why == 'BDD node budget exceeded':
                    raise
                n = self.atom_names.setdefault(t, 'atom:%d' % len(self.atom_names))
                r = BV.sym(self.m, n, t[1])
            self.memo[t] = r
        return r

    def _conv(self, t):
        m = self.m
        k = t[0]
        if k == 'c':
            return BV.const(m, max(t[1], 1), t[2])
        if k == 's':
            if not t[1]:
                raise Unsupported('non-integer symbol %s' % (t[2],))
            k0, k1 = self.sym_known(t)
            return BV.sym(m, t[2], t[1], k0, k1)
        if k != 'o':
            raise Unsupported('non-integer value %s' % (k,))
        bits, op = t[1], t[2]
        args = t[3:]
        if op == 'zext':
            return self(args[0]).zext(bits)
        if op == 'sext':
            return self(args[0]).sext(bits)
        if op == 'trunc':
            return self(args[0]).trunc(bits)
        if op == 'not':
            return ~self(args[0])
        if op == 'neg':
            return self(args[0]).neg()
        a = self(args[0])
        b = self(args[1]) if len(args) > 1 else None
        if op == 'add':
            return a + b
        if op == 'sub':
            return a - b
        if op == 'mul':
            return a.mul(b)
        if op == 'and':
            return a & b
        if op == 'or':
            return a | b
        if op == 'xor':
            return a ^ b
        if op in ('shl', 'shr', 'sar'):
            w = len(a)
            c = b.const_value()
            if c is not None:
                return {'shl': a.shl, 'shr': a.shr, 'sar': a.sar}[op](c % w)
            return a.shift_var(b, op)
        one = lambda c: BV.from_bit(m, c, max(bits, 1))
        if op == 'eq':
            return one(a.eq(b))
        if op == 'ne':
            return one(m.NOT(a.eq(b)))
        if op == 'ult':
            return one(a.ult(b))
        if op == 'ule':
            return one(a.ule(b))
        if op == 'ugt':
            return one(b.ult(a))
        if op == 'uge':
            return one(b.ule(a))
        if op == 'slt':
            return one(a.slt(b))
        if op == 'sgt':
            return one(b.slt(a))
        if op == 'sle':
            return one(m.NOT(b.slt(a)))
        if op == 'sge':
            return one(m.NOT(a.slt(b)))
        if op == 'add_ovf':
            return one(a.add_c(b)[1])
        if op == 'sub_ovf':
            return one(a.ult(b))
        if op == 'sadd_ovf':
            s, c, ctop = a.add_c(b)
            return one(m.XOR(c, ctop))
        if op == 'ssub_ovf':
            s, c, ctop = a.add_c(~b, 1)
            return one(m.XOR(c, ctop))
        if op == 'mul_ovf':
            w = len(a)
            wide = a.zext(2 * w).mul(b.zext(2 * w))
            return one(wide.bits(w, 2 * w).nonzero())
        if op == 'umin':
            return BV.mux(m, a.ult(b), a, b)
        if op == 'umax':
            return BV.mux(m, a.ult(b), b, a)
        if op in ('udiv', 'urem'):
            c = b.const_value()
            if c and c & (c - 1) == 0:
                n = c.bit_length() - 1
                return a.shr(n) if op == 'udiv' else (a & (c - 1))
            if c:
                q, r = a.divmod_const(c)
                return q if op == 'udiv' else r
            raise Unsupported('division by a non-constant')
        raise Unsupported('operation %s' % op)
