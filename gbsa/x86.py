"""x86-64 subset: decoder for the byte strings the emitter produces (immediate bytes may be symbolic terms) and an
abstract executor over the bit-precise relational domain of gbsa.bdd.

The executor is an abstract interpreter for straight-line machine code with forward branches: registers are 64-bit
BV vectors, the six arithmetic flags are BDD nodes, the host stack is a list of 64-bit slots relative to its entry
depth.  Architecturally *undefined* results (flags after shifts, AF after logic ops, caller-saved registers and flags
after a call, the upper bits of a byte returned in AL) are fresh input symbols, so nothing can be proved from them.
Anything outside the subset raises Unsupported (never a verdict).
"""
from .bdd import BV, Unsupported

REG64 = ['rax', 'rcx', 'rdx', 'rbx', 'rsp', 'rbp', 'rsi', 'rdi', 'r8', 'r9', 'r10', 'r11', 'r12', 'r13', 'r14', 'r15']
ALU = ['add', 'or', 'adc', 'sbb', 'and', 'sub', 'xor', 'cmp']
SHIFT = ['rol', 'ror', 'rcl', 'rcr', 'shl', 'shr', 'sal', 'sar']
CC = ['o', 'no', 'b', 'ae', 'e', 'ne', 'be', 'a', 's', 'ns', 'p', 'np', 'l', 'ge', 'le', 'g']
CALLER_SAVED = (0, 1, 2, 6, 7, 8, 9, 10, 11)


class Insn:
    __slots__ = ('off', 'length', 'mn', 'size', 'dst', 'src', 'aux')

    def __init__(self, off, mn, size=0, dst=None, src=None, aux=None):
        self.off = off
        self.length = 0
        self.mn = mn
        self.size = size
        self.dst = dst
        self.src = src
        self.aux = aux

    def __repr__(self):
        def o(x):
            if x is None:
                return ''
            if x[0] == 'r':
                return regname(x[1], x[2], x[3])
            if x[0] == 'i':
                return 'imm'
            return '[%s%+d]' % (REG64[x[1]], x[2])
        return '%04x %s%s %s%s%s' % (self.off, self.mn, self.size or '', o(self.dst), ',' if self.src else '', o(self.src))


def regname(n, size, high):
    if size == 8:
        if high:
            return ['ah', 'ch', 'dh', 'bh'][n - 4] if n >= 4 else '?'
        return (['al', 'cl', 'dl', 'bl', 'spl', 'bpl', 'sil', 'dil'] + ['r%db' % i for i in range(8, 16)])[n]
    if size == 64:
        return REG64[n]
    base = REG64[n]
    if n >= 8:
        return base + ('d' if size == 32 else 'w')
    return ('e' if size == 32 else '') + base[1:]


class Decoder:
    def __init__(self, code):
        """code: list of ints or symbolic byte terms (None = never written)"""
        self.code = code

    def byte(self, i):
        if i >= len(self.code) or self.code[i] is None:
            raise Unsupported('code byte %d not written' % i)
        b = self.code[i]
        if isinstance(b, int):
            return b
        if b[0] == 'c':
            return b[2]
        raise Unsupported('symbolic byte at offset %d where an opcode / modrm byte is expected' % i)

    def imm(self, i, n):
        """n raw bytes (ints or terms) starting at i"""
        out = []
        for k in range(n):
            if i + k >= len(self.code) or self.code[i + k] is None:
                raise Unsupported('immediate byte %d not written' % (i + k))
            b = self.code[i + k]
            out.append(b[2] if (not isinstance(b, int) and b[0] == 'c') else b)
        return ('i', out)

    def simm(self, i, n):
        v = 0
        for k in range(n):
            v |= self.byte(i + k) << (8 * k)
        if v >> (8 * n - 1):
            v -= 1 << (8 * n)
        return v

    def modrm(self, i, rex, size, bytereg=False):
        """-> (reg field number incl. REX.R, operand for r/m, next offset)"""
        m = self.byte(i)
        mod, reg, rm = m >> 6, (m >> 3) & 7, m & 7
        reg |= (rex & 4) << 1
        i += 1
        if mod == 3:
            n = rm | ((rex & 1) << 3)
            return reg, self.regop(n, size, rex), i
        if rm == 4:
            sib = self.byte(i)
            i += 1
            if sib != 0x24:
                raise Unsupported('SIB byte %#x' % sib)
            base = 4
        else:
            base = rm | ((rex & 1) << 3)
            if mod == 0 and rm == 5:
                raise Unsupported('rip-relative addressing')
        disp = 0
        if mod == 1:
            disp = self.simm(i, 1)
            i += 1
        elif mod == 2:
            disp = self.simm(i, 4)
            i += 4
        return reg, ('m', base, disp, size), i

    @staticmethod
    def regop(n, size, rex):
        if size == 8 and not rex and 4 <= n <= 7:
            return ('r', n - 4, 8, True)          # ah ch dh bh  (register number of the full register)
        return ('r', n, size, False)

    def decode(self, off):
        i = off
        opsize16 = False
        rex = 0
        while True:
            b = self.byte(i)
            if b == 0x66:
                opsize16 = True
                i += 1
            elif 0x40 <= b <= 0x4f:
                rex = b
                i += 1
                break
            else:
                break
        b = self.byte(i)
        i += 1
        w = bool(rex & 8)
        vsize = 64 if w else (16 if opsize16 else 32)
        ins = None
        if b < 0x40 and (b & 7) < 6:
            mn = ALU[b >> 3]
            form = b & 7
            if form in (0, 1, 2, 3):
                size = 8 if form in (0, 2) else vsize
                reg, rmop, i = self.modrm(i, rex, size)
                r = self.regop(reg, size, rex)
                ins = Insn(off, mn, size, rmop, r) if form in (0, 1) else Insn(off, mn, size, r, rmop)
            elif form == 4:
                ins = Insn(off, mn, 8, ('r', 0, 8, False), self.imm(i, 1))
                i += 1
            else:
                n = 2 if vsize == 16 else 4
                ins = Insn(off, mn, vsize, ('r', 0, vsize, False), self.imm(i, n), aux='sx' if vsize == 64 else None)
                i += n
        elif 0x50 <= b <= 0x57:
            ins = Insn(off, 'push', 64, None, ('r', (b & 7) | ((rex & 1) << 3), 64, False))
        elif 0x58 <= b <= 0x5f:
            ins = Insn(off, 'pop', 64, ('r', (b & 7) | ((rex & 1) << 3), 64, False))
        elif 0x70 <= b <= 0x7f:
            ins = Insn(off, 'jcc', 0, aux=(CC[b & 15], self.simm(i, 1)))
            i += 1
        elif b == 0xeb:
            ins = Insn(off, 'jmp', 0, aux=self.simm(i, 1))
            i += 1
        elif b == 0xe9:
            ins = Insn(off, 'jmp', 0, aux=self.simm(i, 4))
            i += 4
        elif b in (0x80, 0x81, 0x83):
            size = 8 if b == 0x80 else vsize
            reg, rmop, i = self.modrm(i, rex, size)
            n = 1 if b in (0x80, 0x83) else (2 if size == 16 else 4)
            ins = Insn(off, ALU[reg & 7], size, rmop, self.imm(i, n), aux='sx' if n * 8 < size else None)
            i += n
        elif b in (0x84, 0x85):
            size = 8 if b == 0x84 else vsize
            reg, rmop, i = self.modrm(i, rex, size)
            ins = Insn(off, 'test', size, rmop, self.regop(reg, size, rex))
        elif b in (0x86, 0x87):
            size = 8 if b == 0x86 else vsize
            reg, rmop, i = self.modrm(i, rex, size)
            ins = Insn(off, 'xchg', size, rmop, self.regop(reg, size, rex))
        elif b in (0x88, 0x89, 0x8a, 0x8b):
            size = 8 if b in (0x88, 0x8a) else vsize
            reg, rmop, i = self.modrm(i, rex, size)
            r = self.regop(reg, size, rex)
            ins = Insn(off, 'mov', size, rmop, r) if b in (0x88, 0x89) else Insn(off, 'mov', size, r, rmop)
        elif b == 0x90:
            ins = Insn(off, 'nop')
        elif b == 0x9c:
            ins = Insn(off, 'pushf', 64)
        elif b == 0x9d:
            ins = Insn(off, 'popf', 64)
        elif b == 0x9e:
            ins = Insn(off, 'sahf')
        elif b == 0x9f:
            ins = Insn(off, 'lahf')
        elif b == 0xa8:
            ins = Insn(off, 'test', 8, ('r', 0, 8, False), self.imm(i, 1))
            i += 1
        elif b == 0xa9:
            n = 2 if vsize == 16 else 4
            ins = Insn(off, 'test', vsize, ('r', 0, vsize, False), self.imm(i, n), aux='sx' if vsize == 64 else None)
            i += n
        elif 0xb0 <= b <= 0xb7:
            ins = Insn(off, 'mov', 8, self.regop((b & 7) | ((rex & 1) << 3), 8, rex), self.imm(i, 1))
            i += 1
        elif 0xb8 <= b <= 0xbf:
            n = 8 if w else (2 if opsize16 else 4)
            ins = Insn(off, 'mov', vsize, ('r', (b & 7) | ((rex & 1) << 3), vsize, False), self.imm(i, n))
            i += n
        elif b in (0xc0, 0xc1, 0xd0, 0xd1, 0xd2, 0xd3):
            size = 8 if b in (0xc0, 0xd0, 0xd2) else vsize
            reg, rmop, i = self.modrm(i, rex, size)
            if b in (0xc0, 0xc1):
                cnt = self.imm(i, 1)
                i += 1
            elif b in (0xd0, 0xd1):
                cnt = ('i', [1])
            else:
                cnt = ('r', 1, 8, False)
            ins = Insn(off, SHIFT[reg & 7], size, rmop, cnt)
        elif b == 0xc3:
            ins = Insn(off, 'ret')
        elif b in (0xc6, 0xc7):
            size = 8 if b == 0xc6 else vsize
            reg, rmop, i = self.modrm(i, rex, size)
            if reg & 7:
                raise Unsupported('opcode %#x /%d' % (b, reg & 7))
            n = 1 if size == 8 else (2 if size == 16 else 4)
            ins = Insn(off, 'mov', size, rmop, self.imm(i, n), aux='sx' if size == 64 else None)
            i += n
        elif b == 0xf5:
            ins = Insn(off, 'cmc')
        elif b == 0xf8:
            ins = Insn(off, 'clc')
        elif b == 0xf9:
            ins = Insn(off, 'stc')
        elif b in (0xf6, 0xf7):
            size = 8 if b == 0xf6 else vsize
            reg, rmop, i = self.modrm(i, rex, size)
            sub = reg & 7
            if sub in (0, 1):
                n = 1 if size == 8 else (2 if size == 16 else 4)
                ins = Insn(off, 'test', size, rmop, self.imm(i, n), aux='sx' if size == 64 else None)
                i += n
            elif sub == 2:
                ins = Insn(off, 'not', size, rmop)
            elif sub == 3:
                ins = Insn(off, 'neg', size, rmop)
            else:
                raise Unsupported('mul/div group')
        elif b in (0xfe, 0xff):
            size = 8 if b == 0xfe else vsize
            m = self.byte(i)
            sub = (m >> 3) & 7
            if sub in (0, 1):
                reg, rmop, i = self.modrm(i, rex, size)
                ins = Insn(off, 'inc' if sub == 0 else 'dec', size, rmop)
            elif b == 0xff and sub in (2, 4, 6):
                reg, rmop, i = self.modrm(i, rex, 64)
                ins = Insn(off, {2: 'call', 4: 'jmpr', 6: 'push'}[sub], 64, None, rmop)
            else:
                raise Unsupported('opcode %#x /%d' % (b, sub))
        elif b == 0x0f:
            b2 = self.byte(i)
            i += 1
            if 0x90 <= b2 <= 0x9f:
                reg, rmop, i = self.modrm(i, rex, 8)
                ins = Insn(off, 'setcc', 8, rmop, aux=CC[b2 & 15])
            elif 0x80 <= b2 <= 0x8f:
                ins = Insn(off, 'jcc', 0, aux=(CC[b2 & 15], self.simm(i, 4)))
                i += 4
            elif 0x40 <= b2 <= 0x4f:
                reg, rmop, i = self.modrm(i, rex, vsize)
                ins = Insn(off, 'cmov', vsize, self.regop(reg, vsize, rex), rmop, aux=CC[b2 & 15])
            elif b2 in (0xb6, 0xb7, 0xbe, 0xbf):
                ssize = 8 if b2 in (0xb6, 0xbe) else 16
                reg, rmop, i = self.modrm(i, rex, ssize)
                ins = Insn(off, 'movzx' if b2 in (0xb6, 0xb7) else 'movsx', vsize, self.regop(reg, vsize, rex), rmop)
            elif b2 == 0xba:
                reg, rmop, i = self.modrm(i, rex, vsize)
                sub = reg & 7
                if sub < 4:
                    raise Unsupported('0f ba /%d' % sub)
                ins = Insn(off, ['bt', 'bts', 'btr', 'btc'][sub - 4], vsize, rmop, self.imm(i, 1))
                i += 1
            elif b2 == 0xa3:
                reg, rmop, i = self.modrm(i, rex, vsize)
                ins = Insn(off, 'bt', vsize, rmop, self.regop(reg, vsize, rex))
            elif 0xc8 <= b2 <= 0xcf:
                ins = Insn(off, 'bswap', vsize, ('r', (b2 & 7) | ((rex & 1) << 3), vsize, False))
            else:
                raise Unsupported('opcode 0f %02x at offset %d' % (b2, off))
        else:
            raise Unsupported('opcode %02x at offset %d' % (b, off))
        ins.length = i - off
        return ins


class Split(Exception):
    def __init__(self, c):
        Exception.__init__(self, 'split')
        self.c = c


class Machine:
    """abstract x86-64 state over BV.  `hooks` supplies: conv(term)->BV for symbolic bytes, decide(bdd)->bool,
    call(machine, target BV64) for `call reg`."""

    def __init__(self, m, hooks):
        self.m = m
        self.h = hooks
        self.n = 0
        self.r = [self.garbage(64, 'entry:' + REG64[i]) for i in range(16)]
        self.flags = {f: self.garbage(1, 'entry:' + f).b[0] for f in 'cpazso'}
        self.stack = []
        self.errors = []
        self.trace = []
        self.exit = None

    def garbage(self, width, why):
        self.n += 1
        return BV.sym(self.m, 'undef:%s#%d' % (why, self.n), width)

    # -- operands ------------------------------------------------------------------
    def immv(self, op, size, sx):
        raw = op[1]
        parts = []
        for b in raw:
            parts.append(BV.const(self.m, 8, b) if isinstance(b, int) else self.h['conv'](b).trunc(8))
        v = parts[0]
        for p in parts[1:]:
            v = v.concat_high(p)
        if len(v) < size:
            v = v.sext(size) if sx else v.zext(size)
        return v.trunc(size)

    def slot(self, op):
        """stack slot index (from the top) and byte offset for [rsp+disp]"""
        if op[1] != 4:
            raise Unsupported('memory operand based on %s' % REG64[op[1]])
        d = op[2]
        if d < 0:
            raise Unsupported('access below the stack pointer')
        k = d // 8
        if k >= len(self.stack):
            self.errors.append('stack access [rsp+%d] reaches above the entry stack depth' % d)
            raise Unsupported('stack access above the entry depth')
        return len(self.stack) - 1 - k, d % 8

    def get(self, op, size=None, sx=False):
        if op[0] == 'r':
            v = self.r[op[1]]
            if op[2] == 8 and op[3]:
                return v.bits(8, 16)
            return v.trunc(op[2])
        if op[0] == 'i':
            return self.immv(op, size, sx)
        if op[1] != 4 and 'load' in self.h:
            return self.h['load'](self, self.r[op[1]], op[2], op[3])
        idx, bo = self.slot(op)
        sz = op[3]
        if bo * 8 + sz > 64:
            raise Unsupported('stack access straddles two slots')
        return self.stack[idx].bits(bo * 8, bo * 8 + sz)

    def put(self, op, v):
        if op[0] == 'r':
            if op[1] == 4:
                raise Unsupported('write to the host stack pointer')
            old = self.r[op[1]]
            sz = op[2]
            if sz == 64:
                self.r[op[1]] = v
            elif sz == 32:
                self.r[op[1]] = v.zext(64)
            elif sz == 16:
                self.r[op[1]] = BV(self.m, v.b + old.b[16:])
            elif op[3]:
                self.r[op[1]] = BV(self.m, old.b[:8] + v.b + old.b[16:])
            else:
                self.r[op[1]] = BV(self.m, v.b + old.b[8:])
            return
        if op[1] != 4 and 'store' in self.h:
            self.h['store'](self, self.r[op[1]], op[2], op[3], v)
            return
        idx, bo = self.slot(op)
        sz = op[3]
        if bo * 8 + sz > 64:
            raise Unsupported('stack access straddles two slots')
        old = self.stack[idx]
        self.stack[idx] = BV(self.m, old.b[:bo * 8] + v.b + old.b[bo * 8 + sz:])

    # -- flags -------------------------------------------------------------------
    def set_szp(self, r):
        m = self.m
        self.flags['z'] = m.NOT(r.nonzero())
        self.flags['s'] = r.b[-1]
        p = 1
        for x in r.b[:8]:
            p = m.XOR(p, x)
        self.flags['p'] = p

    def undef(self, *fl):
        for f in fl:
            self.flags[f] = self.garbage(1, 'flag-' + f).b[0]

    def cond(self, cc):
        m = self.m
        f = self.flags
        base = {'o': f['o'], 'b': f['c'], 'e': f['z'], 'be': m.OR(f['c'], f['z']), 's': f['s'], 'p': f['p'],
                'l': m.XOR(f['s'], f['o']), 'le': m.OR(f['z'], m.XOR(f['s'], f['o']))}
        neg = {'no': 'o', 'ae': 'b', 'ne': 'e', 'a': 'be', 'ns': 's', 'np': 'p', 'ge': 'l', 'g': 'le'}
        if cc in base:
            return base[cc]
        return m.NOT(base[neg[cc]])

    def flags_word(self):
        f = self.flags
        g = self.garbage(64, 'rflags')
        b = list(g.b)
        b[0], b[1], b[2], b[3], b[4], b[5], b[6], b[7], b[11] = f['c'], 1, f['p'], 0, f['a'], 0, f['z'], f['s'], f['o']
        return BV(self.m, b)

    # -- execution ----------------------------------------------------------------
    def arith(self, mn, a, b):
        m = self.m
        f = self.flags
        if mn in ('add', 'adc'):
            cin = f['c'] if mn == 'adc' else 0
            r, c, ct = a.add_c(b, cin)
            _, ac, _ = a.bits(0, 4).add_c(b.bits(0, 4), cin)
            f['c'], f['o'], f['a'] = c, m.XOR(c, ct), ac
        elif mn in ('sub', 'sbb', 'cmp'):
            bin_ = f['c'] if mn == 'sbb' else 0
            r, c, ct = a.add_c(~b, m.NOT(bin_))
            _, ac, _ = a.bits(0, 4).add_c(~b.bits(0, 4), m.NOT(bin_))
            f['c'], f['o'], f['a'] = m.NOT(c), m.XOR(c, ct), m.NOT(ac)
        else:
            r = {'and': a & b, 'or': a | b, 'xor': a ^ b, 'test': a & b}[mn]
            f['c'], f['o'] = 0, 0
            self.undef('a')
        self.set_szp(r)
        return r

    def shift(self, mn, a, cnt):
        """cnt: python int (already masked).  flags per the SDM; undefined ones become garbage"""
        m = self.m
        f = self.flags
        w = len(a)
        if cnt == 0:
            return a
        b = a.b
        if mn in ('shl', 'sal'):
            r = a.shl(cnt) if cnt < w else BV.const(m, w, 0)
            c = b[w - cnt] if cnt <= w else 0
            f['c'] = c
            if cnt == 1:
                f['o'] = m.XOR(r.b[-1], c)
            else:
                self.undef('o')
            self.undef('a')
            self.set_szp(r)
        elif mn == 'shr':
            r = a.shr(cnt) if cnt < w else BV.const(m, w, 0)
            f['c'] = b[cnt - 1] if cnt <= w else 0
            if cnt == 1:
                f['o'] = b[-1]
            else:
                self.undef('o')
            self.undef('a')
            self.set_szp(r)
        elif mn == 'sar':
            r = a.sar(min(cnt, w - 1))
            f['c'] = b[min(cnt, w) - 1] if cnt <= w else b[-1]
            if cnt == 1:
                f['o'] = 0
            else:
                self.undef('o')
            self.undef('a')
            self.set_szp(r)
        elif mn == 'rol':
            k = cnt % w
            r = BV(m, b[w - k:] + b[:w - k]) if k else a
            f['c'] = r.b[0]
            if cnt == 1:
                f['o'] = m.XOR(r.b[-1], r.b[0])
            else:
                self.undef('o')
        elif mn == 'ror':
            k = cnt % w
            r = BV(m, b[k:] + b[:k]) if k else a
            f['c'] = r.b[-1]
            if cnt == 1:
                f['o'] = m.XOR(r.b[-1], r.b[-2])
            else:
                self.undef('o')
        elif mn in ('rcl', 'rcr'):
            k = cnt % (w + 1)
            ext = b + [f['c']]                       # w+1 bit value, carry on top
            if mn == 'rcl':
                ext = ext[w + 1 - k:] + ext[:w + 1 - k] if k else ext
            else:
                ext = ext[k:] + ext[:k] if k else ext
            r = BV(m, ext[:w])
            f['c'] = ext[w]
            if cnt == 1:
                f['o'] = m.XOR(r.b[-1], f['c']) if mn == 'rcl' else m.XOR(r.b[-1], r.b[-2])
            else:
                self.undef('o')
        else:
            raise Unsupported('shift ' + mn)
        return r

    def run(self, code, limit=400):
        dec = Decoder(code)
        off = 0
        end = len(code)
        steps = 0
        while off != end:
            if off > end or off < 0:
                self.errors.append('control leaves the instruction code (offset %d, code is %d bytes)' % (off, end))
                return
            steps += 1
            if steps > limit:
                raise Unsupported('too many steps (backward branch?)')
            ins = dec.decode(off)
            self.trace.append(ins)
            nxt = off + ins.length
            if ins.mn in ('ret', 'jmpr'):
                # leaves this code string: the caller inspects the state (jump target / return)
                self.exit = (ins.mn, self.get(ins.src) if ins.mn == 'jmpr' else None, nxt == end)
                return
            off = self.step(ins, nxt)

    def step(self, ins, nxt):
        m = self.m
        mn = ins.mn
        f = self.flags
        if mn in ALU:
            a = self.get(ins.dst)
            b = self.get(ins.src, ins.size, ins.aux == 'sx' or ins.src[0] == 'i')
            r = self.arith(mn, a, b)
            if mn != 'cmp':
                self.put(ins.dst, r)
        elif mn == 'test':
            self.arith('test', self.get(ins.dst), self.get(ins.src, ins.size, True))
        elif mn == 'mov':
            self.put(ins.dst, self.get(ins.src, ins.size, ins.aux == 'sx'))
        elif mn in ('movzx', 'movsx'):
            v = self.get(ins.src)
            self.put(ins.dst, v.zext(ins.size) if mn == 'movzx' else v.sext(ins.size))
        elif mn == 'xchg':
            a, b = self.get(ins.dst), self.get(ins.src)
            self.put(ins.dst, b)
            self.put(ins.src, a)
        elif mn == 'push':
            self.stack.append(self.get(ins.src))
        elif mn == 'pop':
            if not self.stack:
                self.errors.append('pop at offset %d with nothing pushed by this instruction' % ins.off)
                raise Unsupported('pop below the entry stack depth')
            self.put(ins.dst, self.stack.pop())
        elif mn == 'pushf':
            self.stack.append(self.flags_word())
        elif mn == 'popf':
            if not self.stack:
                raise Unsupported('popf below the entry stack depth')
            v = self.stack.pop()
            f['c'], f['p'], f['a'], f['z'], f['s'], f['o'] = v.b[0], v.b[2], v.b[4], v.b[6], v.b[7], v.b[11]
        elif mn == 'sahf':
            ah = self.r[0].bits(8, 16)
            f['c'], f['p'], f['a'], f['z'], f['s'] = ah.b[0], ah.b[2], ah.b[4], ah.b[6], ah.b[7]
        elif mn == 'lahf':
            v = BV(m, [f['c'], 1, f['p'], 0, f['a'], 0, f['z'], f['s']])
            self.put(('r', 0, 8, True), v)
        elif mn in ('inc', 'dec'):
            a = self.get(ins.dst)
            c = f['c']
            r = self.arith('add' if mn == 'inc' else 'sub', a, BV.const(m, len(a), 1))
            f['c'] = c
            self.put(ins.dst, r)
        elif mn == 'not':
            self.put(ins.dst, ~self.get(ins.dst))
        elif mn == 'neg':
            a = self.get(ins.dst)
            r = self.arith('sub', BV.const(m, len(a), 0), a)
            self.put(ins.dst, r)
        elif mn in SHIFT:
            a = self.get(ins.dst)
            cv = self.get(ins.src, 8)
            c = cv.const_value()
            if c is None:
                raise Unsupported('shift by a non-constant count')
            c &= 63 if ins.size == 64 else 31
            self.put(ins.dst, self.shift(mn, a, c))
        elif mn in ('bt', 'bts', 'btr', 'btc'):
            a = self.get(ins.dst)
            iv = self.get(ins.src, 8)
            c = iv.const_value()
            if c is None or ins.dst[0] != 'r':
                raise Unsupported('bt with a non-constant bit index')
            c %= ins.size
            f['c'] = a.b[c]
            self.undef('o', 's', 'a', 'p')
            if mn != 'bt':
                b = list(a.b)
                b[c] = {'bts': 1, 'btr': 0, 'btc': m.NOT(a.b[c])}[mn]
                self.put(ins.dst, BV(m, b))
        elif mn == 'setcc':
            self.put(ins.dst, BV.from_bit(m, self.cond(ins.aux), 8))
        elif mn == 'cmov':
            c = self.cond(ins.aux)
            self.put(ins.dst, BV.mux(m, c, self.get(ins.src), self.get(ins.dst)))
        elif mn == 'bswap':
            a = self.get(ins.dst)
            n = len(a) // 8
            out = []
            for k in range(n - 1, -1, -1):
                out += a.b[8 * k:8 * k + 8]
            self.put(ins.dst, BV(m, out))
        elif mn == 'cmc':
            f['c'] = m.NOT(f['c'])
        elif mn == 'clc':
            f['c'] = 0
        elif mn == 'stc':
            f['c'] = 1
        elif mn == 'nop':
            pass
        elif mn == 'jmp':
            return nxt + ins.aux
        elif mn == 'jcc':
            cc, rel = ins.aux
            c = self.cond(cc)
            if self.h['decide'](c):
                return nxt + rel
        elif mn == 'call':
            tgt = self.get(ins.src)
            self.h['call'](self, tgt, ins)
            for rn in CALLER_SAVED:
                if rn == 0:
                    continue
                self.r[rn] = self.garbage(64, 'clobbered:' + REG64[rn])
            self.undef('c', 'p', 'a', 'z', 's', 'o')
        else:
            raise Unsupported('instruction %s in emitted code' % mn)
        return nxt
