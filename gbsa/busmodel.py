"""Address-space partition realised by the bus helpers, extracted by path-sensitive abstract interpretation
with the address symbolic: every path gives an address set (interval from the path condition, plus excluded
points) and a handler (buffer + index term / constant / device call / cartridge call / ignore)."""
from . import absint, terms as T
from .terms import C, S, O, AV, fmt
from .invariants import FieldInvariants

RD = 'mem::memory_read_byte'
WR = 'mem::memory_write_byte'
FETCH = 'mem::get_executable_memory_slice'
ADDR = S(16, 'addr')
VALUE = S(8, 'value')

CART_TYPES = ['cart::NullCartState', 'cart::MBC1CartState', 'cart::MBC3CartState']


def buffer_of(objname):
    """'*areas.rom.0.pointer' -> 'rom'"""
    parts = objname.split('.')
    for i, p in enumerate(parts):
        if p in ('rom', 'video_ram', 'cart_ram', 'work_ram', 'oam_ram', 'high_ram'):
            return p
    return objname


class BusModel:
    def __init__(self, facts, cart_type=None, inline_devices=False):
        self.facts = facts
        self.inv = FieldInvariants(facts)
        for o, f in (('mem::MemoryAreas', 'vram_bank'), ('mem::MemoryAreas', 'wram_bank'),
                     ('cart::MBC1CartState', 'rom_bank'), ('cart::MBC1CartState', 'ram_bank'),
                     ('cart::MBC3CartState', 'rom_bank'), ('cart::MBC3CartState', 'ram_bank'),
                     ('devices::io::IO', 'interrupt_mask')):
            self.inv.track(o, f)
        self.cart_type = cart_type
        self.extra_facts = None
        opaque = []
        if not inline_devices:
            opaque = ['devices::io::IO::get_byte', 'devices::io::IO::set_byte']
        self.ip = absint.Interp(facts, opaque=opaque, sym_facts=self.sym_facts,
                                trust_asserts=('overflow', 'bounds', 'slice_index'),
                                dyn_filter=(lambda m, ty: cart_type is None or ty == cart_type))

    def sym_facts(self, t):
        if self.extra_facts:
            r = self.extra_facts(t)
            if r is not None:
                return r
        return self.inv.sym_facts(t)

    def address_set(self, env, addr=ADDR):
        av = env.av(addr)
        # conditions on single bytes of the address (`let [page, low] = addr.to_be_bytes()`, `low < 0xa0`) do not refine the
        # interval of the address itself: take the exact minimum / maximum under the path condition when it is tighter
        if any(isinstance(t_, tuple) and t_ and t_[0] == 'o' for _, t_, _ in getattr(env, 'log', ())):
            from .invariants import _exact_bits
            ex = _exact_bits(addr, env)
            if ex is not None and (ex.lo > av.lo or ex.hi < av.hi):
                return (max(av.lo, ex.lo), min(av.hi, ex.hi))
        return (av.lo, av.hi)

    def read_paths(self):
        ip = self.ip
        st = ip.new_state()
        rs = ip.run(RD, [S(0, 'areas'), ADDR], st)
        out = []
        for r in rs:
            if r.status != 'ok':
                out.append({'status': r.status, 'detail': r.detail, 'lo': None, 'hi': None, 'result': r})
                continue
            lo, hi = self.address_set(r.state.env)
            h = self.classify_read(r)
            h.update({'status': 'ok', 'lo': lo, 'hi': hi, 'result': r, 'env': r.state.env,
                      'cart': [e[2] for e in r.state.events if e[0] == 'dyn']})
            out.append(h)
        return out

    def classify_read(self, r):
        v = r.ret
        calls = [e for e in r.state.events if e[0] == 'call']
        if v is not None and v[0] == 'c':
            return {'kind': 'const', 'value': v[2]}
        if v is not None and v[0] == 's' and v[3] and v[3][0] == 'elem':
            return {'kind': 'buffer', 'buffer': buffer_of(v[3][1]), 'index': v[3][2], 'obj': v[3][1]}
        for e in calls:
            if e[3] == v:
                return {'kind': 'call', 'callee': e[1], 'args': e[2]}
        if v is not None and v[0] == 's' and v[3] and v[3][0] == 'field':
            return {'kind': 'field', 'owner': v[3][1], 'field': v[3][2]}
        return {'kind': 'other', 'value': v}

    def write_paths(self):
        ip = self.ip
        st = ip.new_state()
        rs = ip.run(WR, [S(0, 'areas'), ADDR, VALUE], st)
        out = []
        for r in rs:
            if r.status != 'ok':
                out.append({'status': r.status, 'detail': r.detail, 'lo': None, 'hi': None, 'result': r})
                continue
            lo, hi = self.address_set(r.state.env)
            stores = [e for e in r.state.events if e[0] == 'store']
            calls = [e for e in r.state.events if e[0] == 'call']
            h = {'status': 'ok', 'lo': lo, 'hi': hi, 'result': r, 'env': r.state.env, 'stores': stores, 'calls': calls,
                 'cart': [e[2] for e in r.state.events if e[0] == 'dyn']}
            bufst = [e for e in stores if e[2] and e[2][-1][0] == 'i']
            if bufst:
                e = bufst[0]
                h.update({'kind': 'buffer', 'buffer': buffer_of(e[1]), 'index': e[2][-1][1], 'value': e[3], 'obj': e[1]})
            elif calls:
                h.update({'kind': 'call', 'callee': calls[0][1], 'args': calls[0][2]})
            elif stores:
                h.update({'kind': 'field', 'fields': [(e[1], e[2]) for e in stores]})
            else:
                h.update({'kind': 'ignore'})
            out.append(h)
        return out

    def fetch_paths(self):
        ip = self.ip
        st = ip.new_state()
        start = S(64, 'start')
        rs = ip.run(FETCH, [start, S(0, 'mem')], st)
        out = []
        for r in rs:
            if r.status != 'ok' or r.ret is None or r.ret[0] != 'slice':
                out.append({'status': r.status, 'detail': r.detail, 'result': r,
                            'lo': r.state.env.av(start).lo, 'hi': r.state.env.av(start).hi})
                continue
            av = r.state.env.av(start)
            out.append({'status': 'ok', 'lo': av.lo, 'hi': av.hi, 'buffer': buffer_of(r.ret[1][1]), 'offset': r.ret[3],
                        'len': r.ret[4], 'env': r.state.env, 'result': r, 'start': start,
                        'cart': [e[2] for e in r.state.events if e[0] == 'dyn']})
        return out


def merge_regions(paths, keyfn):
    """merge paths with equal handler keys into maximal address intervals; returns sorted [(lo, hi, key, [paths])]"""
    items = sorted([p for p in paths if p.get('status') == 'ok'], key=lambda p: (p['lo'], p['hi']))
    out = []
    for p in items:
        k = keyfn(p)
        if out and out[-1][2] == k and out[-1][1] + 1 >= p['lo']:
            out[-1] = (out[-1][0], max(out[-1][1], p['hi']), k, out[-1][3] + [p])
        else:
            out.append((p['lo'], p['hi'], k, [p]))
    return out
