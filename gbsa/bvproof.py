"""Exact fallback for the term-level equality tests: when the affine normal form cannot decide t1 == t2, both terms
and the path's assumptions are converted to canonical ROBDD vectors (gbsa.bdd) and compared.  Only sound answers are
returned: True / a constant when proved under the path condition, None when the terms leave the bit-vector fragment."""
from .bdd import BDD, BV, TermBV, Unsupported
import os
_DEBUG = bool(os.environ.get('GBSA_DEBUG_DROP'))


def _known(env):
    sf = env.sym_facts

    def f(t):
        av = sf(t) if sf else None
        if av is None:
            return (0, 0)
        k0 = av.m0
        for i in range(t[1] - 1, -1, -1):
            if av.hi >> i:
                break
            k0 |= 1 << i
        return (k0, av.m1)
    return f


def _setup(env, m=None, conv=None, rename=None, only=None, atoms=False):
    """-> (manager, converter, path condition of env).  `rename` maps terms before conversion (to compare paths of
    different functions over common variable names)."""
    if m is None:
        m = BDD()
        if atoms:
            m.limit = 250000        # proof attempts are best effort: give up early, the caller falls back to "unknown"
        conv = TermBV(m, _known(env), atoms=atoms)
    K = 1
    ren = (lambda t: subst(t, rename)) if rename else (lambda t: t)
    for kind, t, v in getattr(env, 'log', ()):
        if not (isinstance(t, tuple) and t and t[0] in ('c', 's', 'o') and t[1]):
            continue        # a weaker path condition only makes the proof harder, never unsound
        t2 = ren(t)
        if only is not None and not (_symnames(t2) <= only):
            continue
        lim = m.limit
        m.limit = min(lim, len(m.node) + 50000)
        try:
            e = conv(t2).eq(v)
            K2 = m.AND(K, e if kind == 'eq' else m.NOT(e))
        except Unsupported as ex:
            if _DEBUG:
                from .terms import fmt
                print('bvproof: conjunct dropped (%s): %s %s %s' % (ex, kind, fmt(t2)[:300], v))
            conv.memo.pop(t2, None)
            continue
        finally:
            m.limit = lim
        K = K2
    for t, av in env.ref.items():
        if only is not None and not (_symnames(ren(t)) <= only):
            continue
        # interval / known-bit refinements installed directly with Env.assume (not through the log)
        if t[0] != 's' or not t[1]:
            continue
        try:
            x = conv(ren(t))
        except Unsupported:
            continue
        w = len(x)
        if av.lo > 0:
            K = m.AND(K, m.NOT(x.ult(BV.const(m, w, av.lo))))
        if av.hi < (1 << w) - 1:
            K = m.AND(K, x.ule(BV.const(m, w, av.hi)))
    return m, conv, K


def _sym_intervals(m, conv, env, K):
    """the interval part of the symbol facts (field invariants) of every symbol converted so far: the known-bit part is
    built into the symbol's vector, a bound like `offset <= 0x9f` is not expressible that way"""
    sf = getattr(env, 'sym_facts', None)
    if not sf:
        return K
    for t in list(conv.memo):
        if not (isinstance(t, tuple) and t and t[0] == 's' and t[1]):
            continue
        av = sf(t)
        if av is None:
            continue
        x = conv.memo[t]
        w = len(x)
        if av.lo > 0:
            K = m.AND(K, m.NOT(x.ult(BV.const(m, w, av.lo))))
        if av.hi < (1 << w) - 1:
            K = m.AND(K, x.ule(BV.const(m, w, av.hi)))
    return K


def _fit(x, width):
    return x.trunc(width) if len(x) >= width else None


class _EnvView:
    def __init__(self, log, ref, sym_facts):
        self.log, self.ref, self.sym_facts = log, ref, sym_facts


def _syms(t, out):
    stack = [t]
    while stack:
        x = stack.pop()
        if not isinstance(x, tuple) or not x:
            continue
        if x[0] == 's':
            out.add(x)
            # an element symbol depends on its index term
            if x[3] and x[3][0] == 'elem' and isinstance(x[3][2], tuple):
                stack.append(x[3][2])
        elif x[0] == 'o':
            stack.extend(x[3:])
    return out


def relevant(env, terms):
    """the part of a path condition that can matter for `terms`: assumptions connected to their symbols through shared
    symbols.  Dropping the rest only weakens the hypothesis (a proof found this way is a proof), and keeps the canonical
    forms small on long paths"""
    log = getattr(env, 'log', ())
    if len(log) <= 10:
        return env
    seen = set()
    for t in terms:
        _syms(t, seen)
    items = [(k, t, v, _syms(t, set())) for k, t, v in log if isinstance(t, tuple) and t and t[0] in ('s', 'o')]
    used = [False] * len(items)
    changed = True
    while changed:
        changed = False
        for i, (k, t, v, ss) in enumerate(items):
            if not used[i] and ss & seen:
                used[i] = True
                if not ss <= seen:
                    seen |= ss
                changed = True
    return _EnvView([(k, t, v) for i, (k, t, v, ss) in enumerate(items) if used[i]],
                    {t: av for t, av in env.ref.items() if t in seen}, env.sym_facts)


def equal_under(t1, t2, env, width):
    env = relevant(env, (t1, t2))
    try:
        m, conv, K = _setup(env, atoms=True)
        a, b = _fit(conv(t1), width), _fit(conv(t2), width)
    except (Unsupported, RecursionError):
        return None
    if a is None or b is None:
        return None
    K = _sym_intervals(m, conv, env, K)
    # a proof (True) holds for every value of the uninterpreted atoms / unmodelled results; a failed proof is "unknown"
    return True if m.AND(K, a.diff(b)) == 0 else None


def const_diff_under(t1, t2, env, width):
    env = relevant(env, (t1, t2))
    try:
        m, conv, K = _setup(env, atoms=True)
        a, b = _fit(conv(t1), width), _fit(conv(t2), width)
    except (Unsupported, RecursionError):
        return None
    if a is None or b is None or K == 0:
        return None
    K = _sym_intervals(m, conv, env, K)
    if K == 0:
        return None
    d = a - b
    w = m.witness(K)
    c = 0
    for i, n in enumerate(d.b):
        while n > 1:
            v, lo, hi = m.node[n]
            sym, bit = m.names[v]
            n = hi if (w.get(sym, 0) >> bit) & 1 else lo
        c |= n << i
    if m.AND(K, d.diff(BV.const(m, width, c))) == 0:
        return c
    return None


setup = _setup


def subst(t, mapping):
    """rebuild term t with the sub-terms in `mapping` replaced"""
    from .terms import O
    if t in mapping:
        return mapping[t]
    if not isinstance(t, tuple) or not t or t[0] != 'o':
        return t
    args = [subst(a, mapping) if isinstance(a, tuple) else a for a in t[3:]]
    return O(t[1], t[2], *args)


def _symnames(t):
    out = set()
    stack = [t]
    while stack:
        x = stack.pop()
        if not isinstance(x, tuple) or not x:
            continue
        if x[0] == 's':
            out.add(x[2])
        elif x[0] == 'o':
            stack.extend(x[3:])
    return out
