"""Header-derived configuration space: controller types, ROM and RAM sizes that a loadable ROM file can declare,
extracted from Header::create_cart_state / get_rom_bank_count / get_ram_size_bytes by constant propagation over
all 256 values of each header byte; fixed buffer sizes from MemoryAreas::with_rom_file."""
from . import absint, terms as T
from .terms import C, S, O, fmt

HDR = 'cart::Header'


def _hdr_state(ip, field, value):
    st = ip.new_state()
    root = ('O', 'hdr')
    st.mem[root] = S(0, 'hdr')
    # header fields are read through projections of a symbolic object: pin one field with an override
    adt = ip.adts[HDR]
    idx = [i for i, f in enumerate(adt['fields']) if f['name'] == field][0]
    st.mem[root] = ('snap', S(0, 'hdr'), ((('f', idx), C(8, value)),))
    return st, ('ref', root, ())


def table(facts, fn, field):
    ip = absint.Interp(facts)
    out = {}
    for v in range(256):
        st, ref = _hdr_state(ip, field, v)
        rs = ip.run(fn, [ref], st)
        res = set()
        for r in rs:
            if r.status == 'ok' and r.ret is not None:
                if r.ret[0] == 'c':
                    res.add(('const', r.ret[2]))
                elif r.ret[0] == 'ref':
                    ty = r.state.dyn.get((r.ret[1], r.ret[2]))
                    res.add(('type', ty))
                else:
                    res.add(('other', fmt(r.ret)))
            else:
                res.add((r.status, None))
        out[v] = res
    return out


def configuration_space(facts):
    carts = table(facts, 'cart::Header::create_cart_state', 'cart_type')
    banks = table(facts, 'cart::Header::get_rom_bank_count', 'rom_size')
    rams = table(facts, 'cart::Header::get_ram_size_bytes', 'ram_size')
    # rom bytes = bank count * 16 KiB (get_rom_size_bytes)
    ip = absint.Interp(facts, opaque=['cart::Header::get_rom_bank_count'])
    st = ip.new_state()
    rs = ip.run('cart::Header::get_rom_size_bytes', [ip.arg_object(st, 'hdr')], st)
    factor = None
    from .affine import aff
    for r in rs:
        if r.status == 'ok' and r.ret is not None and T.is_int(r.ret):
            co, c, w = aff(r.ret, r.state.env)
            if len(co) == 1 and c == 0:
                factor = list(co.values())[0]
    cart_types = {}
    for v, res in carts.items():
        for k, x in res:
            if k == 'type':
                cart_types.setdefault(x, []).append(v)
    bank_counts = sorted(set(x for res in banks.values() for k, x in res if k == 'const'))
    ram_sizes = sorted(set(x for res in rams.values() for k, x in res if k == 'const'))
    rejected = sorted(v for v, res in carts.items() if all(k == 'panic' for k, _ in res))
    return {'cart_types': cart_types, 'bank_counts': bank_counts, 'ram_sizes': ram_sizes, 'rom_factor': factor,
            'rejected_types': rejected, 'tables': {'cart': carts, 'banks': banks, 'rams': rams}}


def fixed_buffer_sizes(facts):
    """field -> size term passed to create_buffer / get_rom_buffer in MemoryAreas::with_rom_file"""
    ip = absint.Interp(facts, opaque=['mem::create_buffer', 'system::get_rom_buffer', 'cart::Header::create_cart_state',
                                      'cart::Header::get_rom_size_bytes', 'cart::Header::get_ram_size_bytes',
                                      'devices::io::IO::new'])
    st = ip.new_state()
    rs = ip.run('mem::MemoryAreas::with_rom_file', [S(0, 'file'), ip.arg_object(st, 'hdr')], st)
    out = {}
    for r in rs:
        if r.status != 'ok' or r.ret is None or r.ret[0] != 'agg':
            continue
        calls = {}
        for e in r.state.events:
            if e[0] == 'call':
                calls[e[3]] = (e[1], e[2])
        names = r.ret[1]
        adt = facts['adts']['mem::MemoryAreas']
        for i, f in enumerate(adt['fields']):
            v = r.ret[2][i] if i < len(r.ret[2]) else None
            if v in calls and calls[v][1]:
                callee, args = calls[v]
                size = args[-1]
                if size in calls:
                    out[f['name']] = ('call', calls[size][0])
                elif size[0] == 'c':
                    out[f['name']] = ('const', size[2])
                else:
                    out[f['name']] = ('term', fmt(size))
    return out
