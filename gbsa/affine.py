"""Affine normal forms modulo 2^w for terms (a small relational domain used to
decide equalities such as  sp' == sp - 2 (mod 2^16)  or  ip' == ip + 2 + sext(e8)).

aff(t, env) -> (coeffs: dict atom->int, const: int, width)  meaning
    value(t) == sum(coeff * value(atom)) + const   (mod 2^width)
Atoms are symbols or sub-terms that are not affine (treated opaquely).
"""
from .terms import mask, is_int


def _norm(co, c, w):
    m = mask(w)
    co = {a: k & m for a, k in co.items() if k & m}
    return (co, c & m, w)


def _range(co, c, env):
    """integer range of the un-reduced expression using atoms' unsigned AVs; coefficients as signed small ints"""
    lo = hi = c
    for a, k in co.items():
        av = env.av(a)
        if k >= 0:
            lo += k * av.lo
            hi += k * av.hi
        else:
            lo += k * av.hi
            hi += k * av.lo
    return lo, hi


def _signed(co, c, w):
    """reinterpret coefficients > 2^(w-1) as negative for range computation"""
    half = 1 << (w - 1)
    m = 1 << w
    return ({a: (k - m if k >= half else k) for a, k in co.items()}, (c - m if c >= half else c))


def aff(t, env, depth=0):
    w = t[1]
    if t[0] == 'c':
        return ({}, t[2], w)
    cv = env.const_of(t)
    if cv is not None:
        return ({}, cv, w)
    if t[0] == 's' or depth > 60:
        return ({t: 1}, 0, w)
    op = t[2]
    a = t[3:]
    if op in ('add', 'sub'):
        A = aff(a[0], env, depth + 1)
        B = aff(a[1], env, depth + 1)
        co = dict(A[0])
        sgn = 1 if op == 'add' else -1
        for k, v in B[0].items():
            co[k] = co.get(k, 0) + sgn * v
        return _norm(co, A[1] + sgn * B[1], w)
    if op == 'mul' and a[1][0] == 'c':
        A = aff(a[0], env, depth + 1)
        k = a[1][2]
        return _norm({x: v * k for x, v in A[0].items()}, A[1] * k, w)
    if op == 'shl' and a[1][0] == 'c':
        A = aff(a[0], env, depth + 1)
        k = 1 << (a[1][2] % w)
        return _norm({x: v * k for x, v in A[0].items()}, A[1] * k, w)
    if op == 'not':
        A = aff(a[0], env, depth + 1)
        return _norm({x: -v for x, v in A[0].items()}, -A[1] - 1, w)
    if op == 'neg':
        A = aff(a[0], env, depth + 1)
        return _norm({x: -v for x, v in A[0].items()}, -A[1], w)
    if op == 'trunc':
        A = aff(a[0], env, depth + 1)
        return _norm(A[0], A[1], w)
    if op in ('zext', 'sext'):
        inner = a[0]
        iw = inner[1]
        A = aff(inner, env, depth + 1)
        sco, sc0 = _signed(A[0], A[1], iw)
        # pick the residue of the constant for which the integer range is the unsigned value range
        for sc in (sc0, sc0 + (1 << iw), sc0 - (1 << iw)):
            lo, hi = _range(sco, sc, env)
            if not (0 <= lo and hi <= mask(iw)):
                continue
            if op == 'zext':
                return _norm(sco, sc, w)
            av = env.av(inner)
            sb = 1 << (iw - 1)
            if av.m0 & sb:
                return _norm(sco, sc, w)
            if av.m1 & sb:
                return _norm(sco, sc - (1 << iw), w)
        return ({t: 1}, 0, w)
    if op == 'or' or op == 'xor':
        # disjoint bit ranges add up
        A, B = env.av(a[0]), env.av(a[1])
        if ((~A.m0) & (~B.m0) & mask(w)) == 0:
            X = aff(a[0], env, depth + 1)
            Y = aff(a[1], env, depth + 1)
            co = dict(X[0])
            for k, v in Y[0].items():
                co[k] = co.get(k, 0) + v
            return _norm(co, X[1] + Y[1], w)
    if op == 'and' and a[1][0] == 'c':
        c = a[1][2]
        if c & (c + 1) == 0 and c:
            # x & (2^k - 1): if x provably below 2^k it is x itself; if the bits above the mask are the same for every
            # value x can take (x stays inside one aligned block), it is x minus that constant high part
            X = env.av(a[0])
            if X.hi <= c:
                return aff(a[0], env, depth + 1)
            k = c.bit_length()
            if X.lo >> k == X.hi >> k:
                A = aff(a[0], env, depth + 1)
                return _norm(A[0], A[1] - ((X.lo >> k) << k), w)
    return ({t: 1}, 0, w)


def equal_mod(t1, t2, env, width):
    """True when t1 == t2 modulo 2^width is provable: from the affine forms, else by canonical bit-level comparison"""
    A = aff(t1, env)
    B = aff(t2, env)
    if A[2] < width or B[2] < width:
        from . import bvproof
        return bvproof.equal_under(t1, t2, env, width) is True
    a = _norm(A[0], A[1], width)
    b = _norm(B[0], B[1], width)
    if a[0] == b[0] and a[1] == b[1]:
        return True
    from . import bvproof
    return bvproof.equal_under(t1, t2, env, width) is True


def diff_const(t1, t2, env, width):
    """constant k with t1 == t2 + k (mod 2^width) or None"""
    A = aff(t1, env)
    B = aff(t2, env)
    if A[2] < width or B[2] < width:
        return None
    a = _norm(A[0], A[1], width)
    b = _norm(B[0], B[1], width)
    if a[0] != b[0]:
        from . import bvproof
        return bvproof.const_diff_under(t1, t2, env, width)
    return (a[1] - b[1]) & mask(width)


def simplify(t, env):
    """t rewritten through its affine normal form (terms that cancel disappear; masks with a fixed high part become
    subtractions): same value as t under env, usually much smaller as a bit-level function"""
    from .terms import O, C
    if not is_int(t) or t[0] != 'o':
        return t
    co, c0, w = aff(t, env)
    out = C(w, c0)
    for a_, k in sorted(co.items(), key=lambda kv: str(kv[0])):
        x = a_
        if x[1] != w:
            return t
        if k >= 1 << (w - 1):
            k2 = (1 << w) - k
            out = O(w, 'sub', out, x if k2 == 1 else O(w, 'mul', x, C(w, k2)))
        else:
            out = O(w, 'add', out, x if k == 1 else O(w, 'mul', x, C(w, k)))
    return out
