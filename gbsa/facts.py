"""Produce and load MIR facts for /repo's current working tree.

Facts come from tools/mirfacts (a rustc_private driver) run as
RUSTC_WORKSPACE_WRAPPER under `cargo +nightly check --offline` in two
configurations: default features and `--features jit`.  Facts are cached under
/verif/.cache keyed by a hash of the repo sources; the package's own
fingerprints are removed before every regeneration so that cargo cannot skip
the wrapper.
"""
import hashlib, json, os, shutil, subprocess, sys, time, glob

VERIF = os.path.dirname(os.path.dirname(os.path.abspath(__file__)))
REPO = os.environ.get('GBSA_REPO', '/repo')
CACHE = os.environ.get('GBSA_CACHE', os.path.join(VERIF, '.cache'))
DRIVER = os.path.join(VERIF, 'tools', 'mirfacts', 'target', 'release', 'mirfacts')

FLOOR_FUNCTIONS = 500   # counted on the pinned tree: 528
FLOOR_ASSERTS = 1200    # counted on the pinned tree: 1337


class AnalysisError(Exception):
    pass


def _unlimit():
    """child processes (cargo, rustc) run without the analysis' own address-space bound"""
    try:
        import resource
        hard = resource.getrlimit(resource.RLIMIT_AS)[1]
        resource.setrlimit(resource.RLIMIT_AS, (hard, hard))
    except (ImportError, ValueError, OSError):
        pass


def source_hash(repo=None):
    repo = repo or REPO
    h = hashlib.sha256()
    files = []
    for name in ('Cargo.toml', 'Cargo.lock', 'build.rs'):
        p = os.path.join(repo, name)
        if os.path.exists(p):
            files.append(p)
    for root, dirs, fs in os.walk(os.path.join(repo, 'src')):
        dirs.sort()
        for f in sorted(fs):
            files.append(os.path.join(root, f))
    for p in files:
        h.update(os.path.relpath(p, repo).encode())
        h.update(b'\0')
        with open(p, 'rb') as fh:
            h.update(fh.read())
        h.update(b'\0')
    # driver identity is part of the key
    try:
        st = os.stat(DRIVER)
        h.update(('%d:%d' % (st.st_size, int(st.st_mtime))).encode())
    except OSError:
        pass
    return h.hexdigest()


def _sysroot_lib():
    out = subprocess.run(['rustc', '+nightly', '--print', 'sysroot'], capture_output=True, text=True)
    if out.returncode != 0:
        raise AnalysisError('nightly toolchain not available: ' + out.stderr)
    return os.path.join(out.stdout.strip(), 'lib')


def ensure_driver():
    if os.path.exists(DRIVER):
        return
    d = os.path.join(VERIF, 'tools', 'mirfacts')
    env = dict(os.environ, CARGO_NET_OFFLINE='true')
    r = subprocess.run(['cargo', '+nightly', 'build', '--offline', '--release'], cwd=d, env=env, preexec_fn=_unlimit,
                       capture_output=True, text=True)
    if r.returncode != 0 or not os.path.exists(DRIVER):
        raise AnalysisError('cannot build mirfacts driver:\n' + r.stderr[-4000:])


def _tag(repo):
    """cache namespace: /repo has its own; every other tree shares 'scratch' (or $GBSA_TAG) so that the dependency
    build is reused and disk use stays bounded"""
    if os.path.abspath(repo) == '/repo':
        return 'repo'
    return os.environ.get('GBSA_TAG', 'scratch')


def generate(cfg, repo=None, cold=False):
    """Run the driver for one configuration; returns path of the facts file."""
    repo = repo or REPO
    ensure_driver()
    os.makedirs(CACHE, exist_ok=True)
    tag = _tag(repo)
    target = os.path.join(CACHE, 'target-%s-%s' % (tag, cfg))
    out = os.path.join(CACHE, 'facts-%s-%s.json' % (tag, cfg))
    if cold and os.path.isdir(target):
        shutil.rmtree(target, ignore_errors=True)
    # make sure cargo re-invokes the wrapper for the primary package
    for fp in glob.glob(os.path.join(target, 'debug', '.fingerprint', 'gb-dynarec-*')):
        shutil.rmtree(fp, ignore_errors=True)
    if os.path.exists(out):
        os.remove(out)
    env = dict(os.environ)
    env.update({
        'LD_LIBRARY_PATH': _sysroot_lib() + ':' + env.get('LD_LIBRARY_PATH', ''),
        'RUSTFLAGS': '-Zmir-opt-level=0 -Awarnings',
        'RUSTC_WORKSPACE_WRAPPER': DRIVER,
        'CARGO_TARGET_DIR': target,
        'CARGO_NET_OFFLINE': 'true',
        'MIRFACTS_OUT': out,
    })
    env.pop('RUSTC_WRAPPER', None)
    cmd = ['cargo', '+nightly', 'check', '--offline', '--bin', 'gb-dynarec']
    if cfg == 'jit':
        cmd += ['--features', 'jit']
    r = subprocess.run(cmd, cwd=repo, env=env, capture_output=True, text=True, preexec_fn=_unlimit)
    if r.returncode != 0:
        raise AnalysisError('crate does not compile in configuration %r:\n%s' % (cfg, r.stderr[-6000:]))
    if not os.path.exists(out):
        raise AnalysisError('driver produced no facts for configuration %r (cargo skipped the wrapper?)\n%s'
                            % (cfg, r.stderr[-2000:]))
    return out


_loaded = {}


def load(cfg, repo=None, cold=False):
    """Facts for `cfg` ('default' | 'jit') of the repo's current tree."""
    repo = repo or REPO
    key = (cfg, os.path.abspath(repo))
    if key in _loaded and not cold:
        return _loaded[key]
    os.makedirs(CACHE, exist_ok=True)
    h = source_hash(repo)
    tag = _tag(repo)
    out = os.path.join(CACHE, 'facts-%s-%s.json' % (tag, cfg))
    stamp = out + '.hash'
    # the cache file and the cargo target directory of a namespace are shared between processes (several scratch trees
    # use 'scratch'): serialise check-freshness / regenerate / read under a lock
    import fcntl
    with open(os.path.join(CACHE, 'lock-%s-%s' % (tag, cfg)), 'w') as lk:
        fcntl.flock(lk, fcntl.LOCK_EX)
        fresh = (not cold and os.path.exists(out) and os.path.exists(stamp)
                 and open(stamp).read().strip() == h)
        if not fresh:
            if os.path.exists(stamp):
                os.remove(stamp)
            generate(cfg, repo, cold=cold)
            with open(stamp, 'w') as fh:
                fh.write(h)
        with open(out) as fh:
            facts = json.load(fh)
    st = facts.get('stats', {})
    if st.get('functions', 0) < FLOOR_FUNCTIONS or st.get('asserts', 0) < FLOOR_ASSERTS:
        raise AnalysisError('facts below floor for %r: %r (floors %d functions, %d asserts)'
                            % (cfg, st, FLOOR_FUNCTIONS, FLOOR_ASSERTS))
    facts['cfg'] = cfg
    facts['source_hash'] = h
    facts['regenerated'] = not fresh
    _loaded[key] = facts
    return facts


if __name__ == '__main__':
    t = time.time()
    for cfg in sys.argv[1:] or ['default', 'jit']:
        f = load(cfg)
        print(cfg, f['stats'], 'regenerated' if f['regenerated'] else 'cached', '%.1fs' % (time.time() - t))
