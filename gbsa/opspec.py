"""Per-opcode specialisation of decode / run_op / Emitter::encode_op.

Conditional constant propagation through the decoder's switch with the first
byte (and CB byte) fixed and operand bytes symbolic; the resulting `Op` value
is then pushed through the interpreter and the emitter.  Register file, flags
and memory stay symbolic throughout.
"""
from . import absint, terms as T
from .terms import C, S, O, AV, fmt

BUS = ('mem::memory_read_byte', 'mem::memory_write_byte', 'mem::memory_read_word', 'mem::memory_write_word')
B1 = S(8, 'b1', ('operand', 1))
B2 = S(8, 'b2', ('operand', 2))
IMM16 = O(16, 'or', O(16, 'shl', O(16, 'zext', B2), C(16, 8)), O(16, 'zext', B1))


def reg_facts(t):
    """Entry facts for the register file used in per-op analysis: 16-bit pairs, F low nibble 0."""
    name = t[2]
    if name in ('regs.af', 'regs.bc', 'regs.de', 'regs.hl', 'regs.sp', 'regs.ip'):
        m0 = 0xffff0000
        if name == 'regs.af':
            m0 |= 0x0f
        return AV(32, 0, 0xffff, m0, 0)
    if name == 'regs.cycles':
        return AV(32, 0, 1 << 24)
    if name == 'len(exec)':
        return AV(64, 1 << 20, 1 << 40)
    return None


def operand_only(t):
    """term mentions operand bytes and nothing else"""
    if t[0] == 'c':
        return False
    seen = set()
    stack = [t]
    while stack:
        x = stack.pop()
        if x[0] == 's':
            seen.add(x[2])
        elif x[0] == 'o':
            stack.extend(a for a in x[3:] if isinstance(a, tuple))
    return bool(seen) and seen <= {'b1', 'b2'}


def all_encodings():
    for opc in range(256):
        if opc == 0xcb:
            continue
        yield (None, opc)
    for cb in range(256):
        yield (0xcb, cb)


def enc_name(enc):
    return ('CB %02X' % enc[1]) if enc[0] is not None else '%02X' % enc[1]


class OpSpec:
    def __init__(self, facts):
        self.facts = facts
        self.ip_dec = absint.Interp(facts)
        self.ip_int = absint.Interp(facts, opaque=BUS, sym_facts=reg_facts)
        self.ip_emit = absint.Interp(facts, sym_facts=reg_facts)
        self._dec = {}
        self._int = {}
        self._emit = {}

    # -- decoder --------------------------------------------------------------
    def decode(self, enc, window=3):
        key = (enc, window)
        if key in self._dec:
            return self._dec[key]
        ip = self.ip_dec
        st = ip.new_state()
        root = ('O', 'code')
        if enc[0] is None:
            b = [C(8, enc[1]), B1, B2]
        else:
            b = [C(8, 0xcb), C(8, enc[1]), B2]
        st.mem[root] = ('snap', S(0, 'code'), tuple((('i', i), v) for i, v in enumerate(b)))
        sl = ('slice', root, (), C(64, 0), C(64, window))
        rs = ip.run('decoder::decode', [sl], st)
        self._dec[key] = rs
        return rs

    def decoded(self, enc):
        """-> (op_value, length:int, cycles:int) or raises"""
        rs = [r for r in self.decode(enc) if r.status == 'ok']
        if len(rs) != 1:
            raise absint.Abort('decode(%s) has %d ok paths' % (enc_name(enc), len(rs)))
        op, ln, cy = rs[0].ret[2]
        return op, ln[2] if ln[0] == 'c' else None, cy[2] if cy[0] == 'c' else None

    # -- interpreter ----------------------------------------------------------
    def interp(self, enc, cons=None, label=''):
        """interpreter paths of one encoding; `cons` (from emit_cases) restricts the operand bytes"""
        key = (enc, label)
        if key in self._int:
            return self._int[key]
        op, ln, cy = self.decoded(enc)
        ip = self.ip_int
        st = ip.new_state()
        if cons:
            for t, av in cons[0]:
                st.env.assume(t, av)
            for t, vals in cons[1]:
                for v in vals:
                    st.env.assume_ne(t, v)
        regs = ip.arg_object(st, 'regs')
        mem = S(0, 'mem')
        rs = ip.run('interpreter::run_op', [op, regs, mem, C(32, ln)], st)
        self._int[key] = rs
        return rs

    def emit_cases(self, enc):
        """-> ([(label, emit result, operand constraints or None)], [non-ok results]).  encode_op normally yields one
        code sequence per encoding; when it branches on an operand byte every branch is a case of its own, compared
        with the interpreter under the same operand constraint."""
        ers = self.emit(enc)
        oks = [r for r in ers if r.status == 'ok']
        bad = [r for r in ers if r.status != 'ok']
        if len(oks) == 1:
            return [('', oks[0], None)], bad
        cases = []
        for i, r in enumerate(oks):
            env = r.state.env
            refs = [(t, av) for t, av in env.ref.items() if operand_only(t)]
            excl = [(t, sorted(v)) for t, v in env.excl.items() if operand_only(t) and v]
            desc = []
            for t, av in refs:
                nm = t[2] if t[0] == 's' else ('imm16' if t == IMM16 or t == O(32, 'zext', IMM16) else fmt(t)[:48])
                desc.append('%s=%02x' % (nm, av.lo) if av.is_const() else '%s in %x..%x' % (nm, av.lo, av.hi))
            for t, vals in excl:
                if t[0] == 's':
                    desc.append('%s!=%s' % (t[2], '/'.join('%02x' % v for v in vals)))
            if any('(' not in d for d in desc):
                desc = [d for d in desc if '(' not in d]
            label = '@' + (','.join(sorted(desc)) or 'case%d' % i)
            if any(c[0] == label for c in cases):
                label += '#%d' % i
            cases.append((label, r, (refs, excl)))
        return cases, bad

    # -- emitter ---------------------------------------------------------------
    def emit(self, enc):
        if enc in self._emit:
            return self._emit[enc]
        op, ln, cy = self.decoded(enc)
        ip = self.ip_emit
        st = ip.new_state()
        em = ip.arg_object(st, 'emitter')
        ex = ('slice', ('O', 'exec'), (), C(64, 0), S(64, 'len(exec)'))

        def oc(st_, callee, args, site):
            if callee.startswith('emitter::x86_64::emit_'):
                view = args[-1] if args and args[-1] is not None and args[-1][0] == 'slice' else None
                if view is None and args and args[0] is not None and args[0][0] == 'slice':
                    view = args[0]
                off = st_.env.const_of(view[3]) if view is not None else None
                st_.events.append(('emit', callee.split('::')[-1],
                                   tuple(a for a in args if a is None or a[0] != 'slice'), off, site))
        ip.on_call = oc
        rs = ip.run('emitter::x86_64::Emitter::encode_op', [em, op, C(64, ln), ex], st)
        ip.on_call = None
        self._emit[enc] = rs
        return rs

    @staticmethod
    def emitted_bytes(result):
        v = result.state.mem.get(('O', 'exec'))
        out = {}
        if v is not None and v[0] == 'snap':
            for k, x in v[2]:
                if k[0] == 'i' and isinstance(k[1], int):
                    out[k[1]] = x
        return out


def final_regs(ip, result):
    """dict field -> term for the register file object at the end of a path"""
    st = result.state
    out = {}
    for f in ('af', 'bc', 'de', 'hl', 'sp', 'ip', 'cycles'):
        v = ip.read(st, ('O', 'regs'), (('f', 0, f, 'u32', 'cpu::Registers'),))
        # field index is irrelevant for symbolic base lookups by name; resolve through stores instead
        out[f] = v
    return out


REGF = ('af', 'bc', 'de', 'hl', 'sp', 'ip', 'cycles')


def entry_reg(name):
    return S(32, 'regs.' + name, ('field', 'cpu::Registers', name, 'u32'))


def summarise_interp(result):
    """Summary of one interpreter path: final register terms, ip/cycle deltas, bus events, flag condition."""
    st = result.state
    env = st.env
    regs = {f: entry_reg(f) for f in REGF}
    bus = []
    for e in st.events:
        if e[0] == 'store' and e[1] == 'regs' and len(e[2]) == 1 and e[2][0][0] == 'f':
            regs[e[2][0][1]] = e[3]
        elif e[0] == 'call' and e[1] in BUS:
            nm = e[1].split('::')[-1]
            kind = 'w' if 'write' in nm else 'r'
            width = 16 if 'word' in nm else 8
            args = e[2]
            bus.append({'kind': kind, 'width': width, 'addr': args[1], 'value': args[2] if kind == 'w' else e[3],
                        'site': e[4], 'site_helper': e[1]})
    from .affine import diff_const
    ipd = diff_const(regs['ip'], entry_reg('ip'), env, 32)
    cyd = diff_const(regs['cycles'], entry_reg('cycles'), env, 32)
    af = env.av(entry_reg('af'))
    cond = {}
    for nm, bit in (('Z', 0x80), ('C', 0x10)):
        cond[nm] = 1 if af.m1 & bit else (0 if af.m0 & bit else None)
    status = result.ret[2] if result.ret is not None and result.ret[0] == 'c' else None
    return {'status': status, 'regs': regs, 'ip_delta': ipd, 'cycles_extra': cyd, 'bus': bus, 'env': env,
            'cond': cond, 'result': result}
