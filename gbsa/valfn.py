"""Value-level comparison of a (loop-free) crate function with a reference formula over its receiver's fields.

paths = absint results of the function; ref(m, F) builds the expected result as a BV from field accessors:
F.u(name, width) -> zero-extended field value, F.b(name) -> BDD node "field is true/non-zero".
Returns None when every path agrees (K => result == reference), else a message with a concrete field assignment.
Raises bdd.Unsupported when undecidable."""
from . import bvproof
from .bdd import BV, Unsupported
from .terms import fmt, is_int


def field_syms(terms):
    out = {}
    seen = set()
    stack = list(terms)
    while stack:
        x = stack.pop()
        if not isinstance(x, tuple) or not x or x in seen:
            continue
        seen.add(x)
        if x[0] == 's' and x[3] and x[3][0] == 'field':
            out.setdefault(x[3][2], x)
        elif x[0] == 's' and x[3] and x[3][0] == 'discr':
            out.setdefault(x[3][1].split('.')[-1], x)
        elif x[0] == 'o':
            stack.extend(x[3:])
    return out


class Fields:
    def __init__(self, m, conv, syms):
        self.m, self.conv, self.syms = m, conv, syms

    def u(self, name, width):
        t = self.syms.get(name)
        if t is None:
            return BV.sym(self.m, 'unused:' + name, width)
        v = self.conv(t)
        return v.zext(width) if len(v) < width else v.trunc(width)

    def b(self, name):
        t = self.syms.get(name)
        if t is None:
            return self.m.var_of('unused:' + name, 0)
        return self.conv(t).nonzero()


def compare(paths, ref, value_of=None, width=None, extra_terms=()):
    """value_of(r) -> term to compare (default r.ret)"""
    n = 0
    for r in paths:
        if r.status != 'ok':
            return 'the function does not return on some path (%s %s)' % (r.status, r.detail)
        got_t = value_of(r) if value_of else r.ret
        if got_t is None or not is_int(got_t):
            return 'result is not an integer value (%s)' % (fmt(got_t) if got_t else None)
        m, conv, K = bvproof.setup(r.state.env)
        if K == 0:
            continue
        n += 1
        syms = field_syms([got_t] + [t for k, t, v in r.state.env.log] + list(extra_terms))
        got = conv(got_t)
        w = width or len(got)
        got = got.zext(w) if len(got) < w else got.trunc(w)
        want = ref(m, Fields(m, conv, syms))
        want = want.zext(w) if len(want) < w else want.trunc(w)
        D = m.AND(K, got.diff(want))
        if D != 0:
            wit = m.witness(D)

            def ev(bv):
                out = 0
                for i, nd in enumerate(bv.b):
                    while nd > 1:
                        v_, lo_, hi_ = m.node[nd]
                        sy, bit = m.names[v_]
                        nd = hi_ if (wit.get(sy, 0) >> bit) & 1 else lo_
                    out |= nd << i
                return out
            return 'returns %#x, expected %#x when %s' % (ev(got), ev(want), ', '.join(
                '%s=%#x' % (k.split('.')[-1], v) for k, v in sorted(wit.items())) or 'always')
    if not n:
        return 'no feasible path'
    return None
