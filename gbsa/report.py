"""Check bookkeeping: rule instances, floors, known findings, evidence, replay files."""
import json, os, re, sys, time

VERIF = os.path.dirname(os.path.dirname(os.path.abspath(__file__)))
KNOWN = os.path.join(VERIF, 'known_findings.json')
_SCRATCH = os.environ.get('GBSA_REPO', '/repo') not in ('/repo', '/repo/')
# evidence and replay files describe /repo; runs against a scratch tree (self-test, seeded changes) write elsewhere
EVDIR = os.environ.get('GBSA_EVIDENCE_DIR') or os.path.join(VERIF, '.cache/scratch-evidence' if _SCRATCH else 'evidence')
RPDIR = os.environ.get('GBSA_REPLAY_DIR') or os.path.join(VERIF, '.cache/scratch-replay' if _SCRATCH else 'replay')


class AnalysisError(Exception):
    pass


def load_known():
    if not os.path.exists(KNOWN):
        return {'findings': [], 'fixed': []}
    with open(KNOWN) as fh:
        return json.load(fh)


def jsonable(x):
    if isinstance(x, (str, int, float, bool)) or x is None:
        return x
    if isinstance(x, dict):
        return {str(k): jsonable(v) for k, v in x.items()}
    if isinstance(x, (list, tuple, set, frozenset)):
        return [jsonable(v) for v in x]
    return str(x)


class Check:
    def __init__(self, pid, tier='quick', level='other'):
        self.pid = pid
        self.tier = tier
        self.level = level
        self.t0 = time.time()
        self.rules = {}        # rule id -> dict(kind, text, instances, failures, floor)
        self.violations = []   # dict(rule, key, what, file, line, detail)
        self.infos = []
        self.samples = []
        self.assumptions = []
        self.trusted = []
        self.extra = {}
        self.nontrivial = set()
        self.errors = []

    # -- declaring rules and instances -----------------------------------------
    def rule(self, rid, kind, text, floor=0):
        self.rules[rid] = {'kind': kind, 'text': text, 'instances': 0, 'failures': 0, 'floor': floor}

    def ok(self, rid, key, nontrivial=True, sample=None):
        r = self.rules[rid]
        r['instances'] += 1
        if nontrivial:
            self.nontrivial.add((rid, key))
        if sample is not None and len(self.samples) < 40:
            self.samples.append({'rule': rid, 'instance': key, 'verdict': 'holds', 'detail': jsonable(sample)})

    def fail(self, rid, key, what, file=None, line=None, detail=None):
        r = self.rules[rid]
        r['instances'] += 1
        r['failures'] += 1
        self.nontrivial.add((rid, key))
        self.violations.append({'property': self.pid, 'rule': rid, 'key': key, 'what': what,
                                'file': file, 'line': line, 'detail': jsonable(detail)})

    def info(self, msg):
        self.infos.append(msg)

    def error(self, msg):
        """anchor lost / cannot analyse: ANALYSIS-ERROR, never a verdict"""
        self.errors.append(msg)

    def sample(self, s):
        if len(self.samples) < 60:
            self.samples.append(jsonable(s))

    # -- finishing -----------------------------------------------------------------
    def finish(self, explanation, exhaustive=False, extra_cov=None):
        if getattr(self, 'silent', False):
            # a sub-check run on behalf of another property (see borrow()): no evidence file, no output
            for rid, r in self.rules.items():
                if r['instances'] < r['floor']:
                    self.errors.append('rule %s matched %d instances, floor is %d (anchor lost)'
                                       % (rid, r['instances'], r['floor']))
            return 0
        for rid, r in self.rules.items():
            if r['instances'] < r['floor']:
                self.errors.append('rule %s matched %d instances, floor is %d (anchor lost)'
                                   % (rid, r['instances'], r['floor']))
        known = load_known()
        kset = {(k['property'], k['rule'], k['key']): k for k in known.get('findings', [])}
        new, listed = [], []
        for v in self.violations:
            k = kset.get((v['property'], v['rule'], v['key']))
            (listed if k else new).append(v)
        os.makedirs(RPDIR, exist_ok=True)
        os.makedirs(EVDIR, exist_ok=True)
        wall = time.time() - self.t0
        instances = sum(r['instances'] for r in self.rules.values())
        failures = sum(r['failures'] for r in self.rules.values())
        cov = {
            'explanation': explanation,
            'obligations': instances,
            'discharged': instances - failures,
            'evaluations': max(instances, 1),
            'distinct_nontrivial': len(self.nontrivial),
            'rule': 'one evaluation per rule instance (function, opcode, address class, field, path); '
                    'distinct_nontrivial counts distinct (rule, instance key) pairs whose verdict needed abstract '
                    'evaluation or graph search rather than a constant comparison',
            'exhaustive': bool(exhaustive),
            'rules': {rid: {'kind': r['kind'], 'text': r['text'], 'instances': r['instances'],
                            'failures': r['failures'], 'floor': r['floor']} for rid, r in self.rules.items()},
            'samples': self.samples[:40] or [{'note': 'no instance evaluated'}],
            'checker_cmd': './check %s%s' % (self.pid, ' --thorough' if self.tier == 'thorough' else ''),
            'trusted_base': self.trusted or ['rustc MIR construction and layout', 'tools/mirfacts exporter',
                                             'gbsa.absint transfer functions', 'reference tables in gbsa/'],
            'known_findings': [{'rule': v['rule'], 'key': v['key'], 'what': v['what']} for v in listed],
            'new_violations': [{'rule': v['rule'], 'key': v['key'], 'what': v['what'], 'file': v['file'],
                                'line': v['line']} for v in new],
            'informational': self.infos[:80],
            'analysis_errors': self.errors,
        }
        if extra_cov:
            cov.update(jsonable(extra_cov))
        cov.update(jsonable(self.extra))
        ev = {
            'property_id': self.pid,
            'tier': self.tier,
            'seed': int(os.environ.get('VERIF_SEED', '0') or 0),
            'level': self.level,
            'coverage': cov,
            'assumptions': self.assumptions,
            'wall_s': round(wall, 3),
            'violations': len(new),
        }
        with open(os.path.join(EVDIR, self.pid + '.json'), 'w') as fh:
            json.dump(ev, fh, indent=1)
        out = sys.stdout
        for rid, r in self.rules.items():
            out.write('[%s] rule %s (%s): %d instances, %d failing (floor %d) - %s\n'
                      % (self.pid, rid, r['kind'], r['instances'], r['failures'], r['floor'], r['text']))
        for m in self.infos[:40]:
            out.write('[%s] info: %s\n' % (self.pid, m))
        if self.errors:
            for e in self.errors:
                out.write('ANALYSIS-ERROR property=%s %s\n' % (self.pid, e))
            if not new:
                out.flush()
                return 2
            # a located violation is still reported when another part of the analysis lost its anchor
        for v in listed:
            out.write('KNOWN-FINDING: property=%s rule=%s instance=%s %s\n' % (self.pid, v['rule'], v['key'], v['what']))
        for v in new:
            safe = re.sub(r'[^A-Za-z0-9_.-]+', '_', '%s-%s-%s' % (self.pid, v['rule'], v['key']))[:150]
            path = os.path.join(RPDIR, safe + '.json')
            with open(path, 'w') as fh:
                json.dump(v, fh, indent=1)
            loc = '%s:%s' % (v['file'], v['line']) if v['file'] else ''
            out.write('  rule=%s instance=%s at %s: %s\n' % (v['rule'], v['key'], loc, v['what']))
            out.write('VIOLATION property=%s replay=%s\n' % (self.pid, path))
        out.write('[%s] %s: %d rule instances, %d known findings, %d new violations, %.1fs\n'
                  % (self.pid, 'HOLDS' if not new else 'VIOLATED', instances, len(listed), len(new), wall))
        out.flush()
        return 1 if new else 0


def borrow(ctx, chk, rid, kind, text, module, rules, floor=1):
    """Decide clause `rid` of the property `chk` belongs to with the rules `rules` of a sibling property's module: the
    sibling's rule code is run silently and the verdicts of the named rules are re-filed under `rid` (a property whose
    statement includes a clause another property spells out in detail must not depend on that other check being run)."""
    import importlib
    if rid not in chk.rules:        # a clause may borrow from several siblings: one rule entry, verdicts added up
        chk.rule(rid, kind, text, floor=floor)
    mod = importlib.import_module('gbsa.rules.' + module)
    sub = Check(module.upper(), chk.tier)
    sub.silent = True
    try:
        mod.run(ctx, sub)
    except Exception as e:        # noqa
        chk.error('%s: the borrowed rules of %s could not be evaluated (%s)' % (rid, module.upper(), e))
        return
    got = 0
    for r_ in rules:
        rr = sub.rules.get(r_)
        if rr is None:
            chk.error('%s: rule %s not found in %s' % (rid, r_, module.upper()))
            continue
        bad = [v for v in sub.violations if v['rule'] == r_]
        for v in bad:
            chk.fail(rid, '%s:%s' % (r_, v['key']), v['what'], v.get('file'), v.get('line'))
        n_ok = rr['instances'] - rr['failures']
        if n_ok > 0:
            chk.ok(rid, r_, sample={'borrowed rule': r_, 'instances': rr['instances'], 'text': rr['text'][:160]})
            chk.rules[rid]['instances'] += n_ok - 1
        got += rr['instances']
    for e in sub.errors:
        if any(r_ in e for r_ in rules):
            chk.error('%s: %s' % (rid, e))
