"""Flow-insensitive field invariants: the join of the abstract values of every store to a struct field anywhere
in the crate (constructors included), computed to a fixpoint together with the abstract interpreter."""
from . import absint, terms as T
from .terms import AV, S, C, int_type, mask
from .program import Program


def _arg_values(ip, st, fn):
    args = []
    for i in range(1, fn['arg_count'] + 1):
        loc = fn['locals'][i]
        ty = loc['ty']
        it = int_type(ty)
        nm = loc['name'] or ('arg%d' % i)
        if it:
            args.append(S(it[0], 'arg:' + nm))
        elif ty.startswith('&') or ty.startswith('*'):
            args.append(ip.arg_object(st, 'arg:' + nm))
        else:
            args.append(S(0, 'arg:' + nm))
    return args


class FieldInvariants:
    def __init__(self, facts):
        self.facts = facts
        self.prog = Program(facts)
        self.cache = {}
        self.why = {}
        self.in_progress = {}

    def sym_facts(self, t):
        """callback for Interp: facts for symbols that denote the entry value of a tracked field"""
        meta = t[3]
        if meta and meta[0] == 'field' and t[1] > 0:
            key = (meta[1], meta[2])
            if key in self.in_progress:
                return self.in_progress[key]
            if key in self.cache:
                return self.cache[key]
            if key in self.tracked:
                return self.get(*key)
        return None

    tracked = set()

    def track(self, owner, field):
        self.tracked = set(self.tracked) | {(owner, field)}

    def get(self, owner, field):
        key = (owner, field)
        if key in self.cache:
            return self.cache[key]
        bits = None
        adt = self.facts['adts'].get(owner)
        if adt and adt['kind'] == 'struct':
            for f in adt['fields']:
                if f['name'] == field:
                    it = int_type(f['ty'])
                    bits = it[0] if it else None
        if bits is None:
            self.cache[key] = None
            return None
        stores = self.prog.field_stores(owner, field)
        sites = []
        cur = None
        top = AV(bits)
        # constructor / constant stores first
        dyn_fns = set()
        const_vals = []
        for fname, bb, line, rv, kind in stores:
            if kind in ('addr_taken', 'through'):
                if kind == 'addr_taken' and self._ref_only_returned(fname):
                    # a private accessor handing `&mut field` to its callers (`fn cell(&mut self, ..) -> (&mut u8, u8)`):
                    # the stores happen in the callers, where the interpreter follows the reference to the field
                    for c in self.prog.callers(fname):
                        dyn_fns.add(c[0])
                        sites.append('%s:%d calls %s (which returns a reference to the field)' % (c[0], c[2], fname))
                    continue
                if kind == 'addr_taken':
                    self.cache[key] = top
                    self.why[key] = ['address of the field is taken in %s:%d' % (fname, line)]
                    return top
                continue
            if rv is not None and rv['k'] == 'use' and rv['op']['k'] == 'const':
                v = AV.const(bits, rv['op']['val'])
                const_vals.append(v)
                cur = v if cur is None else cur.join(v)
                sites.append('%s:%d := %#x' % (fname, line, rv['op']['val']))
            else:
                sites.append('%s:%d := <computed>' % (fname, line))
                if kind != 'construct' and self._operand_is_param(fname, rv):
                    # a setter-style helper storing its parameter: the values are decided at its call sites (the helper
                    # is inlined there); a helper nobody in the crate calls can be handed anything
                    cs = [c for c in self.prog.callers(fname) if c[0] in self.facts['functions'] and c[0] != fname]
                    if cs:
                        for c in cs:
                            dyn_fns.add(c[0])
                            sites.append('%s:%d calls %s' % (c[0], c[2], fname))
                        continue
                if not (kind == 'construct' and self._operand_is_param(fname, rv)):
                    # a closure is evaluated where it is written (its captures are known there)
                    dyn_fns.add(fname.split('::{closure#')[0] if fname.split('::{closure#')[0] in self.facts['functions']
                                else fname)
                if kind == 'construct' and self._operand_is_param(fname, rv):
                    # constructor taking the value as a parameter: the value is decided at its call sites
                    self.ctor_fns = getattr(self, 'ctor_fns', {})
                    self.ctor_fns.setdefault(key, set()).add(fname)
                    for c in self.prog.callers(fname):
                        if c[0] in self.facts['functions']:
                            dyn_fns.add(c[0])
                            sites.append('%s:%d calls %s' % (c[0], c[2], fname))
        if cur is None:
            cur = top if not dyn_fns else None
        for rounds in range(10):
            self.in_progress[key] = cur if cur is not None else AV.const(bits, 0)
            new = cur
            for fname in sorted(dyn_fns):
                for av in self._store_values(fname, owner, field, bits):
                    new = av if new is None else new.join(av)
            if new is None:
                new = top
            if cur is not None and new.key() == cur.key():
                break
            if rounds >= 8:
                new = top
            elif rounds >= 3:
                # widen the interval but keep the bits that have never been set
                w = AV(bits, 0, mask(bits), new.m0, 0).reduce()
                new = w if w is not None else top
            cur = new
        # narrowing: a widened result W is inductive but may be much larger than needed (a counter bounded by a guard
        # climbs one step per round until it is widened to "anything").  X = F(W) is accepted when it is itself
        # inductive: F(X) below X
        def F(x):
            self.in_progress[key] = x
            out = None
            for fname in sorted(dyn_fns):
                for av in self._store_values(fname, owner, field, bits):
                    out = av if out is None else out.join(av)
            for v0 in const_vals:
                out = v0 if out is None else out.join(v0)
            return out if out is not None else top

        def leq(a_, b_):
            return a_.join(b_).key() == b_.key()
        if cur is not None and dyn_fns:
            for _ in range(3):
                x = F(cur)
                if x.key() == cur.key() or not leq(x, cur):
                    break
                if leq(F(x), x):
                    cur = x
                else:
                    break
        self.in_progress.pop(key, None)
        self.cache[key] = cur
        self.why[key] = sites
        return cur

    def _ref_only_returned(self, fname):
        """fname is private, returns a `&mut`, is called (only from this crate, being private) and none of its callers
        hands a mutable reference or raw pointer on in its own result"""
        fn = self.facts['functions'].get(fname)
        if not fn or fn.get('vis') in ('Public', 'closure') or '&mut' not in fn['locals'][0]['ty']:
            return False
        cs = [c for c in self.prog.callers(fname) if c[0] != fname]
        if not cs:
            return False
        for c in cs:
            cf = self.facts['functions'].get(c[0])
            if not cf or '&mut' in cf['locals'][0]['ty'] or '*mut' in cf['locals'][0]['ty']:
                return False
        return True

    def _operand_is_param(self, fname, rv):
        if rv is None or rv['k'] != 'use':
            return False
        op = rv['op']
        fn = self.facts['functions'][fname]
        if op['k'] in ('copy', 'move') and not op['place']['proj']:
            l = op['place']['local']
            if 1 <= l <= fn['arg_count']:
                return True
            # a temporary copied from a parameter
            for b in fn['blocks']:
                for s in b['stmts']:
                    if s['k'] == 'assign' and s['place']['local'] == l and not s['place']['proj'] and \
                            s['rv']['k'] == 'use' and s['rv']['op']['k'] in ('copy', 'move') and \
                            not s['rv']['op']['place']['proj'] and 1 <= s['rv']['op']['place']['local'] <= fn['arg_count']:
                        return True
        return False

    def _agg_field_values(self, v, owner, field, env, bits, out, depth=0):
        if v is None or depth > 6:
            return
        if v[0] == 'agg':
            kind = v[1]
            if kind[0] == 'adt' and kind[1] == owner:
                adt = self.facts['adts'].get(owner)
                if adt and adt['kind'] == 'struct':
                    names = [f['name'] for f in adt['fields']]
                    if field in names and names.index(field) < len(v[2]):
                        x = v[2][names.index(field)]
                        if x is not None and T.is_int(x):
                            av = env.av(x)
                            if x[0] == 'o' and ((av.hi == mask(x[1]) and not av.m0) or _relational(x, env)):
                                av = _exact_bits(x, env) or av
                            out.append(av)
                        else:
                            out.append(AV(bits))
            for x in v[2]:
                self._agg_field_values(x, owner, field, env, bits, out, depth + 1)
        elif v[0] == 'snap':
            for _, x in v[2]:
                self._agg_field_values(x, owner, field, env, bits, out, depth + 1)

    def _untouching(self, owner, field):
        """crate functions that can neither store to owner.field nor construct an `owner` value (transitively):
        they are kept opaque (with a field-sensitive havoc) while computing the invariant"""
        key = ('untouching', owner, field)
        if key in self.cache:
            return self.cache[key]
        probe = absint.Interp(self.facts)
        constructs = set()
        for fname, fn in self.facts['functions'].items():
            for b in fn['blocks']:
                for s in b['stmts']:
                    if s['k'] == 'assign' and s['rv']['k'] == 'aggregate' and s['rv']['kind']['k'] == 'adt' and \
                            s['rv']['kind']['name'] == owner:
                        constructs.add(fname)
        cg = self.prog.callgraph()
        touching = set(constructs)
        for fname in self.facts['functions']:
            f2, u2 = probe.modset(fname)
            if u2 or (owner, field) in f2:
                touching.add(fname)
        # close under "calls a touching function"
        changed = True
        while changed:
            changed = False
            for fname, edges in cg.items():
                if fname in touching:
                    continue
                if any(e[0] in touching for e in edges):
                    touching.add(fname)
                    changed = True
        # small leaf helpers (a table lookup, a bit computation) are cheap to inline and their results usually feed the
        # stored value: only the heavy non-touching callees are kept opaque
        def small(f):
            fn = self.facts['functions'][f]
            nb = len([b for b in fn['blocks'] if not b.get('cleanup')])
            calls = [b['term'] for b in fn['blocks'] if b['term']['k'] == 'call' and not b.get('cleanup')]
            crate_calls = [t for t in calls if (t.get('resolved') or t.get('callee') or '') in self.facts['functions']]
            return nb <= 24 and not crate_calls
        res = [f for f in self.facts['functions'] if f not in touching and '{closure' not in f and not small(f)]
        self.cache[key] = res
        return res

    def _store_values(self, fname, owner, field, bits):
        opq = [f for f in self._untouching(owner, field) if f != fname]
        ip = absint.Interp(self.facts, sym_facts=self.sym_facts, trust_asserts=('overflow', 'bounds', 'slice_index'),
                           max_depth=6, loop_mode='havoc', path_budget=3000, opaque=opq,
                           opaque_havoc={f: [0] for f in opq})
        st = ip.new_state()
        fn = self.facts['functions'][fname]
        args = _arg_values(ip, st, fn)
        out = []
        try:
            rs = ip.run(fname, args, st)
        except RecursionError:
            return [AV(bits)]
        for r in rs:
            if r.status in ('abort', 'loop'):
                out.append(AV(bits))
                continue
            for e in r.state.events:
                if e[0] == 'extcall' and any(a is not None and a[0] == 'ref' and a[2] and a[2][-1][0] == 'f' and
                                             a[2][-1][1] == field and a[2][-1][2] == owner for a in e[2]):
                    out.append(AV(bits))        # a reference to the field is handed to code that is not followed
                if e[0] == 'store' and e[2] and e[2][-1][0] == 'f' and e[2][-1][1] == field and e[2][-1][2] == owner:
                    v = e[3]
                    if v is not None and T.is_int(v):
                        av = r.state.env.av(v)
                        if v[0] == 'o' and ((av.hi == mask(v[1]) and not av.m0) or _relational(v, r.state.env)):
                            av = _exact_bits(v, r.state.env) or av
                        out.append(av)
                    else:
                        out.append(AV(bits))
                elif e[0] == 'store':
                    self._agg_field_values(e[3], owner, field, r.state.env, bits, out)
            if r.status == 'ok' and r.ret is not None:
                self._agg_field_values(r.ret, owner, field, r.state.env, bits, out)
            # aggregate constructions with a non-constant operand are not store events: be conservative
        fnobj = fn
        for b in fnobj['blocks']:
            for s in b['stmts']:
                if s['k'] == 'assign' and s['rv']['k'] == 'aggregate' and s['rv']['kind']['k'] == 'adt' \
                        and s['rv']['kind']['name'] == owner and field in s['rv']['kind']['fields']:
                    op = s['rv']['ops'][s['rv']['kind']['fields'].index(field)]
                    if op['k'] != 'const' and not self._operand_is_param(fname, {'k': 'use', 'op': op}) \
                            and fname not in getattr(self, 'ctor_fns', {}).get((owner, field), ()):
                        pass  # the constructed value is returned / stored: covered by the aggregate walk above
        return out


def _relational(t, env):
    """is the value constrained by a path condition over a compound (arithmetic) term that shares one of its symbols?
    Interval evaluation cannot use such a condition; the exact evaluation can"""
    from .rules.c03 import syms_of
    if env.av(t).is_const():
        return False
    mine = syms_of(t)
    for kind, c, _ in env.log:
        if c[0] != 'o' or c[2] not in ('ule', 'ult', 'uge', 'ugt', 'eq', 'ne', 'sle', 'slt', 'sge', 'sgt'):
            continue
        for side in c[3:]:
            x = side
            while x[0] == 'o' and x[2] in ('zext', 'trunc', 'sext'):
                x = x[3]
            if x[0] == 'o' and x[2] in ('add', 'sub', 'mul', 'umin', 'umax', 'shl') and (syms_of(x) & mine):
                return True
    return False


def _exact_bits(t, env):
    """known-zero / known-one bits of a stored value from its exact bit-level form (used when the interval x known-bits
    evaluation gives nothing, e.g. `1 << TABLE[i]`): an AV with those bits, or None"""
    from . import bvproof
    from .bdd import Unsupported
    try:
        m, conv, K = bvproof.setup(env, atoms=True)
        v = conv(t)
    except (Unsupported, RecursionError):
        return None
    if K == 0:
        return None
    m0 = m1 = 0
    for i, b in enumerate(v.b):
        if m.AND(K, b) == 0:
            m0 |= 1 << i
        elif m.AND(K, m.NOT(b)) == 0:
            m1 |= 1 << i
    # exact maximum / minimum of the value under the path condition (bitwise descent from the top bit)
    w = t[1]
    hi = lo = 0
    sh = sl = K
    for i in range(len(v.b) - 1, -1, -1):
        b = v.b[i]
        x = m.AND(sh, b)
        if x != 0:
            sh = x
            hi |= 1 << i
        else:
            sh = m.AND(sh, m.NOT(b))
        y = m.AND(sl, m.NOT(b))
        if y != 0:
            sl = y
        else:
            sl = m.AND(sl, b)
            lo |= 1 << i
    if not m0 and not m1 and lo == 0 and hi == mask(w):
        return None
    return AV(w, max(lo, m1), min(hi, mask(w) & ~m0), m0, m1)
