"""Value-level comparison of the emitted x86-64 code with the interpreter, for all operand values at once.

Per encoding (and per operand case when encode_op branches on an operand byte): the exact emitted byte string (from
gbsa.opspec; immediates and embedded addresses symbolic) is decoded and abstractly executed by gbsa.x86 over ROBDD
bit vectors, starting from the documented register assignment (RAX=AF RBX=BC RDX=DE RCX=HL R12=SP R13=IP R14=status
R15=cycles).  Every interpreter path (condition K) is compared with the machine state the emitted code reaches under
K: guest registers (all 32 bits of EAX/EBX/EDX/ECX as the epilogue stores them; SP/IP/cycles modulo 2^16 as it stores
16 bits), the ordered bus accesses made through the embedded helper addresses, and the host stack depth.
"""
from . import opspec as osp, x86
from .bdd import BDD, BV, TermBV, Unsupported
from .valsem import sym_known, eval_bv, show_witness, expand_bus

HELPERS = ('mem::memory_read_byte', 'mem::memory_write_byte', 'mem::memory_read_word', 'mem::memory_write_word',
           'mem::memory_push_word')
GUEST = {'af': 0, 'bc': 3, 'de': 2, 'hl': 1}       # field -> host register number (rax rbx rdx rcx)


class Result:
    def __init__(self):
        self.findings = []
        self.undecided = None
        self.cases = 0
        self.nodes = 0
        self.insns = 0


def check_case(sp, enc, label, er, cons, word_shapes, cy):
    res = Result()
    b = osp.OpSpec.emitted_bytes(er)
    n = (max(b) + 1) if b else 0
    code = [b.get(i) for i in range(n)]
    m = BDD()
    conv = TermBV(m, sym_known)
    try:
        paths = sp.interp(enc, cons, label)
        for r in paths:
            K = 1
            for kind, t, v in r.state.env.log:
                if not (isinstance(t, tuple) and t and t[0] in ('c', 's', 'o') and t[1]):
                    raise Unsupported('assumption on a non-integer term')
                e = conv(t).eq(v)
                K = m.AND(K, e if kind == 'eq' else m.NOT(e))
                if K == 0:
                    break
            if K == 0 or r.status != 'ok':
                continue        # diverging interpreter paths are C06's business
            stack = [K]
            while stack:
                k = stack.pop()
                try:
                    compare(res, m, conv, enc, r, k, code, word_shapes, cy)
                    res.cases += 1
                except x86.Split as s:
                    for part in (m.AND(k, s.c), m.AND(k, m.NOT(s.c))):
                        if part != 0:
                            stack.append(part)
    except Unsupported as e:
        res.undecided = 'outside the modelled fragment: %s' % e.why
    ext = sorted(nm for nm in m.rank if nm.startswith('ext:') or nm.startswith('indirect_ret'))
    if ext and res.findings:
        res.undecided = 'depends on the result of unmodelled function(s) %s' % ', '.join(ext)
        res.findings = []
    res.nodes = len(m.node)
    return res


def compare(res, m, conv, enc, r, K, code, word_shapes, cy):
    p = osp.summarise_interp(r)
    events = expand_bus(p, conv, word_shapes)
    reads = [e for e in events if e[0] == 'r']
    problems = []
    jit_events = []
    rd = {'i': 0}

    def bad(component, D, what, a=None, b=None):
        w = m.witness(D)
        w = {k_: v for k_, v in w.items() if not k_.startswith('undef:')}
        extra = ''
        if a is not None and b is not None:
            wf = m.witness(D)
            extra = ': emitted code %#x, interpreter %#x' % (eval_bv(m, a, wf), eval_bv(m, b, wf))
        problems.append((component, '%s%s for %s' % (what, extra, show_witness(w) or 'every input')))

    def decide(c):
        if m.AND(K, c) == 0:
            return False
        if m.AND(K, m.NOT(c)) == 0:
            return True
        for v in _support(m, c):
            if m.names[v][0].startswith('undef:'):
                problems.append(('host', 'a host branch depends on an architecturally undefined or clobbered value (%s)'
                                 % m.names[v][0].split('#')[0][6:]))
                break
        raise x86.Split(c)

    memptr = BV.sym(m, 'addr(emitter.mem)', 64)
    helper_bv = {h: BV.sym(m, 'fnaddr(%s)' % h, 64) for h in HELPERS}

    def call(mach, tgt, ins):
        which = None
        for h, bv in helper_bv.items():
            if tgt.same(bv):
                which = h
        if which is None:
            problems.append(('host', 'call at offset %d does not target a bus helper address' % ins.off))
            raise Unsupported('call to an unknown target')
        if not mach.r[7].same(memptr):
            problems.append(('bus', 'bus helper called with RDI different from the MemoryAreas pointer'))
        shape = word_shapes(which)
        addr = mach.r[6].trunc(16)
        if shape[0] == 'r':
            val = []
            got = {}
            for off, which_half in shape[2]:
                a = addr + off
                i = rd['i']
                rd['i'] += 1
                if i < len(reads):
                    v = reads[i][2]
                else:
                    v = mach.garbage(8, 'extra-read')
                jit_events.append(('r', a, v))
                got[which_half] = v
            if shape[1] == 8:
                lo = got['byte']
                mach.r[0] = BV(m, lo.b + mach.garbage(56, 'al-upper').b)
            else:
                w16 = got['lo'].concat_high(got['hi'])
                mach.r[0] = BV(m, w16.b + mach.garbage(48, 'ax-upper').b)
        else:
            v = mach.r[2]
            for off, which_half in shape[2]:
                byte = v.bits(0, 8) if which_half in ('byte', 'lo') else v.bits(8, 16)
                jit_events.append(('w', addr + off, byte))
            mach.r[0] = mach.garbage(64, 'clobbered:rax')

    mach = x86.Machine(m, {'conv': conv, 'decide': decide, 'call': call})
    entry = {f: conv(osp.entry_reg(f)) for f in ('af', 'bc', 'de', 'hl', 'sp', 'ip', 'cycles')}
    for f, rn in GUEST.items():
        mach.r[rn] = entry[f].zext(64)
    for f, rn in (('sp', 12), ('ip', 13), ('cycles', 15)):
        mach.r[rn] = BV(m, entry[f].b[:16] + mach.garbage(48, 'upper:' + x86.REG64[rn]).b)
    status_in = BV.sym(m, 'status_in', 64)
    mach.r[14] = status_in
    try:
        mach.run(code)
    except Unsupported:
        if mach.errors or problems:
            _flush(res, problems + [('host', e) for e in mach.errors])
            return
        raise
    res.insns = max(res.insns, len(mach.trace))
    for e in mach.errors:
        problems.append(('host', e))
    if mach.stack:
        problems.append(('host', 'host stack holds %d more slot(s) at the end of the instruction than at its start'
                         % len(mach.stack)))
    # guest registers
    for f, rn in GUEST.items():
        want = conv(p['regs'][f]).zext(64)
        got = mach.r[rn]
        D = m.AND(K, got.diff(want))
        if D != 0:
            comp = f.upper()
            if f == 'af':
                lo = m.AND(K, got.bits(0, 8).diff(want.bits(0, 8)))
                hi = m.AND(K, got.bits(8, 64).diff(want.bits(8, 64)))
                comp = 'F' if (lo != 0 and hi == 0) else ('A' if lo == 0 else 'AF')
            bad(comp, D, 'register %s differs' % comp, got, want)
    for f, rn in (('sp', 12), ('ip', 13)):
        want = conv(p['regs'][f]).trunc(16)
        got = mach.r[rn].trunc(16)
        D = m.AND(K, got.diff(want))
        if D != 0:
            bad(f.upper() if f == 'sp' else 'PC', D, '%s differs (mod 2^16)' % ('SP' if f == 'sp' else 'PC'), got, want)
    if p['cycles_extra'] is not None and cy is not None:
        want = entry['cycles'].trunc(16) + ((cy // 4 + p['cycles_extra']) & 0xffff)
        got = mach.r[15].trunc(16)
        D = m.AND(K, got.diff(want))
        if D != 0:
            bad('cycles', D, 'machine cycles differ (mod 2^16)', got - entry['cycles'].trunc(16),
                want - entry['cycles'].trunc(16))
    # bus
    if len(jit_events) != len(events):
        problems.append(('bus', 'emitted code performs %d byte accesses %s, the interpreter %d %s'
                         % (len(jit_events), ''.join(e[0] for e in jit_events), len(events), ''.join(e[0] for e in events))))
    else:
        for i, (je, ie) in enumerate(zip(jit_events, events)):
            if je[0] != ie[0]:
                problems.append(('bus', 'bus access #%d is a %s in emitted code and a %s in the interpreter'
                                 % (i + 1, je[0], ie[0])))
                break
            D = m.AND(K, je[1].diff(ie[1]))
            if D != 0:
                bad('bus', D, 'bus access #%d (%s) address differs' % (i + 1, je[0]), je[1], ie[1])
            if je[0] == 'w':
                D = m.AND(K, je[2].diff(ie[2]))
                if D != 0:
                    bad('bus', D, 'bus write #%d value differs' % (i + 1), je[2], ie[2])
    _flush(res, problems)


def _flush(res, problems):
    seen = set(c for c, _ in res.findings)
    for comp, msg in problems:
        if comp not in seen:
            seen.add(comp)
            res.findings.append((comp, msg))


def _support(m, f):
    seen = set()
    out = set()
    stack = [f]
    while stack:
        n = stack.pop()
        if n < 2 or n in seen:
            continue
        seen.add(n)
        v, lo, hi = m.node[n]
        out.add(v)
        stack.append(lo)
        stack.append(hi)
    return out


_RESULTS = {}
_CTXS = {}


def _work(enc):
    sp, shapes = _CTXS['w']
    out = []
    try:
        op, ln, cy = sp.decoded(enc)
        cases, badp = sp.emit_cases(enc)
    except Exception as e:       # absint.Abort and friends: undecided, never a verdict
        r = Result()
        r.undecided = 'specialisation failed: %s' % e
        return enc, [('', r)]
    for label, er, cons in cases:
        out.append((label, check_case(sp, enc, label, er, cons, shapes, cy)))
    if badp:
        r = Result()
        r.findings.append(('host', 'encode_op does not complete for some operand values: %s'
                           % [(x.status, str(x.detail)[:60]) for x in badp][:2]))
        out.append(('@diverge', r))
    return enc, out


def all_results(ctx):
    """{enc: [(case label, Result)]} for every defined encoding of the jit configuration (memoised; parallel)"""
    from . import sm83
    from .rules import c01
    if 'jit' in _RESULTS:
        return _RESULTS['jit']
    facts = ctx.facts('jit')
    sp = ctx.opspec('jit')
    cache = {}

    def shapes(h):
        if h not in cache:
            cache[h] = c01.helper_shape(facts, h)
        return cache[h]
    for h in HELPERS:
        if h in facts['functions']:
            shapes(h)
    encs = [e for e in osp.all_encodings() if sm83.TABLE[e]['mn'] != 'INVALID']
    _CTXS['w'] = (sp, shapes)
    import multiprocessing as mp
    import os
    out = {}
    nproc = min(int(os.environ.get('GBSA_PROCS', '1')), os.cpu_count() or 1)
    import gc
    gc.freeze()
    if nproc > 1 and os.environ.get('GBSA_SERIAL') != '1':
        with mp.get_context('fork').Pool(nproc) as pool:
            for enc, lst in pool.imap_unordered(_work, encs, chunksize=8):
                out[enc] = lst
    else:
        for enc in encs:
            out[enc] = _work(enc)[1]
    _RESULTS['jit'] = out
    return out


def apply_rule(ctx, chk, rid, want, file='src/emitter/x86_64.rs'):
    from . import sm83
    res = all_results(ctx)
    nodes = insns = 0
    for enc in sorted(res, key=lambda e: (e[0] or 0, e[1])):
        mn = sm83.TABLE[enc]['mn']
        for label, r in res[enc]:
            name = osp.enc_name(enc) + label
            nodes += r.nodes
            insns += r.insns
            if r.undecided:
                chk.error('%s %s (%s): value-level comparison undecided: %s' % (rid, name, mn, r.undecided))
                continue
            mine = [(c, msg) for c, msg in r.findings if want(c)]
            if mine:
                for c, msg in mine:
                    chk.fail(rid, '%s:%s' % (name, c), '%s: %s' % (mn, msg), file, None)
                chk.rules[rid]['instances'] -= len(mine) - 1
            else:
                chk.ok(rid, name, sample={'opcode': name, 'mnemonic': mn, 'cases': r.cases, 'x86_instructions': r.insns,
                                          'bdd_nodes': r.nodes} if enc[1] % 41 == 0 else None)
    chk.extra.setdefault('value_level', {})[rid] = {'encodings': len(res), 'bdd_nodes_total': nodes,
                                                   'x86_instructions_longest_paths_total': insns}


def suppress_subsumed(ctx, chk, rules):
    """see valsem.suppress_subsumed: a structural "could not establish" for an encoding whose emitted code is proved
    equal to the interpreter in every component is a limitation of the matcher, reported as information only"""
    res = all_results(ctx)
    clean = set()
    for enc, lst in res.items():
        if all((not r.undecided and not r.findings) for _, r in lst):
            clean.add(osp.enc_name(enc))
    keep = []
    for v in chk.violations:
        name = v['key'].split(':')[0].split('@')[0]
        if v['rule'] in rules and name in clean:
            chk.rules[v['rule']]['failures'] -= 1
            chk.info('%s %s: structural matcher could not establish the clause (%s) but the value-level comparison '
                     'proves the emitted code equal to the interpreter for this encoding; not reported'
                     % (v['rule'], v['key'], v['what'][:120]))
        else:
            keep.append(v)
    chk.violations[:] = keep


# ---------------------------------------------------------------------------------------------------------------
# the call frame: entry trampoline, block exit, exit trampoline

FIELDS = ('af', 'bc', 'de', 'hl', 'sp', 'ip', 'cycles')
HOSTREG = {'af': 0, 'bc': 3, 'de': 2, 'hl': 1, 'sp': 12, 'ip': 13, 'cycles': 15}
FULL32 = ('af', 'bc', 'de', 'hl')
CALLEE_SAVED = (3, 5, 12, 13, 14, 15)


def _fn_bytes(facts, fname, nargs):
    """bytes a code-writing function stores into its exec slice (abstract interpretation of the function)"""
    from . import absint
    from .terms import C, S
    ip = absint.Interp(facts, sym_facts=osp.reg_facts)
    st = ip.new_state()
    ex = ('slice', ('O', 'exec'), (), C(64, 0), S(64, 'len(exec)'))
    args = ([ip.arg_object(st, 'emitter')] if nargs == 2 else []) + [ex]
    rs = [r for r in ip.run(fname, args, st) if r.status == 'ok']
    if len(rs) != 1:
        raise Unsupported('%s has %d completing paths' % (fname, len(rs)))
    b = osp.OpSpec.emitted_bytes(rs[0])
    n = (max(b) + 1) if b else 0
    return [b.get(i) for i in range(n)]


def frame_check(ctx):
    """-> list of (component, message); empty when the frame is right.  Raises Unsupported when undecidable."""
    facts = ctx.facts('jit')
    adt = facts['adts'].get('cpu::Registers')
    if not adt:
        raise Unsupported('ADT cpu::Registers not found')
    offs = {f['name']: f['offset'] for f in adt['fields']}
    size = adt.get('size', 28)
    E = 'emitter::x86_64::Emitter::'
    pro = _fn_bytes(facts, E + 'write_prelude_function', 1)
    epi = _fn_bytes(facts, E + 'write_epilogue_function', 1)
    blk = _fn_bytes(facts, E + 'encode_epilogue', 2)
    if not blk:
        # built with vec![..]: take the constant array the vector is initialised from
        from .rules.c01 import const_array
        arr, _ = const_array(facts['functions'][E + 'encode_epilogue'])
        blk = list(arr or [])
    if not pro or not epi or not blk:
        raise Unsupported('trampoline bytes not found')
    m = BDD()
    conv = TermBV(m, sym_known)
    problems = []
    regsptr = BV.sym(m, 'arg:registers', 64)
    codeaddr = BV.sym(m, 'arg:block_address', 64)
    epiaddr = BV.sym(m, 'arg:epilogue_address', 64)
    mem = {f: BV.sym(m, 'field:' + f, 32) for f in FIELDS}
    stores = []

    def field_at(disp, sz):
        for f, o in offs.items():
            if o <= disp and disp + sz // 8 <= o + 4:
                return f, (disp - o) * 8
        return None, 0

    def load(mach, base, disp, sz):
        if not base.same(regsptr):
            raise Unsupported('load through a pointer other than the register-file argument')
        f, bo = field_at(disp, sz)
        if f is None:
            problems.append(('layout', 'load of %d bits at displacement %d does not lie inside one Registers field %s'
                             % (sz, disp, offs)))
            return mach.garbage(sz, 'stray-load')
        return mem[f].bits(bo, bo + sz)

    def store(mach, base, disp, sz, v):
        if not base.same(regsptr):
            problems.append(('layout', 'store through a pointer that is not the register-file argument'))
            return
        f, bo = field_at(disp, sz)
        if f is None:
            problems.append(('layout', 'store of %d bits at displacement %d does not lie inside one Registers field' % (sz, disp)))
            return
        old = mem[f]
        mem[f] = BV(m, old.b[:bo] + v.b + old.b[bo + sz:])
        stores.append(f)

    def decide(c):
        if c == 1:
            return True
        if c == 0:
            return False
        raise Unsupported('data-dependent branch in a trampoline')

    def call(mach, tgt, ins):
        raise Unsupported('call in a trampoline')
    hooks = {'conv': conv, 'decide': decide, 'call': call, 'load': load, 'store': store}
    mach = x86.Machine(m, hooks)
    entry = list(mach.r)
    mach.r[7], mach.r[6], mach.r[2] = regsptr, codeaddr, epiaddr
    entry[7], entry[6], entry[2] = regsptr, codeaddr, epiaddr
    # 1. entry trampoline
    mach.run(pro)
    if not mach.exit or mach.exit[0] != 'jmpr' or not mach.exit[1].same(codeaddr):
        problems.append(('chain', 'the entry trampoline does not end with a jump to the block address (second argument)'))
    entry_fields = dict(mem)
    for f in FIELDS:
        rn = HOSTREG[f]
        if f in FULL32:
            if not mach.r[rn].same(entry_fields[f].zext(64)):
                problems.append(('load:' + f, 'entry trampoline does not leave Registers.%s zero-extended in %s'
                                 % (f, x86.REG64[rn])))
        elif not mach.r[rn].trunc(16).same(entry_fields[f].trunc(16)):
            problems.append(('load:' + f, 'entry trampoline does not load the low 16 bits of Registers.%s into %s'
                             % (f, x86.REG64[rn])))
    if mach.r[14].const_value() != 0:
        problems.append(('status-init', 'R14 (status code) is not zero when the block starts'))
    depth = len(mach.stack)
    # 2. the block: guest registers take their final values, everything not callee-saved is clobbered
    final = {f: BV.sym(m, 'final:' + f, 64) for f in FIELDS}
    final['status'] = BV.sym(m, 'final:status', 64)
    for f in FIELDS:
        mach.r[HOSTREG[f]] = final[f]
    mach.r[14] = final['status']
    for rn in (6, 7, 8, 9, 10, 11, 5):
        mach.r[rn] = mach.garbage(64, 'block:' + x86.REG64[rn])
    mach.exit = None
    mach.run(blk)
    if not mach.exit or mach.exit[0] != 'jmpr' or not mach.exit[1].same(epiaddr):
        problems.append(('chain', 'the block exit does not jump to the exit trampoline (third argument saved by the entry '
                         'trampoline)'))
    # 3. exit trampoline
    mach.exit = None
    mach.run(epi)
    if not mach.exit or mach.exit[0] != 'ret':
        problems.append(('chain', 'the exit trampoline does not end with ret'))
    if mach.stack:
        problems.append(('stack', 'the exit trampoline returns with %d slot(s) still pushed (of %d pushed on entry)'
                         % (len(mach.stack), depth)))
    for f in FIELDS:
        want32 = final[f].trunc(32) if f in FULL32 else BV(m, final[f].b[:16] + entry_fields[f].b[16:32])
        if not mem[f].same(want32):
            problems.append(('store:' + f, 'exit trampoline does not store %s back to Registers.%s (%s bits)'
                             % (x86.REG64[HOSTREG[f]], f, 32 if f in FULL32 else 16)))
    if not mach.r[0].trunc(8).same(final['status'].trunc(8)):
        problems.append(('return', 'the value returned in AL is not the status code held in R14'))
    for rn in CALLEE_SAVED:
        if not mach.r[rn].same(entry[rn]):
            problems.append(('callee-saved', 'host register %s is not restored to its value at entry' % x86.REG64[rn]))
    for e in mach.errors:
        problems.append(('stack', e))
    for c, msg in list(problems):
        pass
    return problems, {'prologue_bytes': len(pro), 'block_exit_bytes': len(blk), 'epilogue_bytes': len(epi),
                      'x86_instructions': len(mach.trace), 'registers_size': size}


_FRAME = {}


def apply_frame_rule(ctx, chk, rid, want, file='src/emitter/x86_64.rs'):
    """components: load:<field> store:<field> status-init return callee-saved stack chain layout"""
    if 'r' not in _FRAME:
        try:
            _FRAME['r'] = frame_check(ctx)
        except Unsupported as e:
            _FRAME['r'] = e
    r = _FRAME['r']
    if isinstance(r, Unsupported):
        chk.error('%s: call frame outside the modelled fragment: %s' % (rid, r.why))
        return
    problems, info = r
    comps = ['load:' + f for f in FIELDS] + ['store:' + f for f in FIELDS] + ['status-init', 'return', 'callee-saved',
                                                                               'stack', 'chain', 'layout']
    for c in comps:
        if not want(c):
            continue
        mine = [msg for cc, msg in problems if cc == c]
        if mine:
            chk.fail(rid, 'frame:' + c, mine[0], file, None)
        else:
            chk.ok(rid, 'frame:' + c, sample=dict(info, component=c) if c in ('chain', 'load:cycles') else None)
