"""Composition-layer model of Emitter::encode_op for one encoding.

The emitted byte string and the ordered list of emit_* template instantiations
come from abstract interpretation of encode_op (gbsa.opspec); this module adds
the template effect table (what each emit_* template does to guest state, as a
function of its parameters) and derives per-outcome summaries comparable with
the interpreter's.
"""
from . import absint, terms as T
from .terms import C, S, O, fmt
from . import opspec as osp

EM = 'emitter::x86_64::'

# ---------------------------------------------------------------------------
# Template effect table. One entry per emit_* function that encode_* functions
# call.  Keys are def-path suffixes; values describe the effect class and which
# positional parameter (after removing the exec slice) plays which role.
#   kind        effect class
#   reads/writes  parameter indexes naming host registers (X86Reg8/16/64 enum values)
#   flags       per-bit effect on guest F (Z N H C): '-' keep, '0','1', '*' computed, 'm' = from mask parameter
#   bus         (helper, kind, width, addr source, value source) for templates that call a bus helper
TEMPLATES = {
    'emit_cycle_increment': {'kind': 'cycles', 'amount': 0},
    'emit_ip_increment': {'kind': 'ip_inc', 'amount': 0},
    'emit_jump': {'kind': 'ip_set', 'value': 0},
    'emit_jump_hl': {'kind': 'ip_hl'},
    'emit_ip_signed_offset': {'kind': 'ip_rel', 'value': 0},
    'emit_return_code': {'kind': 'status', 'value': 0},
    'emit_flag_test': {'kind': 'flagtest', 'mask': 0},
    'emit_jump_zero': {'kind': 'jcc', 'jcc': 'jz'},
    'emit_jump_nonzero': {'kind': 'jcc', 'jcc': 'jnz'},
    'emit_push_register': {'kind': 'hpush', 'reg': 0},
    'emit_pop_register': {'kind': 'hpop', 'reg': 0},
    # data movement / arithmetic on mapped registers
    'emit_move_16': {'kind': 'data', 'writes16': [0], 'flags': '----'},
    'emit_move_8': {'kind': 'data', 'writes8': [0], 'flags': '----'},
    'emit_reg_to_reg_move': {'kind': 'data', 'writes8': [0], 'reads8': [1], 'flags': '----'},
    'emit_add_register_8': {'kind': 'data', 'writes8': [0], 'reads8': [0, 1], 'flags': 'host'},
    'emit_add_register_8_with_carry': {'kind': 'data', 'writes8': [0], 'reads8': [0, 1], 'flags': 'host'},
    'emit_sub_register_8': {'kind': 'data', 'writes8': [0], 'reads8': [0, 1], 'flags': 'host'},
    'emit_sub_register_8_with_carry': {'kind': 'data', 'writes8': [0], 'reads8': [0, 1], 'flags': 'host'},
    'emit_and_register_8': {'kind': 'data', 'writes8': [0], 'reads8': [0, 1], 'flags': 'host'},
    'emit_or_register_8': {'kind': 'data', 'writes8': [0], 'reads8': [0, 1], 'flags': 'host'},
    'emit_xor_register_8': {'kind': 'data', 'writes8': [0], 'reads8': [0, 1], 'flags': 'host'},
    'emit_add_hl': {'kind': 'data', 'writes16f': ['CX'], 'reads16': [0], 'flags': 'host'},
    'emit_add_absolute_8': {'kind': 'data', 'writes8f': ['AH'], 'flags': 'host'},
    'emit_adc_absolute_8': {'kind': 'data', 'writes8f': ['AH'], 'flags': 'host'},
    'emit_sub_absolute_8': {'kind': 'data', 'writes8f': ['AH'], 'flags': 'host'},
    'emit_sbc_absolute_8': {'kind': 'data', 'writes8f': ['AH'], 'flags': 'host'},
    'emit_and_absolute_8': {'kind': 'data', 'writes8f': ['AH'], 'flags': 'host'},
    'emit_xor_absolute_8': {'kind': 'data', 'writes8f': ['AH'], 'flags': 'host'},
    'emit_or_absolute_8': {'kind': 'data', 'writes8f': ['AH'], 'flags': 'host'},
    'emit_compare': {'kind': 'data', 'reads8': [0], 'flags': 'host'},
    'emit_cmp_absolute_8': {'kind': 'data', 'flags': 'host'},
    'emit_increment_8': {'kind': 'data', 'writes8': [0], 'reads8': [0], 'flags': 'host'},
    'emit_decrement_8': {'kind': 'data', 'writes8': [0], 'reads8': [0], 'flags': 'host'},
    'emit_increment_16': {'kind': 'data', 'writes16': [0], 'flags': '----'},
    'emit_decrement_16': {'kind': 'data', 'writes16': [0], 'flags': '----'},
    'emit_rotate_left_through_carry': {'kind': 'data', 'writes8': [0], 'reads8': [0], 'flags': 'host'},
    'emit_rotate_left': {'kind': 'data', 'writes8': [0], 'reads8': [0], 'flags': 'host'},
    'emit_rotate_right_through_carry': {'kind': 'data', 'writes8': [0], 'reads8': [0], 'flags': 'host'},
    'emit_rotate_right': {'kind': 'data', 'writes8': [0], 'reads8': [0], 'flags': 'host'},
    'emit_shift_left': {'kind': 'data', 'writes8': [0], 'reads8': [0], 'flags': 'host'},
    'emit_shift_right': {'kind': 'data', 'writes8': [0], 'reads8': [0], 'flags': 'host'},
    'emit_shift_right_logical': {'kind': 'data', 'writes8': [0], 'reads8': [0], 'flags': 'host'},
    'emit_swap': {'kind': 'data', 'writes8': [0], 'reads8': [0], 'flags': 'host'},
    'emit_complement_a': {'kind': 'data', 'writes8f': ['AH'], 'flags': '----'},
    'emit_register_or': {'kind': 'data', 'writes8': [0], 'reads8': [0], 'flags': 'host'},
    'emit_register_and': {'kind': 'data', 'writes8': [0], 'reads8': [0], 'flags': 'host'},
    'emit_sp_signed_offset': {'kind': 'data', 'writes16f': ['R12'], 'flags': 'host'},
    'emit_load_to_sp': {'kind': 'data', 'writes16f': ['R12'], 'reads16f': ['CX'], 'flags': '----'},
    'emit_load_stack_offset': {'kind': 'data', 'writes16f': ['CX'], 'reads16f': ['R12'], 'flags': 'host'},
    # guest flag register (AL) manipulation
    'emit_store_flags': {'kind': 'flags', 'fn': 'store'},        # (mask, negative)
    'emit_force_flags_off': {'kind': 'flags', 'fn': 'off'},      # (flags)
    'emit_force_flags_on': {'kind': 'flags', 'fn': 'on'},        # (flags)
    'emit_zero_flag_test': {'kind': 'flags', 'fn': 'ztest', 'reads8': [0]},   # Z |= (reg == 0)
    'emit_bit_test': {'kind': 'flags', 'fn': 'bittest', 'reads8': [0]},       # Z computed, N=0, H=1, C kept
    'emit_complement_carry': {'kind': 'flags', 'fn': 'ccf'},
    'emit_restore_carry': {'kind': 'flags', 'fn': 'restore_carry'},  # clobbers AL except it is rewritten by a later full store
    'emit_daa': {'kind': 'flags', 'fn': 'daa', 'writes8f': ['AH']},
    # bus templates
    'emit_memory_read': {'kind': 'bus', 'helper': 'mem::memory_read_byte', 'rw': 'r', 'width': 8,
                         'addr': ('reg16', 1), 'dest8': 2},
    'emit_memory_write': {'kind': 'bus', 'helper': 'mem::memory_write_byte', 'rw': 'w', 'width': 8,
                          'addr': ('reg16', 1), 'value': ('reg8', 2)},
    'emit_memory_write_literal': {'kind': 'bus', 'helper': 'mem::memory_write_byte', 'rw': 'w', 'width': 8,
                                  'addr': ('reg16', 1), 'value': ('imm', 2)},
    'emit_write_stack_to_memory': {'kind': 'bus', 'helper': 'mem::memory_write_word', 'rw': 'w', 'width': 16,
                                   'addr': ('imm', 1), 'value': ('fixed16', 'R12')},
    'emit_write_a_to_memory': {'kind': 'bus', 'helper': 'mem::memory_write_byte', 'rw': 'w', 'width': 8,
                               'addr': ('imm', 1), 'value': ('fixed8', 'AH')},
    'emit_read_a_from_memory': {'kind': 'bus', 'helper': 'mem::memory_read_byte', 'rw': 'r', 'width': 8,
                                'addr': ('imm', 1), 'dest8f': 'AH'},
    'emit_load_to_high_mem': {'kind': 'bus', 'helper': 'mem::memory_write_byte', 'rw': 'w', 'width': 8,
                              'addr': ('himem',), 'value': ('fixed8', 'AH')},
    'emit_load_from_high_mem': {'kind': 'bus', 'helper': 'mem::memory_read_byte', 'rw': 'r', 'width': 8,
                                'addr': ('himem',), 'dest8f': 'AH'},
    'emit_push': {'kind': 'bus', 'helper': 'mem::memory_write_word', 'rw': 'w', 'width': 16,
                  'addr': ('sp', -2), 'value': ('reg16', 0), 'sp_delta': -2},
    'emit_pop': {'kind': 'bus', 'helper': 'mem::memory_read_word', 'rw': 'r', 'width': 16,
                 'addr': ('sp', 0), 'dest16': 0, 'sp_delta': 2},
    'emit_hl_indirect_partial_read': {'kind': 'bus', 'helper': 'mem::memory_read_byte', 'rw': 'r', 'width': 8,
                                      'addr': ('fixed16', 'CX'), 'dest8f': 'DL*', 'hstack': +3},
    'emit_hl_indirect_partial_write': {'kind': 'bus', 'helper': 'mem::memory_write_byte', 'rw': 'w', 'width': 8,
                                       'addr': ('fixed16', 'CX'), 'value': ('fixed8', 'DL*'), 'hstack': -3},
    'emit_hl_indirect_read': {'kind': 'bus', 'helper': 'mem::memory_read_byte', 'rw': 'r', 'width': 8,
                              'addr': ('fixed16', 'CX'), 'dest8f': 'DL*'},
}
# helper-only functions that templates call internally (never called from encode_* directly)
INTERNAL = {'emit_immediate_u16'}


def enum_name(v):
    if v is not None and v[0] == 'agg' and v[1][0] == 'adt':
        return v[1][3]
    return None


class RegMaps:
    """map_register_8 / map_register_16 / map_indirect_location_to_register extracted from the code."""

    def __init__(self, facts):
        ip = absint.Interp(facts)
        adts = facts['adts']

        def table(fn, enum):
            out = {}
            for vi, v in enumerate(adts[enum]['variants']):
                arg = ('agg', ('adt', enum, vi, v['name']), ())
                rs = ip.run(fn, [arg])
                names = set(enum_name(r.ret) for r in rs if r.status == 'ok')
                out[v['name']] = names.pop() if len(names) == 1 else None
            return out
        self.r8 = table(EM + 'map_register_8', 'decoder::ops::Register8')
        self.r16 = table(EM + 'map_register_16', 'decoder::ops::Register16')
        self.ind = table(EM + 'map_indirect_location_to_register', 'decoder::ops::IndirectLocation')
        self.inv8 = {v: k for k, v in self.r8.items()}
        self.inv16 = {v: k for k, v in self.r16.items()}
        self.inv16['R13'] = 'IP'

    DOCUMENTED_8 = {'A': 'AH', 'B': 'BH', 'C': 'BL', 'D': 'DH', 'E': 'DL', 'H': 'CH', 'L': 'CL'}
    DOCUMENTED_16 = {'AF': 'AX', 'BC': 'BX', 'DE': 'DX', 'HL': 'CX', 'SP': 'R12'}
    DOCUMENTED_IND = {'BC': 'BX', 'DE': 'DX', 'HL': 'CX', 'HLIncrement': 'CX', 'HLDecrement': 'CX'}


def top_level_emits(result):
    out = []
    for e in result.state.events:
        if e[0] == 'emit' and 'Emitter::' in e[4][0]:
            out.append({'name': e[1], 'args': e[2], 'off': e[3], 'site': e[4]})
    return out


def summarise_emit(result, regmaps):
    """Summary of the emitted code for one encoding; raises Abort on unknown templates (fail closed)."""
    total = result.ret[2] if result.ret is not None and result.ret[0] == 'c' else None
    if total is None:
        raise absint.Abort('emitted length is not a constant')
    temps = top_level_emits(result)
    bytes_ = osp.OpSpec.emitted_bytes(result)
    for i, t in enumerate(temps):
        if t['off'] is None:
            raise absint.Abort('template %s at unknown offset' % t['name'])
        nxt = temps[i + 1]['off'] if i + 1 < len(temps) else total
        t['size'] = nxt - t['off']
        if t['name'] not in TEMPLATES:
            raise absint.Abort('emit template %s is not in the effect table' % t['name'])
        t['spec'] = TEMPLATES[t['name']]
    # host conditional branch and its span
    span = None
    pending_test = None
    for t in temps:
        k = t['spec']['kind']
        if k == 'flagtest':
            pending_test = t
        elif k == 'jcc':
            if span is not None:
                raise absint.Abort('more than one host conditional branch in one instruction')
            dispb = bytes_.get(t['off'] + 1)
            if dispb is None or dispb[0] != 'c':
                raise absint.Abort('host branch displacement is not a constant')
            disp = dispb[2]
            if disp >= 0x80:
                raise absint.Abort('backward host branch')
            if pending_test is None:
                raise absint.Abort('host conditional branch without a preceding flag test')
            m = pending_test['args'][0]
            span = {'start': t['off'] + t['size'], 'end': t['off'] + t['size'] + disp, 'jcc': t['spec']['jcc'],
                    'mask': m[2] if m[0] == 'c' else None, 'disp': disp, 'test_off': pending_test['off'],
                    'jcc_off': t['off']}
            # test al,m ; jz skips when (al & m) == 0  => span runs when flag set
            span['runs_when_set'] = (span['jcc'] == 'jz')
    for t in temps:
        t['in_span'] = bool(span and span['start'] <= t['off'] < span['end'])
    return {'total': total, 'templates': temps, 'span': span, 'bytes': bytes_}


def emitted_cycles(summ):
    base = extra = 0
    bad = []
    for t in summ['templates']:
        if t['spec']['kind'] == 'cycles':
            a = t['args'][0]
            if a[0] != 'c':
                bad.append(t)
                continue
            if t['in_span']:
                extra += a[2]
            else:
                base += a[2]
    return base, extra, bad


def fn_addr_refs(summ):
    """ordered list of (offset, helper path) for every 8-byte function address embedded in the emitted code"""
    out = []
    b = summ['bytes']
    i = 0
    n = summ['total']
    while i < n:
        t = b.get(i)
        h = _fnaddr_of(t)
        if h is not None:
            # expect 8 consecutive bytes of the same address
            ok = all(_fnaddr_of(b.get(i + k)) == h for k in range(8))
            out.append((i, h, ok))
            i += 8
        else:
            i += 1
    return out


def _fnaddr_of(t):
    if t is None or t[0] == 'c':
        return None
    # search the term for a symbol with meta ('fnaddr', path)
    stack = [t]
    while stack:
        x = stack.pop()
        if not isinstance(x, tuple):
            continue
        if x and x[0] == 's':
            if x[3] and x[3][0] == 'fnaddr':
                return x[3][1]
            continue
        if x and x[0] == 'o':
            stack.extend(x[3:])
    return None
