#!/bin/sh
# Build the framework from files on disk only (offline).
set -e
cd "$(dirname "$0")"
export CARGO_NET_OFFLINE=true
( cd tools/mirfacts && cargo +nightly build --offline --release )
# warm the dependency builds and the fact cache for both configurations
python3 gbsa/facts.py default jit
