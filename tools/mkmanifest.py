#!/usr/bin/env python3
"""Regenerate MANIFEST.json from the table below and validate it against the schema."""
import json, os, sys
HERE = os.path.dirname(os.path.dirname(os.path.abspath(__file__)))

TB = ('Trusted base: rustc MIR construction and layout; tools/mirfacts exporter; gbsa.absint transfer functions '
      '(intervals x known-bits, self-tested against Python integers); reference tables in gbsa/. ')

VL = (' Value-level rules use a bit-precise relational abstract domain (one canonical ROBDD per bit of every value, '
      'gbsa/bdd.py): summaries are constructed from the MIR terms / the emitted x86-64 bytes / the reference semantics and '
      'compared as canonical forms; nothing is executed or searched; leaving the modelled fragment is ANALYSIS-ERROR, '
      'never a verdict.')

FUNCTION_RULES = {
    'C03': 'can_dynarec accepts ROM only; cache key injective (two-copy comparison)',
    'C04': 'engine selection; loop-exit predicates of both engines equal as Boolean functions',
    'C07': 'vector and cleared IF bit as functions of the pending set sampled between the pushes',
    'C09': 'inherits the dispatch paths of C07',
    'C10': 'I/O read-back masks; bank index injectivity and stride through affine forms',
    'C12': 'register -> bank functions of MBC1/MBC3; reduction to the cartridge size is the identity on existing banks',
    'C13': 'TAC write (mask table, enable, glitch) and catch-up loop step as functions of divider / mask / TAC',
    'C14': 'STAT register composition',
    'C17': 'interrupt latch condition as a function of the input lines before / after',
    'C19': 'header checksum formula over the 25 covered bytes',
}
THOROUGH = (' Thorough tier: facts regenerated from scratch, then the checker is validated on scratch copies of the current '
            'tree: every seeded change / reverted fix listed for this property must be reported (exit 1, VIOLATION of the named '
            'rule) and every behaviour-preserving rewrite must pass, otherwise the verdict is withheld (ANALYSIS-ERROR).')

CHECKS = {
 'C04': dict(
    technique='cross-configuration comparison of step tails, engine selection by address, loop-exit relation of both engines',
    text='Does NOT decide the whole-program statement (runtime behaviour); it is reduced to C01, C02, C03 plus three '
         'necessary structural clauses that are decided: for every status code both build configurations perform the same '
         'effects after the engine returns; the jit build selects translated code for ROM addresses only and otherwise the same '
         'interpreter entry point; both engines end blocks on is_block_end of the decoder output and their loop-exit '
         'predicates are the same Boolean function of (terminator, block start, next address) on the translator domain '
         '(bit-precise comparison; the translator function is read off two consecutive iterations from the summarised loop '
         'state, so it does not depend on how the loop is written).  C04.4 additionally runs the value-level comparison '
         'of C01.10 / C02.4 (emitted x86 code vs interpreter, every encoding) so that this check stands on its own.',
    note=TB + 'Inherits the limits of C01-C03; per-step equality of device state is not claimed.',
    ref='DESIGN.md#c04'),
 'C13': dict(
    technique='abstract interpretation of the Timer methods; one symbolic iteration of the catch-up loop (field-sensitive loop havoc)',
    text='Decides the structure that makes DIV/TIMA right: rate table (TAC&3 -> bit 9/3/5/7), DIV = bits 8-15, reset on write, '
         'overflow reload + request, the falling-edge firing condition of the +1 step and of a TAC write (from path '
         'conditions), and batching invariance by loop uniformity (remaining count only in guard/decrement, OR-accumulated '
         'requests, final mask commutes, disabled fast path equivalent; a watched level carried from tick to tick is accepted '
         'when it is proved equal to divider & mask by induction over the iteration paths), and that the request a TAC write produces is merged into IF by '
         'IO::set_byte. Exact counter values for a given history are '
         'runtime arithmetic and are not decided.',
    note=TB + 'u32 cycle counter does not overflow within one batch.',
    ref='DESIGN.md#c13'),
 'C14': dict(
    technique='abstract fixpoint of the (mode, LY, dots) schedule machine from per-mode symbolic loop iterations',
    text='Decides: the abstract reachable set from VideoState::new has modes 2/3/0 only on lines 0-143 and mode 1 only on '
         '144-153; every mode exit tests and subtracts the same K with K2+K3+K0 = K1 = 456, LY changes only at exits and '
         'wraps only from 153, hence a 70224-clock frame; VBlank is requested exactly on the step that makes LY 144 with '
         'the buffer swap; every mode entry tests its STAT enable and every LY change / LYC write / STAT write compares LY '
         'with LYC; every STAT request is justified by a mode entered or an LY == LYC reached in that very step (no repeats); the '
         'requests of STAT / LYC writes reach IF; the request accumulator keeps earlier requests on every iteration path; STAT '
         'register composition; uniform 4-clock steps independent of batching, and mode / line / dots change nowhere but in '
         'those steps (no shortcut path in front of or behind the catch-up loop).',
    note=TB + 'Delivered clock counts are multiples of 4 (C09.6). Pixel output is C15 (not applicable).',
    ref='DESIGN.md#c14'),
 'C16': dict(
    technique='bus-model extraction + symbolic loop iteration + paired-counter lemma + assert discharge',
    text='Decides: a transfer is armed only by the 0xff46 write with source = value<<8 and offset 0, whatever the state before '
         '(a write during a transfer restarts it); the copy loop is understood in three forms (count-down of bytes remaining, '
         'count-up of the offset to a computed end, progress kept in the transfer state with a machine-cycle budget), any other '
         'shape is no verdict; each step reads '
         'source+offset through the bus and writes that byte to 0xfe00+offset; offset <= 0x9f inside the loop by the '
         'paired-counter lemma (offset + remaining invariant, remaining0 = min(0xa0-offset0, clocks/4), saved offset <= '
         '0x9f by field invariant), so only OAM is written, and every path of a bus write to 0xfe00-0xfe9f performs the store; retire exactly at 0xa0, otherwise saved with progress; DMA '
         'before device tick; no assert in the DMA part can fail; the device tick IO::run_clock_cycles is called only from '
         'MemoryAreas::run_clock_cycles, in both configurations, so no step advances time without advancing the transfer.',
    note=TB + 'Clock counts multiples of 4 (C09.6); 0xfe00-0xfe9f is OAM (C10). Equality with a reference for sources '
         'modified mid-transfer follows on paper from rules 3-5.',
    ref='DESIGN.md#c16'),
 'C17': dict(
    technique='per-button abstract interpretation, path enumeration of get_value with known-bit evaluation, guard evaluation under line-fall assumptions',
    text='Decides: press/release map every button to the hardware matrix bit; selection polarity; P1 reads 0 on a line '
         'exactly when a selected group has it pressed and echoes the select bits (per selection combination, per line); '
         'the latch guard holds whenever some line falls while the others change arbitrarily (selection change) or alone '
         '(button press) and not when no line can have fallen - decided with get_value as the real function of the state before / '
         'after the operation, bit-precisely; read-and-clear once per tick; routing (offset 0 and only it: every write path '
         'hands the written byte to set_value, every read path returns get_value). The full 256x4x20 '
         'transition relation itself is runtime data.',
    note=TB,
    ref='DESIGN.md#c17'),
 'C19': dict(
    technique='layout facts, structural scan, affine form of the unrolled checksum loop, dominance on load_rom paths, exhaustive table evaluation, taint',
    text='Decides: header layout and read_header protocol (on the paths of read_header: seek to Start(0x100), read exactly '
         'size_of::<Header>() bytes, Ok only when both succeeded and the position is 0x100); the mapping failure value is tested '
         'before the region is used; the checksum is x = x - byte - 1 over exactly 0x34..=0x4c compared '
         'with the byte at 0x4d; Core::from_rom_file is reached only when valid_checksum is true and every accepting path '
         'implies file length >= declared ROM size (proved bit-precisely with the size table evaluated on the path, however '
         'the comparison is written); size tables equal the cartridge tables for all 256 codes; unsupported '
         'types diverge at load; no unchecked reinterpretation of header bytes.',
    note=TB + 'std File/Read/Seek/metadata behave per contract.',
    ref='DESIGN.md#c19'),
 'C20': dict(
    technique='panic reachability over the call graph, def-use through pure models of std string functions, symbolic loop iteration of the disassembler',
    text='Decides: no assert/panic/unwrap reachable from the three parsing functions; the unsafe get_unchecked(2..) is guarded '
         'by starts_with("0x"); command literals are lower case and the compared word flows from '
         'split_whitespace -> trim -> to_lowercase; the disassembler advances cursor and address by the length of the '
         'decode call whose slice starts at the cursor (a relation between two consecutive iterations: decode#2 gets '
         'input[start#1 + length#1 ..], address#2 = address#1 + length#1, the slice runs to the end, exit only when nothing is '
         'left - cursor or remaining-slice style alike), and its 4-byte buffer covers the maximum decoder length; for each of '
         'the 511 encodings decode() completes on a slice that ends exactly at the end of the instruction (it reads only '
         'the bytes it claims). Numeric parsing correctness rests on the std contracts of from_str_radix / parse::<u16> '
         '(necessary-condition rule).',
    note=TB + 'Disassembly precondition from the property: the input ends on an instruction boundary.',
    ref='DESIGN.md#c20'),
 'C03': dict(
    technique='def-use / control-dependence analysis of the cache key through the resolved call graph (closures followed), jit configuration',
    text='Decides tag coherence: for every PC in the switchable ROM window and every controller type, the bank component '
         'of the key used by BTreeMap::get (lookup) and BTreeMap::insert (translation) depends - by data or control '
         'dependence within the same run_code_block activation - on the bank the controller maps now; lookup and insert '
         'use the same injective key; translation reads the same bytes the interpreter fetches; only ROM is cached and '
         'only under the can_dynarec guard (accepted set is a subset of 0..0x7fff, decided bit-precisely); a block does not extend past the region its key belongs to; the address handed to CodeCache::call is, on every path, the result of the lookup or translation made in the same step (no remembered address in front of the tagged cache). The "any '
         'history" quantifier is discharged structurally: the key either depends on the live bank on every path or not.',
    note=TB + 'BTreeMap get/insert keyed by the passed u32 (std contract). Loops summarised by field-sensitive havoc.',
    ref='DESIGN.md#c03'),
 'C07': dict(
    technique='exhaustive path enumeration of Core::handle_interrupt with known-bits path conditions',
    text='Decides for all IF/IE values, master-enable states and stack pointers: run_state := Run is stored exactly when '
         '(IF & IE) != 0 on entry (value level) and before any IME test; no effect '
         'but run_state when IME is off; the dispatch path clears IME, pushes PC high then low at SP-1/SP-2 (mod 2^16, SP '
         'stays 16-bit), re-samples the pending set between the pushes (bus write modelled as a field-sensitive havoc of '
         'MemoryAreas), charges 5 cycles; the priority ladder and cleared bit per vector (known bits of the re-sampled '
         'set on each path), the cancelled case; IF/IE are 5-bit by field invariant; handle_interrupt is the last effect '
         'of every step function (interprocedural cut) and is called only from the step functions and their private helpers. '
         'Both configurations.',
    note=TB + 'Registers.cycles assumed far below 2^32 (drained every step).',
    ref='DESIGN.md#c07'),
 'C08': dict(
    technique='extraction of the complete one-step (IME x status) transition relation of Core::run_interp',
    text='Decides the EI-delay / DI / RETI / HALT / STOP behaviour for all instruction sequences by extracting the '
         'complete transition relation (3 IME states x 7 status classes) of the instruction-stepping function and '
         'comparing it with the reference relation; plus: status constants distinct, only handle_interrupt loads vectors '
         'or clears IF, the suspended arm of update ticks exactly 4 clocks and executes nothing, run_state := Run only in '
         'handle_interrupt/constructors and exactly when an enabled request is pending (C08.7), EI/DI/RETI/HALT/STOP reach the '
         'step function with their own status codes (C08.6), no fetchable range yields an empty slice.',
    note=TB + 'A sequence property of a finite deterministic machine holds for all sequences iff it holds for the relation.',
    ref='DESIGN.md#c08'),
 'C09': dict(
    technique='must-pass-through + def-use on the step functions, fan-out and who-may-call analysis, per-opcode congruence',
    text='Decides: clocks delivered = 4 x machine cycles consumed, exactly once per completing path of every step '
         'function, before handle_interrupt, in both configurations; every path of handle_interrupt that dispatches adds exactly '
         '5 machine cycles and every other path none; the same count is handed unchanged to IO, timer and '
         'LCD; device ticks have no other callers; every instruction charges a positive multiple of 4 clocks in both '
         'engines and every delivered count is a multiple of 4. run_frame termination is NOT decided (premises only).',
    note=TB + 'Liveness of run_frame argued on paper from rules 2, 6 and C14.',
    ref='DESIGN.md#c09'),
 'C10': dict(
    technique='address-ladder partition extraction by path-sensitive abstract interpretation (intervals, known bits, affine equality)',
    text='Decides over all 65536 addresses (by intervals), for every controller type: the read and write ladders '
         'partition the address space exactly at the hardware region bounds with the documented handler per region; '
         'read and write of every RAM region address the same cell; index functions are injective per region and '
         'regions sharing a buffer have disjoint index sets (single-address exceptions included); consecutive banks of a banked '
         'region are further apart than the largest in-bank offset; no store to ROM is '
         'reachable through the bus; the fetch view equals the data view in ROM / work RAM / high RAM; unmapped regions '
         'read constant and ignore writes; each readable I/O register returns its defined writable bits after a write '
         '(set_byte then get_byte on the resulting abstract state).',
    note=TB + 'Uses field invariants vram_bank = 0, wram_bank = 1 and MBC register ranges (joined over every store in '
         'the crate). Buffer bounds are C11, controller semantics C12.',
    ref='DESIGN.md#c10'),
 'C11': dict(
    technique='panic-obligation discharge by abstract interpretation per header configuration (216 configurations enumerated from the code)',
    text='Decides panic freedom of the bus helpers: every bounds / overflow / division assert and panicking call '
         'reachable from memory_read_byte / memory_write_byte (devices and controller methods inlined) and the word '
         'helpers is an obligation, discharged for every (controller type, ROM bank count, RAM size) that '
         'create_cart_state / the size tables can produce - the configuration space is extracted from the code by '
         'constant propagation over all 256 values of each header byte; and that a file is accepted only if every accepting '
         'path of load_rom implies file length >= the size its header declares, so that no mapped page of the ROM is '
         'unbacked (clause C19.5, evaluated here as well).',
    note=TB + 'Overflow asserts as in the dev/test profile. Null/misalignment checks inserted by rustc on references are '
         'skipped. create_buffer(n) has length n (structurally checked). std stdout write/flush return Result.',
    ref='DESIGN.md#c11'),
 'C12': dict(
    technique='abstract interpretation of every CartState impl: per-write register update table + register->bank function',
    text='Decides: write_rom partitions 0x0000-0x7fff into the four register windows, each storing value & mask into '
         'its own register only (ROM-only: nothing); get_rom_bank never yields 0 on any path; MBC1 mode-0 bank = '
         '(ram_bank<<5)|low and RAM bank = ram_bank iff mode 1; bank-derived indices are inside the buffers at all '
         'four use sites for all 216 header configurations; bank 0 is fixed at 0x0000-0x3fff; the two header tables '
         'agree on controller families. Because each register is overwritten by a write, the per-write table decides '
         'all write histories; every ROM-area write path of memory_write_byte calls the controller\'s write_rom (no size- or '
         'state-dependent shortcut drops register writes).',
    note=TB + 'RAM-enable gating is outside the statement. In MBC1 mode 1 both conventions for the upper ROM bank bits '
         'are accepted.',
    ref='DESIGN.md#c12'),
 'C01': dict(
    technique='per-opcode abstract interpretation of Emitter::encode_op (template sequence + exact emitted bytes); abstract execution of the emitted x86-64 bytes and of the trampolines over a bit-precise relational domain (ROBDD per bit), compared with the interpreter path summaries',
    text='Decides, for all 500 defined encodings and both outcomes of conditional forms, agreement between the '
         'composition layer of the emitter and the interpreter: PC effect, status class, bus accesses (kind, address, '
         'value, order; helper byte order derived from the helper bodies; helper identity taken from the embedded '
         'function address), host stack discipline, host branch displacement and polarity, register-file layout vs '
         'prologue/epilogue displacements, exhaustiveness; and checks the necessary conditions that written guest '
         'registers and per-bit flag effect classes agree. Value level (rule C01.10): the exact emitted x86-64 bytes of every '
         'encoding, abstractly executed from the documented register assignment, leave every bit of EAX/EBX/EDX/ECX, SP and PC '
         '(mod 2^16) equal to the interpreter for every operand, perform the same byte accesses through the embedded helper '
         'addresses, keep the host stack balanced and never branch on an undefined value; rule C01.11: every slice the '
         'translator hands to decode() is at least as long as the longest instruction; rule C01.12: entry trampoline, block '
         'exit and exit trampoline load/store every Registers field, return R14 and restore callee-saved registers; rule '
         'C01.13: both engines cut a block at the same instruction (same terminators, same region ends - a fixed-bank '
         'block never runs on into the switchable bank).',
    note=TB + 'Template effect table in gbsa/emitmodel.py (fails closed on unknown templates). gbsa/x86.py (decoder + '
         'transfer functions for the instruction subset the emitter uses; SDM semantics and the sysv64 ABI are trusted; '
         'anything outside the subset is ANALYSIS-ERROR). PC is compared modulo 2^16.' + VL,
    ref='DESIGN.md#c01'),
 'C05': dict(
    technique='per-opcode abstract interpretation of run_op: decode table, bit provenance of F, interval/known-bit bounds; value-level comparison of every interpreter path with SM83 reference semantics over a bit-precise relational domain (ROBDD per bit)',
    text='Decides for all 500 defined encodings: decoder output equals the x/y/z reference (variant, registers, '
         'immediates, bit masks); register pairs stay within 16 bits and the low nibble of F stays zero at every exit. '
         'Necessary conditions checked: per-bit flag effect classes equal the SM83 flag column, written registers / '
         'sources are the architectural ones (pure moves bit-exact), carry and half-carry decisions depend on every '
         'operand bit they must depend on. Value level (C05.7): for every defined encoding and interpreter path, every bit of '
         'A, F, BC, DE, HL (and SP / bus addresses and bytes of data instructions) is the same function of the input bits as '
         'in the SM83 reference semantics (gbsa/sm83sem.py), for all operand, register and flag values at once, including '
         'DAA, rotates through carry, 16-bit adds, SP+e8 and POP AF; a difference is reported with a concrete operand.',
    note=TB + 'Entry invariant (16-bit pairs, F low nibble zero) is the invariant rules 4/5 re-establish. The reference '
         'semantics in gbsa/sm83sem.py is trusted.' + VL,
    ref='DESIGN.md#c05'),
 'C02': dict(
    technique='per-opcode abstract interpretation of interpreter and emitter; cycle-constant agreement per outcome; abstract execution of the emitted x86-64 bytes (R15W delta) over a bit-precise relational domain',
    text='Decides, for each of the 500 defined encodings and both outcomes of the 16 conditional forms (516 cases), '
         'that the machine cycles the emitted code adds to R15 equal the cycles the interpreter adds '
         '(decoder clocks/4 + taken extras), that clock counts are multiples of 4, that increments fit imm8, and that '
         'Registers.cycles has no writers beyond the per-instruction sites; sums over blocks follow because both '
         'engines add per-instruction constants. Value level (C02.4): abstract execution of the emitted bytes changes '
         'R15W by exactly the interpreter path cycles for every operand and outcome; C02.5: the counter is loaded by the '
         'entry trampoline (with cycles left pending by an interrupt dispatch) and stored back by the exit trampoline.',
    note=TB + 'Cycles are compared modulo 2^16 (the call frame keeps 16 bits).' + VL,
    ref='DESIGN.md#c02'),
 'C06': dict(
    technique='per-opcode conditional constant propagation of decode/run_op compared with generated SM83 tables; value-level comparison of PC / SP / stack bytes with SM83 reference semantics over a bit-precise relational domain',
    text='Decides for all 511 encodings (x taken/not-taken, x sign of e8): decoder length = SM83 length = interpreter '
         'fall-through advance; decoder clocks/4 + path extras = SM83 cycles with the right condition polarity; taken '
         'paths load PC from imm16/HL/vector/popped word/PC+2+sext(e8); PUSH/CALL/RST/POP/RET/RETI stack protocol '
         '(addresses mod 2^16, byte order, SP update); is_block_end exactly on control/halt/IME variants; the 11 '
         'undefined opcodes decode to Invalid and diverge untouched; status codes; operand fetch never indexes past '
         'the slice run_next_op hands to decode() (window derived from the fetch code), and a window assembled through the bus '
         'holds memory_read_byte(PC + i) in byte i for every byte an instruction can consume. Value level (C06.8): PC mod 2^16, SP '
         'and every stack address and byte equal the SM83 reference for all operands, and no operand makes run_op diverge.',
    note=TB + 'Assumes 16-bit register pairs at instruction entry (C05.4). PC above 0xffff is not reduced by the '
         'interpreter and is reported as information only.' + VL,
    ref='DESIGN.md#c06'),
 'C18': dict(
    technique='effect confinement over the resolved call graph + path enumeration with known-bits',
    text='Decides, for both build configurations, that the only code reachable from the step functions that can '
         'write standard output is SerialComms::set_control (or a private helper of it), that it writes exactly the data '
         'latch iff bit 7 of the control value is set and flushes, that set_data is silent, that I/O offsets 1/2 route there '
         'from memory_write_byte only, the data latch SB is written by new and set_data only (a transfer leaves it as it is), and (C18.5) that for every encoding translated code makes the same ordered bus accesses '
         'as the interpreter, so SB/SC writes arrive in program order in both execution modes. Holds for all programs because it '
         'ranges over call-graph paths and abstract values, not sampled runs.',
    note=TB + 'std stdout write+flush assumed synchronous; stderr unrestricted.' + VL,
    ref='DESIGN.md#c18'),
}

CHECKS['C15'] = dict(
    technique='bit-precise comparison (canonical ROBDD per bit) of the loop-free building blocks of the renderer with their '
              'definitions; one symbolic iteration of the OAM scan, of the object-cache fill and of the mode-3 pixel loop '
              '(loop state summarised)',
    text='Does NOT decide the property as stated: the composition of a 160x144 frame from 16 KiB of VRAM/OAM data (tile fetch '
         'sequencing with SCX/SCY wrap-around, window switch, which of the ten objects covers a pixel by X then OAM index) runs '
         'through data-dependent loops and is out of reach of a sound static argument here.  What IS decided are necessary '
         'conditions - the building blocks every pixel passes through, each for all inputs: the plane interleave; row fetch '
         'and horizontal flip; LCDC decode and unsigned / signed tile addressing; BGP / OBP decode; per OAM entry the on-line '
         'test, vertical flip, the 8x16 tile-number rule, attribute bits, OAM order, the ten-object limit and that all 40 '
         'entries are examined; the object '
         'line cache cell format and its write guard; per pixel of the mode-3 loop the BG/OBJ mixing rule, the palette cell '
         'used, the position LY*160+x and the advance of the caches; the tile fetch (map cell and tile row for background and '
         'window, tile x advancing modulo 32); the pixel phase at the start of a 4-dot group ((d + SCX) mod 8, or (d + 7 - WX) '
         'mod 8 inside the window).  If one of these is wrong some frame is wrong; all of them '
         'holding does not make every frame right.',
    note=TB + 'The shade bytes are an arbitrary injective encoding of the four DMG shades.  Loop-carried state is summarised: '
         'the per-iteration rules say what one step does, not that the steps are composed in the right order.' + VL,
    ref='DESIGN.md#c15')

NOT_APPLICABLE = {
}
PENDING = 'static check designed (DESIGN.md) but not yet built in this commit; not claimed until it exists'


def main():
    props = [json.loads(l)['id'] for l in open(os.path.join(HERE, 'properties.jsonl'))]
    checks = []
    for pid in props:
        if pid not in CHECKS:
            continue
        c = dict(CHECKS[pid])
        if pid in FUNCTION_RULES:
            c['technique'] += '; function-level clauses decided bit-precisely (canonical ROBDD vectors): ' + FUNCTION_RULES[pid]
            if VL not in c['note']:
                c['note'] += VL
        c['note'] += THOROUGH
        checks.append({
            'property_id': pid,
            'quick_cmd': './check %s' % pid,
            'thorough_cmd': './check %s --thorough' % pid,
            'evidence_file': 'evidence/%s.json' % pid,
            'replay_cmd_template': './check %s --replay {path}' % pid,
            'engine': 'gbsa',
            'level_claimed': {'category': 'other', 'text': c['text'], 'design_ref': c['ref']},
            'level_note': c['note'],
            'technique': c['technique'],
        })
    na = []
    for pid in props:
        if pid in CHECKS:
            continue
        na.append({'property_id': pid, 'reason': NOT_APPLICABLE.get(pid, PENDING)})
    man = {
        'version': 1,
        'setup_cmd': './setup.sh',
        'hooks': {
            'guard': 'gb_dynarec_verif',
            'enable': 'none needed: static analysis reads /repo through a rustc_private MIR exporter; nothing is '
                      'compiled into the crate',
            'baseline_off_cmd': 'cd /repo && cargo test --workspace --no-fail-fast --offline',
            'source_commits': [],
            'add_only': True,
        },
        'engines': [{
            'name': 'gbsa',
            'path': 'gbsa/',
            'serves_properties': [c['property_id'] for c in checks],
            'kind_free_text': 'static analysis of rustc MIR (exported by tools/mirfacts for the default and jit '
                              'configurations): call graph, dominators, path-sensitive abstract interpretation '
                              '(constants, intervals, known bits, symbolic tags), per-opcode specialisation of '
                              'decoder/interpreter/emitter, reference tables',
        }],
        'checks': checks,
        'notes': 'Exit codes: 0 held (known findings printed as KNOWN-FINDING lines), 1 VIOLATION, 2 ANALYSIS-ERROR '
                 '(crate does not compile or an anchor/floor was lost). Genuine defects repaired in /repo are '
                 'listed in known_findings.json under "fixed".',
        'not_applicable': na,
    }
    with open(os.path.join(HERE, 'MANIFEST.json'), 'w') as fh:
        json.dump(man, fh, indent=1)
    try:
        import jsonschema
        jsonschema.validate(man, json.load(open('/root/.vp/MANIFEST.schema.json')))
        print('MANIFEST.json valid: %d checks, %d not_applicable' % (len(checks), len(na)))
    except ImportError:
        print('jsonschema not available; wrote MANIFEST.json unvalidated')


if __name__ == '__main__':
    main()
