#!/bin/bash
# tools/refactor_verify.sh <dir with refactorN.diff> [checks...]
# For each behaviour-preserving refactoring: the 98 tests must pass in both configurations and every check must exit 0.
SRC=$1; shift
CHECKS=${*:-C01 C02 C03 C04 C05 C06 C07 C08 C09 C10 C11 C12 C13 C14 C15 C16 C17 C18 C19 C20}
export CARGO_NET_OFFLINE=true
for d in $SRC/refactor*.diff; do
  [ -f "$d" ] || continue
  SCR=$(mktemp -d /tmp/gbsa-scratch.XXXXXX); mkdir -p $SCR/repo
  ( cd /repo && git ls-files -z | xargs -0 cp --parents -t $SCR/repo ); cp -r /repo/.git $SCR/repo/.git
  if ! ( cd $SCR/repo && git apply $d ) ; then echo "## $d: DOES NOT APPLY"; rm -rf $SCR; continue; fi
  t1=$(cd $SCR/repo && CARGO_TARGET_DIR=/tmp/sv-target cargo test --offline 2>&1 | grep -E "^test result|^error" | head -1)
  t2=$(cd $SCR/repo && CARGO_TARGET_DIR=/tmp/jit-target cargo test --offline --features jit 2>&1 | grep -E "^test result|^error" | head -1)
  echo "## $d"
  echo "   tests: $t1 | jit: $t2"
  if [ -z "$FORCE_ALL" ] && [ $# -eq 0 ]; then
    CH=""
    files=$(grep '^+++ b/' $d | sed 's#+++ b/##')
    for f in $files; do case $f in
      src/emitter/*) CH="$CH C01 C02 C04 C09";;
      src/interpreter/*) CH="$CH C01 C02 C04 C05 C06 C08 C09";;
      src/decoder/*) CH="$CH C01 C02 C05 C06 C09 C20";;
      src/mem.rs) CH="$CH C01 C03 C06 C07 C09 C10 C11 C12 C16";;
      src/cart.rs) CH="$CH C03 C10 C11 C12 C19";;
      src/emulator.rs) CH="$CH C01 C03 C04 C07 C08 C09";;
      src/cpu.rs) CH="$CH C01 C02 C08 C09";;
      src/devices/timer.rs) CH="$CH C13 C09 C10";;
      src/devices/video/*) CH="$CH C14 C15 C09 C10";;
      src/devices/joypad.rs) CH="$CH C17 C10";;
      src/devices/io.rs) CH="$CH C07 C09 C10 C13 C14 C17 C18";;
      src/devices/interrupts.rs) CH="$CH C07 C08 C10 C13 C14 C17";;
      src/devices/serial.rs) CH="$CH C18 C10";;
      src/cache/*) CH="$CH C01 C03 C04 C12 C18";;
      src/main.rs|src/system/*) CH="$CH C19 C18";;
      src/debug/*) CH="$CH C20";;
      *) CH="$CH C01 C02 C03 C04 C05 C06 C07 C08 C09 C10 C11 C12 C13 C14 C15 C16 C17 C18 C19 C20";;
    esac; done
    CHECKS=$(echo $CH | tr ' ' '\n' | sort -u | tr '\n' ' ')
    echo "   checks: $CHECKS"
  fi
  for c in $CHECKS; do
    out=$(cd /verif && GBSA_REPO=$SCR/repo timeout 900 ./check $c 2>&1); rc=$?
    if [ $rc -ne 0 ]; then echo "   $c exit=$rc"; echo "$out" | grep -E "rule=|ANALYSIS-ERROR|Traceback|Error" | cut -c1-400 | head -5; fi
  done
  rm -rf $SCR
done
