#!/usr/bin/env python3
"""Regenerate the seeded-change table in DESIGN.md from seeded/*/meta.json"""
import json, os, glob, re
HERE = os.path.dirname(os.path.dirname(os.path.abspath(__file__)))
rows = []
for mp in sorted(glob.glob(os.path.join(HERE, 'seeded', '*', 'meta.json'))):
    m = json.load(open(mp))
    name = os.path.basename(os.path.dirname(mp))
    mm = re.match(r'^C\d\d([b-z])', name)
    origin = 'own' if name.startswith('own-') else ('agent r%d' % (ord(mm.group(1)) - ord('a') + 1) if mm else 'agent r1')
    st_ = m.get('status', '')
    low = st_.lower()
    if 'did not' in low or 'missed it' in low or 'caught only by' in low:
        first = 'sibling as built, own property after strengthening'
    elif 'missed' in low or 'after strengthening' in low:
        first = 'after strengthening'
    else:
        first = 'as built'
    summ = m.get('summary', '').replace('|', '/').replace('\n', ' ')
    if len(summ) > 150:
        summ = summ[:147] + '...'
    rows.append('| `%s` | %s | %s | %s | %s | %s |' % (name, m.get('property'), origin, summ, ', '.join(m.get('caught_by') or ['—']), first))
table = ['<!-- seedtable:begin -->', '| seeded change | property | origin | what was changed | reported by | caught |', '|---|---|---|---|---|---|'] + rows + \
        ['', '%d changes; every one is reported (exit 1 + VIOLATION naming the construct) by the rules in the last column.' % len(rows),
         '<!-- seedtable:end -->']
p = os.path.join(HERE, 'DESIGN.md')
s = open(p).read()
if 'SEEDTABLE' in s:
    s = s.replace('SEEDTABLE', '\n'.join(table))
else:
    s = re.sub(r'<!-- seedtable:begin -->.*?<!-- seedtable:end -->', lambda _: '\n'.join(table), s, flags=re.S)
open(p, 'w').write(s)
print(len(rows), 'rows')
