#!/usr/bin/env python3
"""Store a verified seeded change under /verif/seeded/<name>/ :  seed_store.py <name> <srcdir> <caught_by or -> <status text>"""
import json, os, shutil, sys
name, src, caught, status = sys.argv[1:5]
dst = os.path.join(os.path.dirname(os.path.dirname(os.path.abspath(__file__))), 'seeded', name)
os.makedirs(dst, exist_ok=True)
for f in ('patch.diff', 'demo.diff', 'notes.md'):
    if os.path.exists(os.path.join(src, f)):
        shutil.copy(os.path.join(src, f), os.path.join(dst, f))
m = json.load(open(os.path.join(src, 'meta.json')))
import re
m['demo_cmd'] = re.sub(r'CARGO_TARGET_DIR=\S+ ', '', m.get('demo_cmd', ''))
m['origin'] = 'independent sub-agent given only the property text and a scratch worktree'
m['verified_by_me'] = ('tools/seed_verify.sh in a scratch worktree: demo.diff alone -> all tests pass; patch.diff alone -> the 98 '
                       'baseline tests pass (default and --features jit); patch.diff + demo.diff -> the demo tests fail; then '
                       'git -C /repo apply patch.diff, ./check, git -C /repo checkout -- .')
m['caught_by'] = [] if caught == '-' else caught.split(',')
m['status'] = status
json.dump(m, open(os.path.join(dst, 'meta.json'), 'w'), indent=1)
print('stored', dst)
