#!/bin/bash
# Verify a seeded-change deliverable and run the checks against it.
#   tools/seed_verify.sh <Cxx> <dir-with patch.diff demo.diff meta.json> [check ids to run; default: the property itself]
# Steps (all building happens in a scratch worktree under /tmp which is removed at the end):
#   1. demo.diff alone            -> all tests pass (98 + demo)
#   2. patch.diff alone           -> the 98 baseline tests pass (default and --features jit)
#   3. patch.diff + demo.diff     -> a demo test fails
#   4. apply patch.diff to /repo, run ./check for the listed ids, undo with git checkout
set -u
ID=$1; SRC=$2; shift 2
CHECKS=${*:-$ID}
WT=/tmp/sv-$ID-$$
TGT=/tmp/sv-target
export CARGO_NET_OFFLINE=true
FEAT=$(python3 -c "import json,sys;m=json.load(open('$SRC/meta.json'));print('--features jit' if 'jit' in m.get('demo_cmd','') else '')")
git -C /repo worktree add --detach $WT >/dev/null 2>&1 || { echo "cannot create worktree"; exit 2; }
cleanup() { git -C /repo worktree remove --force $WT >/dev/null 2>&1; rm -rf $WT; }
trap cleanup EXIT
run_tests() { # $1 = extra cargo args; prints summary line
  (cd $WT && CARGO_TARGET_DIR=$TGT cargo test --offline $1 2>&1 | grep -E "^test result|FAILED|failed|panicked" | head -12)
}
echo "== 1. demo alone ($FEAT)"
git -C $WT apply $SRC/demo.diff || { echo "demo.diff does not apply"; exit 2; }
run_tests "$FEAT"
git -C $WT checkout -- . ; git -C $WT clean -fdq
echo "== 2. patch alone (default, then jit)"
git -C $WT apply $SRC/patch.diff || { echo "patch.diff does not apply"; exit 2; }
run_tests ""
run_tests "--features jit"
echo "== 3. patch + demo ($FEAT)"
git -C $WT apply $SRC/demo.diff
run_tests "$FEAT"
git -C $WT checkout -- . ; git -C $WT clean -fdq
echo "== 4. checks on /repo with patch applied: $CHECKS"
if [ -n "$(git -C /repo status --porcelain)" ]; then echo "/repo not clean, refusing"; exit 2; fi
git -C /repo apply $SRC/patch.diff
for c in $CHECKS; do
  (cd /verif && ./check $c 2>&1 | grep -E "VIOLATION|KNOWN-FINDING|ANALYSIS-ERROR|HOLDS|VIOLATED|violation:" | head -12; echo "   -> $c exit=${PIPESTATUS[0]}")
done
git -C /repo checkout -- .
git -C /repo status --porcelain
