#!/bin/sh
# usage: tools/scratch_check.sh <patch-file | --revert <commit>> <property id>...
# Copies /repo's working tree (without build output) to a scratch directory outside /repo and /verif, applies the
# patch (or reverts the commit) there, runs the checks against the copy and removes it.
set -e
VERIF="$(cd "$(dirname "$0")/.." && pwd)"
SCR="$(mktemp -d /tmp/gbsa-scratch.XXXXXX)"
trap 'rm -rf "$SCR"' EXIT
mkdir -p "$SCR/repo"
( cd /repo && git ls-files -z | xargs -0 cp --parents -t "$SCR/repo" )
cp -r /repo/.git "$SCR/repo/.git"
if [ "$1" = "--revert" ]; then
  ( cd "$SCR/repo" && git -c user.email=x@x -c user.name=x revert --no-edit -n "$2" >/dev/null )
  shift 2
else
  ( cd "$SCR/repo" && git apply "$1" )
  shift
fi
rc=0
for id in "$@"; do
  GBSA_REPO="$SCR/repo" "$VERIF/check" "$id" || rc=$?
done
exit $rc
